#!/bin/bash
# Offline setup: warm the caches the checks use (MIR dump target dir, native replay crate).
# Everything is rebuilt on demand by ./check as well; this only moves the cold-build cost here.
set -e
cd "$(dirname "$0")"
export CARGO_NET_OFFLINE=true
mkdir -p .cache evidence
python3-vt - <<'PY'
import sys
sys.path.insert(0, '.')
from harness import driver
p, th, s = driver.ensure_mir()
print('MIR dump ready:', p, '(%.0fs)' % s)
exe = driver.replay_binary()
print('replay binary ready:', exe)
PY
