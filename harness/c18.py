"""C18 — the proxy hands git exactly the arguments the user typed.

Encoded from MIR: git::cli_parser::parse_git_cli_args (with nested classify /
take_valueish / is_eq_form), ParsedGitInvocation::to_invocation_vec,
commands::git_handlers::parse_alias_tokens, resolve_alias_impl.

Oracles (trusted part, each counterexample is re-checked against the real git binary):
  A1  a reference model of git.c's handle_options + cmd_main prologue, whose option table is
      probed from the installed git at run time;
  A2  a reference model of alias.c's split_cmdline;
  A3  git's rule that aliases never shadow built-in commands and that an alias loop is fatal.
"""
import json
import os
import subprocess
import tempfile
import z3
from harness.lib import *

ID = 'C18'
PARSE = 'git::cli_parser::parse_git_cli_args'
TOVEC = 'git::cli_parser::ParsedGitInvocation::to_invocation_vec'
PGI = 'git::cli_parser::ParsedGitInvocation'
ALIAS_TOKENS = 'commands::git_handlers::parse_alias_tokens'
RESOLVE = 'commands::git_handlers::resolve_alias_impl'

CFG = {'max_steps': 600000, 'solver_timeout_ms': 120000}

# every top-level option name any git 2.x knows (the probe decides what the installed git does with it)
NAMES = ['-p', '--paginate', '-P', '--no-pager', '--no-replace-objects', '--no-lazy-fetch', '--no-optional-locks',
         '--no-advice', '--bare', '--literal-pathspecs', '--glob-pathspecs', '--noglob-pathspecs', '--icase-pathspecs',
         '-C', '-c', '--git-dir', '--work-tree', '--namespace', '--config-env', '--list-cmds', '--attr-source',
         '--super-prefix', '--exec-path', '--shallow-file', '-v', '--version', '-h', '--help', '--html-path',
         '--man-path', '--info-path', '--']
EQ_NAMES = ['--git-dir', '--work-tree', '--namespace', '--config-env', '--list-cmds', '--attr-source', '--super-prefix',
            '--exec-path', '--shallow-file']
# class representatives used for the "other" positions of 3/4-token shapes
REPS = ['-p', '--bare', '-C', '--git-dir', '--version', '-h', '--html-path', '--', '--exec-path']
WORDS = ['commit', 'help', 'version']

BOUNDS = {
    'quick': 'A1: argv of <=3 tokens; every token is a fully symbolic printable-ASCII string of 1-3 bytes, or one of %d option names (verbatim or NAME=<1 symbolic byte>), or a command word; in 3-token vectors one position ranges over all names and the others over %d class representatives, the symbolic short tokens and the command words. A2: alias value of <=5 fully symbolic bytes over {a SP TAB \' " \\ ! VT} plus 3 templates with U+00A0 / leading space. A3: <=2 alias definitions over names {ci, st, commit}' % (len(NAMES) + len(EQ_NAMES), len(REPS)),
    'thorough': 'as quick with 4-token vectors (two positions over all names) and alias values of <=7 bytes',
}
OUTSIDE = 'tokens longer than 3 symbolic bytes that are not one of the listed option names; argv longer than 4; alias values longer than 7 bytes; environment-dependent git behaviour (GIT_* variables)'
ASSUMPTIONS = [
    'reference model of git.c handle_options/cmd_main prologue; its option table is probed from the installed git binary on every run',
    'reference model of alias.c split_cmdline (git isspace = SP TAB LF CR)',
    'Repository::config_get_str is an environment model answering from a symbolic alias table',
    'symbolic bytes are printable ASCII 0x21-0x7e (tokens) / the stated alphabet (alias values)',
]

_PROBE = None


def probe_git():
    """what the installed git does with each top-level option name"""
    global _PROBE
    if _PROBE is not None:
        return _PROBE
    cache = os.path.join(os.path.dirname(os.path.dirname(os.path.abspath(__file__))), '.cache', 'git-probe.json')
    ver = subprocess.run(['git', '--version'], stdout=subprocess.PIPE).stdout.decode().strip()
    if os.path.exists(cache):
        try:
            d = json.load(open(cache))
            if d.get('version') == ver:
                _PROBE = d
                return d
        except Exception:
            pass
    tmp = tempfile.mkdtemp(prefix='vprobe')
    env = {'PATH': os.environ.get('PATH', ''), 'HOME': tmp, 'GIT_CEILING_DIRECTORIES': tmp, 'VPROBE_ENV': 'x',
           'GIT_CONFIG_NOSYSTEM': '1', 'LC_ALL': 'C'}

    def run(args):
        p = subprocess.run(['git'] + args, cwd=tmp, env=env, stdout=subprocess.PIPE, stderr=subprocess.PIPE, timeout=20)
        return p.returncode, p.stdout.decode('utf-8', 'replace'), p.stderr.decode('utf-8', 'replace')
    kinds = {}
    for n in NAMES:
        if n in ('-v', '--version', '-h', '--help'):
            kinds[n] = 'meta'
            continue
        rc, out, errt = run([n, '--version'])
        if rc == 0 and out.startswith('git version'):
            kinds[n] = 'novalue'
            continue
        if rc == 0:
            kinds[n] = 'query'
            continue
        if errt.startswith('unknown option'):
            kinds[n] = 'unknown'
            continue
        got = None
        for val in ('.', 'a.b=c', 'a.b=VPROBE_ENV'):
            rc2, out2, err2 = run([n, val, '--version'])
            if rc2 == 0 and out2.startswith('git version'):
                got = 'next'
                break
        kinds[n] = got or 'error'
    eq = {}
    for n in EQ_NAMES:
        got = 'unknown'
        for val in ('.', 'a.b=VPROBE_ENV', 'main'):
            rc, out, errt = run([n + '=' + val, '--version'])
            if rc == 0 and out.startswith('git version'):
                got = 'eq'
                break
            if rc == 0:
                got = 'query'
                break
            if not errt.startswith('unknown option'):
                got = 'eq'   # recognised, value rejected
        eq[n] = got
    d = {'version': ver, 'kinds': kinds, 'eq': eq}
    try:
        os.makedirs(os.path.dirname(cache), exist_ok=True)
        json.dump(d, open(cache, 'w'))
    except OSError:
        pass
    subprocess.call(['rm', '-rf', tmp])
    _PROBE = d
    return d


# ---------------------------------------------------------------------------
# planning

def _tok_specs_short():
    return [('sym', 1), ('sym', 2), ('sym', 3)]


def plan(tier, seed):
    probe_git()
    tasks = []
    full = [('name', n) for n in NAMES] + [('eq', n) for n in EQ_NAMES] + _tok_specs_short() + [('word', w) for w in WORDS]
    small = [('name', n) for n in REPS] + [('eq', '--git-dir')] + _tok_specs_short() + [('word', 'commit')]
    tasks.append(('argv', {'toks': []}))
    for a in full:
        tasks.append(('argv', {'toks': [a]}))
    for a in full:
        for b in full:
            tasks.append(('argv', {'toks': [a, b]}))
    # 3 tokens: one position over everything, the others over the small set
    seen = set()
    for pos in range(3):
        for a in full:
            for b in small:
                for c in small:
                    toks = [b, c]
                    toks.insert(pos, a)
                    key = json.dumps(toks)
                    if key not in seen:
                        seen.add(key)
                        tasks.append(('argv', {'toks': toks}))
    if tier != 'quick':
        tiny = [('name', '-C'), ('name', '--version'), ('name', '-h'), ('name', '--'), ('sym', 2), ('word', 'commit'), ('name', '-p')]
        for p1 in range(4):
            for p2 in range(p1 + 1, 4):
                for a in full:
                    for b in full:
                        for c in tiny:
                            for d in tiny:
                                toks = [c, d]
                                toks.insert(p1, a)
                                toks.insert(p2, b)
                                key = json.dumps(toks)
                                if key not in seen:
                                    seen.add(key)
                                    tasks.append(('argv', {'toks': toks}))
    # A2
    nmax = 5 if tier == 'quick' else 7
    for n in range(0, nmax + 1):
        tasks.append(('alias_tokens', {'n': n, 'tpl': None}))
        if n and n < nmax:
            tasks.append(('alias_tokens', {'n': n, 'tpl': 'cmd_prefix'}))
    for tpl in ('nbsp_mid', 'nbsp_lead', 'lead_space'):
        tasks.append(('alias_tokens', {'n': 3, 'tpl': tpl}))
    # A3
    for cmd in ('ci', 'st', 'commit'):
        for nd in (0, 1, 2):
            tasks.append(('alias_resolve', {'cmd': cmd, 'defs': nd}))
    # alias names are matched case-insensitively by git: typed in another case, and reached from another alias
    for cmd in ('CI', 'St'):
        for nd in (1, 2):
            tasks.append(('alias_resolve', {'cmd': cmd, 'defs': nd}))
    tasks.append(('alias_resolve', {'cmd': 'k1', 'chain': 2, 'end': 'status', 'upper_hop': True}))
    for depth in (1, 2, 3, 4, 5):
        for end in ('commit -v', 'log', 'k1', '!echo x', 'status'):
            tasks.append(('alias_resolve', {'cmd': 'k1', 'chain': depth, 'end': end}))
    # group the many tiny argv shapes into batches to amortise task overhead
    argv = [t for t in tasks if t[0] == 'argv']
    rest = [t for t in tasks if t[0] != 'argv']
    batches = []
    B = 40
    for i in range(0, len(argv), B):
        batches.append(('argv_batch', {'shapes': [t[1]['toks'] for t in argv[i:i + B]]}))
    return batches + rest


# ---------------------------------------------------------------------------
# A1

def build_token(h, spec, idx):
    kind, x = spec
    if kind == 'name' or kind == 'word':
        return list(x.encode())
    if kind == 'eq':
        return list(x.encode()) + [61] + [h.byte('v%d' % idx, lo=0x21, hi=0x7e)]
    if kind == 'sym':
        return [h.byte('t%d_%d' % (idx, k), lo=0x21, hi=0x7e) for k in range(x)]
    raise ValueError(spec)


def s_eq(P, tok, s):
    return P.branch(bytes_eq(list(tok), list(s.encode())))


def s_prefix(P, tok, s):
    b = list(s.encode())
    if len(tok) < len(b):
        return False
    return P.branch(bytes_eq(list(tok[:len(b)]), b))


def git_reference(P, toks):
    """git.c: handle_options + the start of cmd_main.  -> (consumed globals, terminal)"""
    pr = probe_git()
    kinds, eqk = pr['kinds'], pr['eq']
    consumed = []
    i = 0
    n = len(toks)
    while i < n:
        t = toks[i]
        if len(t) == 0 or not P.branch(byte_eq(t[0], 45)):
            break
        if s_eq(P, t, '--help') or s_eq(P, t, '-h') or s_eq(P, t, '--version') or s_eq(P, t, '-v'):
            break
        handled = False
        if s_prefix(P, t, '--exec-path'):
            if len(t) > 11 and P.branch(byte_eq(t[11], 61)):
                consumed.append(t)
                handled = True
            else:
                P.state['meta_stop'] = i
                return consumed, ('query', t)
        if not handled:
            for name, k in kinds.items():
                if name in ('--exec-path',) or k == 'meta':
                    continue
                if len(name) != len(t):
                    continue
                if s_eq(P, t, name):
                    if k == 'novalue':
                        consumed.append(t)
                    elif k == 'query':
                        P.state['meta_stop'] = i
                        return consumed, ('query', t)
                    elif k == 'next':
                        if i + 1 >= n:
                            return consumed, ('missing', t)
                        consumed.append(t)
                        consumed.append(toks[i + 1])
                        i += 1
                    else:
                        return consumed, ('unknown', t)
                    handled = True
                    break
        if not handled:
            for name, k in eqk.items():
                if name == '--exec-path' or k == 'unknown':
                    continue
                if s_prefix(P, t, name + '='):
                    if k == 'query':
                        P.state['meta_stop'] = i
                        return consumed, ('query', t)
                    consumed.append(t)
                    handled = True
                    break
        if not handled:
            return consumed, ('unknown', t)
        i += 1
    if i >= n:
        return consumed, ('none',)
    t = toks[i]
    if s_eq(P, t, '--version') or s_eq(P, t, '-v'):
        cmd = list(b'version')
        P.state['meta_stop'] = i
    elif s_eq(P, t, '--help') or s_eq(P, t, '-h'):
        cmd = list(b'help')
        P.state['meta_stop'] = i
    else:
        cmd = t
    return consumed, ('cmd', cmd, toks[i + 1:])


def outcomes_equal(a, b):
    """z3/python condition that two reference outcomes are the same"""
    ca, ta = a
    cb, tb = b
    if len(ca) != len(cb) or ta[0] != tb[0]:
        return False
    conds = [bytes_equal(x, y) for x, y in zip(ca, cb)]
    if ta[0] in ('query', 'unknown', 'missing'):
        conds.append(bytes_equal(ta[1], tb[1]))
    elif ta[0] == 'cmd':
        conds.append(bytes_equal(ta[1], tb[1]))
        if len(ta[2]) != len(tb[2]):
            return False
        conds += [bytes_equal(x, y) for x, y in zip(ta[2], tb[2])]
    return all_of(conds)


def describe(o):
    c, t = o
    return '%d globals, %s' % (len(c), t[0])


def run_argv(h, specs):
    P = h.P
    M = P.M
    toks = [build_token(h, s, i) for i, s in enumerate(specs)]
    h.inputs_struct = {'argv': [ByteStr(t) for t in toks]}
    args = VecV([StringV(t) for t in toks])
    try:
        parsed = P.call_named(PARSE, [SliceRef(args, 0, len(toks))])
        vec = P.call_named(TOVEC, [Ref(Cell(parsed))])
    except Panic as e:
        h.panic('A1-no-panic', e.msg)
        return
    out = [list(s.buf.b) for s in vec.e]
    # literal equality is sufficient; otherwise git must interpret both vectors identically
    lit = False
    if len(out) == len(toks):
        lit = all_of([bytes_equal(x, y) for x, y in zip(out, toks)])
    if lit is True:
        h.require(True, 'A1-same-invocation')
    else:
        P.state.pop('meta_stop', None)
        ra = git_reference(P, toks)
        P.state['meta_stop_user'] = P.state.pop('meta_stop', None)
        rb = git_reference(P, out)
        same = outcomes_equal(ra, rb)
        h.require(any_of([lit, same]) if lit is not False else same, 'A1-same-invocation',
                  'git interprets the re-emitted vector differently: user %s / passed %s' % (describe(ra), describe(rb)),
                  known_a1(h, toks))
    # the command is never a global option's value:  when git finds a command, git-ai's command is it
    cmdv = field(M, parsed, PGI, 'command')
    P.state.pop('meta_stop', None)
    ra = git_reference(P, toks)
    P.state['meta_stop_user'] = P.state.pop('meta_stop', None)
    if ra[1][0] == 'cmd' and cmdv.var == 'Some':
        h.require(bytes_equal(cmdv.f[0].buf.b, ra[1][1]), 'A1-command', 'command chosen for hooks differs from the command git runs',
                  known_a1(h, toks))
    if h.sample is None:
        h.sample = h.witness()


def known_a1(h, toks):
    """recorded deviation: git stops option scanning at the first help/version/query option; git-ai keeps scanning the
    GLOBAL options that follow it and re-orders or drops them.  Class = git's scan of the USER's argv stops at such a
    token, and either that token is a pure query (--html-path, --man-path, --info-path, --exec-path: git prints and
    exits, git-ai drops it) or one of the tokens after it is something git-ai's global scanner acts on (a global option
    git knows, `--`, or another help/version token).  `git --help -a` or `git --help commit` are NOT in the class."""
    P = h.P
    ms = P.state.get('meta_stop_user')
    if ms is None or ms + 1 >= len(toks):
        return [('meta-option-followed-by-more', z3.BoolVal(False))]
    pr = probe_git()
    kinds, eqk = pr['kinds'], pr['eq']
    stop = toks[ms]
    cls = False
    # a version request drops or re-orders whatever follows it (git's `version` ignores positional arguments, so most of
    # these are harmless natively); the pure queries are dropped themselves
    for q in ('--html-path', '--man-path', '--info-path', '--exec-path', '--version', '-v'):
        if s_eq(P, stop, q):
            cls = True
    if not cls:
        for t in toks[ms + 1:]:
            if len(t) == 0 or not P.branch(byte_eq(t[0], 45)):
                continue
            if any(s_eq(P, t, x) for x in ('--', '--help', '-h', '--version', '-v')):
                cls = True
                break
            if any(len(name) == len(t) and s_eq(P, t, name) for name in kinds):
                cls = True
                break
            if any(s_prefix(P, t, name + '=') for name in eqk):
                cls = True
                break
            # the attached spellings git-ai's scanner also takes for the value-taking short options
            if s_prefix(P, t, '-C') or s_prefix(P, t, '-c'):
                cls = True
                break
    return [('meta-option-followed-by-more', z3.BoolVal(bool(cls)))]


def ob_argv_batch(h, shape):
    k = h.choice(len(shape['shapes']))
    h.shape = {'toks': shape['shapes'][k]}
    run_argv(h, [tuple(x) for x in shape['shapes'][k]])


def ob_argv(h, shape):
    run_argv(h, [tuple(x) for x in shape['toks']])


# ---------------------------------------------------------------------------
# A2

A2_ALPHABET = [97, 32, 9, 39, 34, 92, 33, 11]
GIT_SPACE = (32, 9, 10, 13)


def split_cmdline_reference(P, bs):
    """alias.c split_cmdline on a byte list. -> list of tokens | None (git dies)"""
    toks = [[]]
    quoted = 0
    src = 0
    n = len(bs)

    def is_(b, v):
        return P.branch(byte_eq(b, v))

    def isspace(b):
        return any(is_(b, v) for v in GIT_SPACE)
    while src < n:
        c = bs[src]
        if not quoted and isspace(c):
            src += 1
            while src < n and isspace(bs[src]):
                src += 1
            toks.append([])
        elif not quoted and (is_(c, 39) or is_(c, 34)):
            quoted = 39 if is_(c, 39) else 34
            src += 1
        elif quoted and is_(c, quoted):
            quoted = 0
            src += 1
        else:
            if is_(c, 92) and quoted != 39:
                src += 1
                if src >= n:
                    return None
                c = bs[src]
            toks[-1].append(c)
            src += 1
    if quoted:
        return None
    return toks


def ob_alias_tokens(h, shape):
    P = h.P
    n = shape['n']
    tpl = shape.get('tpl')
    sym = [h.byte_in('a%d' % i, A2_ALPHABET) for i in range(n)]
    if tpl == 'nbsp_mid':
        bs = sym[:1] + [0xC2, 0xA0] + sym[1:]
    elif tpl == 'nbsp_lead':
        bs = [0xC2, 0xA0] + sym
    elif tpl == 'lead_space':
        bs = [32] + sym
    elif tpl == 'cmd_prefix':
        bs = list(b'zq') + sym
    else:
        bs = sym
    h.inputs_struct = {'value': ByteStr(bs)}
    try:
        r = P.call_named(ALIAS_TOKENS, [mk_str(bs)])
    except Panic as e:
        h.panic('A2-no-panic', e.msg)
        return
    # git: a value starting with '!' is a shell alias (git-ai: None = leave the invocation alone)
    if bs and P.branch(byte_eq(bs[0], 33)):
        h.require(r.var == 'None', 'A2-shell-alias', 'shell alias was tokenised', known_a2(h, bs))
        h.sample = h.witness()
        return
    ref = split_cmdline_reference(P, bs)
    known = known_a2(h, bs, ref)
    if ref is None:
        h.require(r.var == 'None', 'A2-git-rejects', 'git rejects this alias value but git-ai expands it', known)
    elif r.var == 'None':
        # giving up is always safe for the arguments: handle_git then passes the user's own invocation
        h.require(True, 'A2-git-accepts')
    else:
        got = [list(s.buf.b) for s in r.f[0].e]
        if len(got) != len(ref):
            h.require(False, 'A2-same-tokens', 'token count %d vs git %d' % (len(got), len(ref)), known)
        else:
            h.require(all_of([bytes_equal(x, y) for x, y in zip(got, ref)]), 'A2-same-tokens', 'tokens differ from git split_cmdline', known)
    h.sample = h.witness()


def known_a2(h, bs, ref='unset'):
    """recorded deviations of parse_alias_tokens from split_cmdline, as predicates over the value"""
    P = h.P
    out = []
    n = len(bs)
    # (1) git starts a new argument at every separator run, also at either end of the value (`a ` -> [a, ""],
    #     ` a` -> ["", a]); git-ai drops those edge arguments.  (Empty QUOTED arguments were repaired.)
    def gitspace(b):
        return any_of([byte_eq(b, w) for w in (32, 9, 10, 13)])
    edge = zbool(any_of([gitspace(bs[0]), gitspace(bs[-1])])) if n else z3.BoolVal(True)     # the empty value: git reports `empty alias`
    out.append(('alias-separator-at-either-end', edge))
    # (2) git rejects a value that ends inside an escape; git-ai keeps the backslash
    out.append(('alias-trailing-backslash', zbool(byte_eq(bs[-1], 92)) if n else z3.BoolVal(False)))
    return out


# ---------------------------------------------------------------------------
# A3

BUILTINS = None


def builtins():
    global BUILTINS
    if BUILTINS is None:
        out = subprocess.run(['git', '--list-cmds=builtins'], stdout=subprocess.PIPE).stdout.decode().split()
        BUILTINS = set(out)
    return BUILTINS


ALIAS_VALUES = ['commit -v', 'status', 'ci', 'st -s', 'log', '!echo x', '-p log', '--no-pager st']
ALIAS_NAMES = ['ci', 'st', 'commit']
USER_GLOBALS = [[], ['-c', 'x.y=z'], ['--no-pager']]


def install(M):
    def config_get_str(P, c, args, dt):
        key = as_bytes(args[1])
        cb = concrete_bytes(key)
        table = P.state.get('aliases', {})
        if cb is None:
            raise Unsupported('symbolic config key')
        k = cb.decode()
        P.events.append(('config_get_str', k))
        # git matches configuration variable names case-insensitively
        low = {a.lower(): v for a, v in table.items()}
        if k.lower().startswith('alias.') and k[6:].lower() in low:
            return ok(some(pystring(low[k[6:].lower()])))
        return ok(none())
    M.env['git::repository::Repository::config_get_str'] = config_get_str

    def config_get_regexp(P, c, args, dt):
        import re as _re
        pat = concrete_bytes(as_bytes(args[1]))
        if pat is None:
            raise Unsupported('symbolic config pattern')
        rx = _re.compile(pat.decode())
        table = P.state.get('aliases', {})
        P.events.append(('config_get_regexp', pat.decode()))
        ent = []
        for a, v in table.items():
            key = 'alias.' + a.lower()          # keys come back lower-cased
            if rx.search(key):
                ent.append([pystring(key), pystring(v)])
        return ok(MapV('hash', ent, 'map'))
    M.env['git::repository::Repository::config_get_regexp'] = config_get_regexp


def git_alias_reference(P, argv, table):
    """git's own treatment of argv (python strings): global options are consumed by handle_options,
    built-ins are never aliased, alias values are split and may themselves start with global options,
    a loop is fatal.  -> ('run', globals, [cmd, args..]) | ('fatal',) | ('shell', ...)"""
    seen = []
    globs = []
    cur = list(argv)
    while True:
        consumed, term = git_reference(P, [list(x.encode()) for x in cur])
        globs += [bytes(x).decode() for x in consumed]
        if term[0] != 'cmd':
            return ('other', globs, term[0])
        c = bytes(term[1]).decode()
        rest = [bytes(x).decode() for x in term[2]]
        lowt = {a.lower(): v for a, v in table.items()}
        if c in builtins() or c.lower() not in lowt:
            return ('run', globs, [c] + rest)
        if c.lower() in seen:
            return ('fatal',)
        seen.append(c.lower())
        val = lowt[c.lower()]
        if val.startswith('!'):
            return ('shell', globs, [c] + rest)
        toks = val.split()
        if not toks:
            return ('fatal',)
        cur = toks + rest
        # git: "recursive alias" when the alias expands to itself as the command
        c2, t2 = git_reference(P, [list(x.encode()) for x in toks])
        if t2[0] == 'cmd' and bytes(t2[1]).decode() == c:
            return ('fatal',)


def ob_alias_resolve(h, shape):
    P = h.P
    M = P.M
    nd = shape.get('defs', 0)
    table = {}
    picks = []
    for i in range(nd):
        ni = h.choice(len(ALIAS_NAMES))
        vi = h.choice(len(ALIAS_VALUES))
        table[ALIAS_NAMES[ni]] = ALIAS_VALUES[vi]
        picks.append([ALIAS_NAMES[ni], ALIAS_VALUES[vi]])
    if shape.get('chain'):
        # a loop-free (or looping) chain of `chain` hops: k1 -> k2 -> ... -> end
        d = shape['chain']
        for i in range(1, d + 1):
            val = (('K%d' if shape.get('upper_hop') else 'k%d') % (i + 1)) + (' -q' if i == 2 else '') if i < d else shape['end']
            table['k%d' % i] = val
            picks.append(['k%d' % i, val])
    P.state['aliases'] = table
    cmd = shape['cmd']
    ug = USER_GLOBALS[h.choice(len(USER_GLOBALS))]
    argv = list(ug) + [cmd, '-x']
    h.inputs_struct = {'aliases': picks, 'argv': argv}
    parsed = P.call_named(PARSE, [SliceRef(VecV([pystring(x) for x in argv]), 0, len(argv))])
    repo = Opaque('Repository', None)
    try:
        r = P.call_named(RESOLVE, [Ref(Cell(parsed)), Ref(Cell(repo))])
    except Panic as e:
        h.panic('A3-no-panic', e.msg)
        return
    ref = git_alias_reference(P, argv, table)
    if r.var == 'None':
        passed = list(argv)          # handle_git keeps the user's invocation
    else:
        vec = P.call_named(TOVEC, [Ref(Cell(r.f[0]))])
        passed = [bytes(concrete_bytes(s.buf.b)).decode() for s in vec.e]
    known = [('alias-shadows-builtin', z3.BoolVal(any(k in builtins() for k in table)))]
    # what git finally does when handed `passed` must be what it does for the user's argv
    final = git_alias_reference(P, passed, table) if passed else ('fatal',)
    h.require(final == ref, 'A3-same-expansion', 'git would end up with %r for the user but %r through git-ai' % (ref, final), known)
    # the command git-ai settles on (it selects the hooks) is the command git's own expansion ends with
    if ref[0] == 'run':
        if r.var == 'None':
            hook_cmd = cmd                      # handle_git keeps the unexpanded invocation
        else:
            cf = field(M, r.f[0], 'git::cli_parser::ParsedGitInvocation', 'command')
            hook_cmd = bytes(concrete_bytes(as_bytes(cf.f[0]))).decode() if cf.var == 'Some' else None
        h.require(hook_cmd == ref[2][0], 'A3-hooks-follow-gits-expansion',
                  'git runs `%s` for this invocation, git-ai selects its hooks for `%s`' % (ref[2][0], hook_cmd), known)
    h.sample = {'aliases': picks, 'argv': argv, 'passed': passed}


OBLIGATIONS = {'argv': ob_argv, 'argv_batch': ob_argv_batch, 'alias_tokens': ob_alias_tokens, 'alias_resolve': ob_alias_resolve}


# ---------------------------------------------------------------------------
# native replay against the real git binary

def _run_git(args, env_extra=None, cwd=None):
    tmp = cwd or tempfile.mkdtemp(prefix='vgit')
    env = {'PATH': os.environ.get('PATH', ''), 'HOME': tmp, 'GIT_CEILING_DIRECTORIES': os.path.dirname(tmp),
           'GIT_CONFIG_NOSYSTEM': '1', 'LC_ALL': 'C', 'GIT_PAGER': 'cat', 'TERM': 'dumb'}
    env.update(env_extra or {})
    try:
        p = subprocess.run(['git'] + args, cwd=tmp, env=env, stdout=subprocess.PIPE, stderr=subprocess.PIPE, timeout=30,
                           stdin=subprocess.DEVNULL)
        return p.returncode, p.stdout.decode('utf-8', 'replace'), p.stderr.decode('utf-8', 'replace')
    except subprocess.TimeoutExpired:
        return -1, '', 'timeout'
    finally:
        if cwd is None:
            subprocess.call(['rm', '-rf', tmp])


def replay(v, native):
    ob = v['obligation']
    inp = v['inputs']
    if ob.startswith('A1'):
        argv = [bytes_of_json(t).decode('utf-8') for t in inp['argv']]
        r = native('c18_parse', {'argv': argv})
        if 'panic' in r:
            return {'reproduced': v['kind'] == 'panic', 'native': r}
        passed = r['vec']
        if passed == argv and ob == 'A1-same-invocation':
            return {'reproduced': False, 'native': r}
        if ob == 'A1-command':
            # which command does the real git run for the user's argv?  (GIT_TRACE names it)
            rc, out, errt = _run_git(argv, {'GIT_TRACE': '1'})
            ran = None
            for l in errt.splitlines():
                if 'trace: built-in: git ' in l:
                    ran = l.split('trace: built-in: git ', 1)[1].split()[0] if l.split('trace: built-in: git ', 1)[1].strip() else ''
                    break
                if 'trace: exec: git-' in l:
                    ran = l.split('trace: exec: git-', 1)[1].split()[0]
                    break
            return {'reproduced': ran is not None and r.get('command') != ran, 'git_ran': ran, 'native': r}
        a = _run_git(argv)
        b = _run_git(passed)
        return {'reproduced': a != b, 'user': a, 'passed': b, 'argv': argv, 'passed_argv': passed}
    if ob.startswith('A2'):
        val = bytes_of_json(inp['value']).decode('utf-8')
        r = native('c18_alias_tokens', {'value': val})
        if 'panic' in r:
            return {'reproduced': v['kind'] == 'panic', 'native': r}
        return _confirm_alias(val, r.get('tokens'))
    if ob.startswith('A3'):
        return _confirm_alias_resolve(inp, native, ob)
    return {'reproduced': False}


def _confirm_alias(val, gitai_tokens):
    """ask the real git how it splits the alias value"""
    if val.startswith('!'):
        return {'reproduced': gitai_tokens is not None}
    tmp = tempfile.mkdtemp(prefix='valias')
    try:
        # recorder for whatever first token git computes: try the python reference for the name
        ref = _py_split(val)
        rec = os.path.join(tmp, 'bin')
        os.makedirs(rec)
        first = ref[0] if ref else None
        if ref is not None:
            if not first or '/' in first or first in builtins() or first.startswith('-') or '\0' in first:
                return {'reproduced': False, 'note': 'first token %r cannot be observed through an external command' % (first,)}
            script = os.path.join(rec, 'git-' + first)
            with open(script, 'w') as f:
                f.write('#!/usr/bin/env python3\nimport sys, json\nprint("ARGS=" + json.dumps(sys.argv[1:]))\n')
            os.chmod(script, 0o755)
        rc, out, errt = _run_git(['-c', 'alias.vxq=' + val, 'vxq'], {'PATH': rec + ':' + os.environ.get('PATH', '')}, cwd=tmp)
        git_tokens = None
        for line in out.splitlines():
            if line.startswith('ARGS='):
                git_tokens = [first] + json.loads(line[5:])
        if git_tokens is None:
            # git refused the alias (bad alias string / empty alias ...)
            return {'reproduced': gitai_tokens is not None, 'git': 'rejected: ' + errt[:200], 'git_ai': gitai_tokens}
        return {'reproduced': gitai_tokens != git_tokens, 'git': git_tokens, 'git_ai': gitai_tokens}
    finally:
        subprocess.call(['rm', '-rf', tmp])


def _py_split(val):
    bs = val.encode('utf-8')
    toks = [bytearray()]
    quoted = 0
    src = 0
    n = len(bs)
    while src < n:
        c = bs[src]
        if not quoted and c in GIT_SPACE:
            src += 1
            while src < n and bs[src] in GIT_SPACE:
                src += 1
            toks.append(bytearray())
        elif not quoted and c in (39, 34):
            quoted = c
            src += 1
        elif quoted and c == quoted:
            quoted = 0
            src += 1
        else:
            if c == 92 and quoted != 39:
                src += 1
                if src >= n:
                    return None
                c = bs[src]
            toks[-1].append(c)
            src += 1
    if quoted:
        return None
    return [t.decode('utf-8', 'replace') for t in toks]


def _confirm_alias_resolve(inp, native, obligation='A3-same-expansion'):
    """real git with the alias table: which command + args does it end up running,
    for the user's argv and for the argv git-ai passes"""
    r = native('c18_alias_resolve', inp)
    if 'panic' in r:
        return {'reproduced': True, 'native': r}
    passed = r['passed']
    tmp = tempfile.mkdtemp(prefix='vres')
    try:
        subprocess.run(['git', 'init', '-q', tmp], stdout=subprocess.PIPE, stderr=subprocess.PIPE)
        cfg = []
        for k, val in inp['aliases']:
            cfg += ['-c', 'alias.%s=%s' % (k, val)]
        env = {'GIT_TRACE': '1'}

        def run(argv):
            rc, out, errt = _run_git(cfg + argv, env, cwd=tmp)
            # the trace lines name the built-in / external finally executed
            ran = [l.split('trace: ', 1)[1] for l in errt.splitlines() if 'trace: built-in:' in l or 'trace: exec:' in l or 'trace: run_command' in l]
            return rc, ran[-1:] if ran else errt[-200:]
        a = run(inp['argv'])
        b = run(passed)
        if obligation == 'A3-hooks-follow-gits-expansion':
            # which built-in did the real git end up running for the user's argv?
            ran = None
            for l in (a[1] if isinstance(a[1], list) else []):
                if l.startswith('built-in: git '):
                    rest = l[len('built-in: git '):].split()
                    ran = rest[0] if rest else None
            return {'reproduced': ran is not None and r.get('hook_command') != ran, 'git_ran': ran, 'hook_command': r.get('hook_command'), 'passed': passed}
        return {'reproduced': a != b, 'user': a, 'through_git_ai': b, 'passed': passed}
    finally:
        subprocess.call(['rm', '-rf', tmp])


def replay_priority(v):
    """prefer counterexamples real git can show us (first alias token observable as an external command)"""
    if v['obligation'].startswith('A2'):
        val = bytes_of_json(v['inputs']['value'])
        return 0 if val.startswith(b'zq') else (1 if val[:1] not in (b' ', b'\t', b'!', b'') else 2)
    return 0
