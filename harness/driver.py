"""Check driver: MIR regeneration, parallel shape exploration, native replay,
known-finding handling, evidence."""
import hashlib
import importlib
import json
import multiprocessing as mp
import os
import random
import subprocess
import sys
import time
import traceback

VERIF = os.path.dirname(os.path.dirname(os.path.abspath(__file__)))
REPO = os.environ.get('VERIF_REPO', '/repo')
CACHE = os.path.join(VERIF, '.cache')
# Alternate root (used only to try seeded changes in a scratch worktree without touching /repo): all
# build products and evidence of such a run live under .cache/alt/<key>/ ; the registered commands never set it.
ALT = os.path.realpath(REPO) != '/repo'
if ALT:
    CACHE = os.path.join(CACHE, 'alt', hashlib.sha1(os.path.realpath(REPO).encode()).hexdigest()[:10])
EVID = os.environ.get('VERIF_EVIDENCE') or (os.path.join(CACHE, 'evidence') if ALT else os.path.join(VERIF, 'evidence'))


def crate_dir(name):
    """/verif/<name> for /repo; for an alternate root a generated twin whose path dependency points there"""
    base = os.path.join(VERIF, name)
    if not ALT:
        return base
    d = os.path.join(CACHE, name)
    os.makedirs(d, exist_ok=True)
    toml = open(os.path.join(base, 'Cargo.toml')).read().replace('path = "/repo"', 'path = "%s"' % os.path.realpath(REPO))
    with open(os.path.join(d, 'Cargo.toml'), 'w') as f:
        f.write(toml)
    if not os.path.islink(os.path.join(d, 'src')):
        os.symlink(os.path.join(base, 'src'), os.path.join(d, 'src'))
    return d
sys.path.insert(0, VERIF)


# ---------------------------------------------------------------------------
# encoding regeneration

def tree_hash():
    h = hashlib.sha256()
    paths = []
    for dp, dn, fn in os.walk(os.path.join(REPO, 'src')):
        dn.sort()
        for f in sorted(fn):
            paths.append(os.path.join(dp, f))
    paths += [os.path.join(REPO, 'Cargo.toml'), os.path.join(REPO, 'Cargo.lock')]
    for p in paths:
        try:
            with open(p, 'rb') as f:
                data = f.read()
        except OSError:
            continue
        h.update(os.path.relpath(p, REPO).encode())
        h.update(b'\0')
        h.update(hashlib.sha256(data).digest())
    return h.hexdigest()[:20]


def ensure_mir(log=sys.stderr):
    """MIR dump of /repo's current working tree (lib, default features)."""
    th = tree_hash()
    d = os.path.join(CACHE, 'mir')
    os.makedirs(d, exist_ok=True)
    out = os.path.join(d, th + '.mir')
    if os.path.exists(out) and os.path.getsize(out) > 1000:
        return out, th, 0.0
    lock = os.path.join(d, 'lock')
    import fcntl
    with open(lock, 'w') as lf:
        fcntl.flock(lf, fcntl.LOCK_EX)
        if os.path.exists(out) and os.path.getsize(out) > 1000:
            return out, th, 0.0
        t = time.time()
        env = dict(os.environ)
        env.update({'RUSTC_WRAPPER': os.path.join(VERIF, 'tools', 'rustc-wrap.sh'),
                    'CARGO_NET_OFFLINE': 'true',
                    'CARGO_TARGET_DIR': os.path.join(CACHE, 'mir-target')})
        env.pop('RUSTFLAGS', None)
        # touching is unnecessary: -Zunpretty output is produced whenever rustc runs, and the
        # fingerprint changes with the source; force a re-run by removing the lib fingerprint
        fp = os.path.join(CACHE, 'mir-target', 'debug', '.fingerprint')
        if os.path.isdir(fp):
            for n in os.listdir(fp):
                if n.startswith('git-ai-'):
                    subprocess.call(['rm', '-rf', os.path.join(fp, n)])
        tmp = out + '.tmp.%d' % os.getpid()
        with open(tmp, 'wb') as fo, open(out + '.err', 'wb') as fe:
            rc = subprocess.call(['cargo', '+nightly', 'rustc', '--offline', '--lib', '--', '-Zunpretty=mir',
                                  '-Ztrim-diagnostic-paths=no', '-C', 'debug-assertions=off', '-C', 'overflow-checks=on'],
                                 cwd=REPO, env=env, stdout=fo, stderr=fe)
        if rc != 0 or os.path.getsize(tmp) < 1000:
            err = open(out + '.err', 'rb').read().decode('utf-8', 'replace')[-3000:]
            os.unlink(tmp)
            raise RuntimeError('MIR dump failed (rc=%d):\n%s' % (rc, err))
        os.rename(tmp, out)
        # keep the cache small
        files = sorted((os.path.getmtime(os.path.join(d, f)), f) for f in os.listdir(d) if f.endswith('.mir'))
        for _, f in files[:-3]:
            os.unlink(os.path.join(d, f))
        for f in os.listdir(d):
            if f.endswith('.mir.err') and not os.path.exists(os.path.join(d, f[:-4])):
                os.unlink(os.path.join(d, f))
        return out, th, time.time() - t


# ---------------------------------------------------------------------------
# workers

_W = {}


def _worker_init(mir_path, modname, tier, seed):
    from mirsym import interp, models
    Mx = interp.Machine(mir_path, REPO)
    models.install(Mx)
    mod = importlib.import_module(modname)
    if hasattr(mod, 'install'):
        mod.install(Mx)
    env_n = os.environ.get('VERIF_CVC5_SAMPLE')
    interp.CROSS['left'] = int(env_n) if env_n not in (None, '') else (6 if tier == 'quick' else 40)
    _W['M'] = Mx
    _W['mod'] = mod
    _W['tier'] = tier
    _W['seed'] = seed


def _run_task(task):
    from mirsym import interp
    from mirsym.values import Panic, Unsupported
    from harness.lib import H
    Mx = _W['M']
    mod = _W['mod']
    name, shape = task
    fn = mod.OBLIGATIONS[name]
    res = {'task': [name, shape], 'paths': 0, 'steps': 0, 'queries': 0, 'solver_s': 0.0, 'obligations': 0,
           'discharged': 0, 'violations': [], 'samples': [], 'error': None, 'outcomes': {}, 'wall_s': 0.0,
           'reached': 0, 'covers': {}}
    t0 = time.time()
    cfg = getattr(mod, 'CFG', {})
    # per-query solver budget: the thorough tier allows four times as long (its shapes are larger and it is usually
    # run next to other work); a query that still comes back unknown makes the run inconclusive, never a pass
    tmo = int(os.environ.get('VERIF_SOLVER_TIMEOUT_MS', '0') or 0) or cfg.get('solver_timeout_ms', 120000) * (4 if _W.get('tier') == 'thorough' else 1)
    ex = interp.Explorer(Mx, cfg, seed=_W['seed'], timeout_ms=tmo)
    rnd = random.Random(_W['seed'] * 7919 + hash(json.dumps(task, sort_keys=True, default=str)) % 100003)
    sample_every = [1]
    per_class = {}

    def body(P):
        h = H(P, shape)
        P.state['H'] = h
        fn(h, shape)
        return h

    def on_path(P, out):
        h = P.state.get('H')
        if h is None:
            return
        if out[0] != 'ok':
            # an obligation function lets a panic escape only when panics are outside its claim
            h.escaped = out
        res['obligations'] += h.obligations
        res['discharged'] += h.discharged
        if h.obligations:
            res['reached'] += 1
        for k, n in getattr(h, 'covers', {}).items():
            res['covers'][k] = res['covers'].get(k, 0) + n
        for v in h.violations:
            # keep a bounded number per class, so that recorded findings cannot crowd out a new one
            key = (v.obligation, v.known, v.kind)
            n = per_class.get(key, 0)
            if n < 12:
                per_class[key] = n + 1
                res['violations'].append(v.to_json())
        # witnesses of paths on which every obligation was discharged (they are replayed natively afterwards)
        if h.sample is not None and not h.violations and len(res['samples']) < 3 and rnd.random() < 1.0 / sample_every[0]:
            res['samples'].append({'inputs': h.sample, 'obligations': list(getattr(h, 'seen', []))[:8], 'shape': h.shape})
            sample_every[0] *= 4

    try:
        ex.run(body, on_path, max_paths=cfg.get('max_paths', 400000))
    except (Unsupported, interp.Inconclusive, interp.M.MirError) as e:
        res['error'] = '%s: %s' % (type(e).__name__, e)
    except Exception as e:   # interpreter bug -> inconclusive, never a pass
        res['error'] = 'internal %s: %s\n%s' % (type(e).__name__, e, traceback.format_exc()[-1500:])
    res['paths'] = ex.paths
    res['steps'] = ex.steps
    res['queries'] = ex.queries
    res['solver_s'] = ex.solver_s
    res['outcomes'] = ex.outcomes
    res['wall_s'] = time.time() - t0
    res['functions'] = dict(Mx.functions_encoded)
    res['cross'] = {k: interp.CROSS[k] for k in ('asked', 'agreed', 'skipped', 'secs')}
    interp.CROSS.update({'asked': 0, 'agreed': 0, 'skipped': 0, 'secs': 0.0})
    res['stubs'] = sorted(Mx.stubs_used)
    return res


# ---------------------------------------------------------------------------
# native replay

def replay_binary(profile='dev', log=sys.stderr):
    """build (if needed) and return the path of the native replay binary"""
    crate = crate_dir('replay')
    tdir = os.path.join(CACHE, 'replay-target')
    env = dict(os.environ)
    env.update({'CARGO_NET_OFFLINE': 'true', 'CARGO_TARGET_DIR': tdir})
    lockf = os.path.join(crate, 'Cargo.lock')
    src_lock = os.path.join(REPO, 'Cargo.lock')
    want = open(src_lock).read()
    # the replay crate adds itself to the lock file; cargo does that offline
    if not os.path.exists(lockf):
        with open(lockf, 'w') as f:
            f.write(want)
    args = ['cargo', 'build', '--offline', '-q']
    if profile == 'release':
        args.append('--release')
    import fcntl
    os.makedirs(tdir, exist_ok=True)
    with open(os.path.join(tdir, 'build.lock'), 'w') as lf:
        fcntl.flock(lf, fcntl.LOCK_EX)
        p = subprocess.run(args, cwd=crate, env=env, stdout=subprocess.PIPE, stderr=subprocess.PIPE)
    if p.returncode != 0:
        raise RuntimeError('replay crate build failed:\n' + p.stderr.decode('utf-8', 'replace')[-4000:])
    return os.path.join(tdir, 'release' if profile == 'release' else 'debug', 'vreplay')


def native(kind, payload, profile='dev', timeout=120):
    """run the real code on concrete inputs. -> dict (parsed JSON) ; {'panic': msg} on panic"""
    exe = replay_binary(profile)
    p = subprocess.run([exe, kind], input=json.dumps(payload).encode(), stdout=subprocess.PIPE,
                       stderr=subprocess.PIPE, timeout=timeout)
    out = p.stdout.decode('utf-8', 'replace').strip()
    if p.returncode == 101 or (p.returncode != 0 and not out):
        return {'panic': p.stderr.decode('utf-8', 'replace')[-600:], 'rc': p.returncode}
    try:
        # split on LF only: str.splitlines() also splits on U+0085 / U+2028, which occur inside replayed inputs
        return json.loads(out.split('\n')[-1])
    except Exception:
        return {'unparsed': out[-600:], 'stderr': p.stderr.decode('utf-8', 'replace')[-600:], 'rc': p.returncode}


# ---------------------------------------------------------------------------

def run_kani(harnesses, timeout=900):
    """engine B: cargo kani on the external crate /verif/kani (path dep on /repo).
    -> {harness: 'SUCCESSFUL' | 'FAILED' | 'ERROR'} and the wall time"""
    import re
    t0 = time.time()
    env = dict(os.environ)
    env.update({'RUSTC_WRAPPER': os.path.join(VERIF, 'tools', 'rustc-wrap.sh'), 'CARGO_NET_OFFLINE': 'true'})
    crate = crate_dir('kani')
    lockf = os.path.join(crate, 'Cargo.lock')
    if not os.path.exists(lockf):
        with open(lockf, 'w') as f:
            f.write(open(os.path.join(REPO, 'Cargo.lock')).read())
    args = ['cargo', 'kani', '--target-dir', os.path.join(CACHE, 'kani-target'), '--output-format', 'terse']
    for hname in harnesses:
        args += ['--harness', hname]
    import fcntl
    os.makedirs(os.path.join(CACHE, 'kani-target'), exist_ok=True)
    with open(os.path.join(CACHE, 'kani-target', 'run.lock'), 'w') as lf:
        fcntl.flock(lf, fcntl.LOCK_EX)
        try:
            p = subprocess.run(args, cwd=crate, env=env, stdout=subprocess.PIPE, stderr=subprocess.STDOUT, timeout=timeout)
            out = p.stdout.decode('utf-8', 'replace')
        except subprocess.TimeoutExpired:
            return {h: 'ERROR' for h in harnesses}, time.time() - t0, 'timeout'
    res = {}
    cur = None
    for line in out.splitlines():
        m = re.match(r'Checking harness (?:\w+::)*(\w+)\.\.\.', line.strip())
        if m:
            cur = m.group(1)
        m = re.match(r'VERIFICATION:- (\w+)', line.strip())
        if m and cur:
            res[cur] = m.group(1)
            cur = None
    for hname in harnesses:
        res.setdefault(hname, 'ERROR')
    return res, time.time() - t0, out[-1500:]


def load_known(pid):
    out = []
    p = os.path.join(VERIF, 'known_findings.jsonl')
    if os.path.exists(p):
        for line in open(p):
            line = line.strip()
            if not line or line.startswith('#'):
                continue
            d = json.loads(line)
            if d.get('property') == pid and d.get('status', 'known') == 'known':
                out.append(d)
    return out


def main(argv=None):
    argv = argv if argv is not None else sys.argv[1:]
    if not argv:
        print('usage: check <ID> [--tier quick|thorough] [--replay FILE] [--workers N] [--only OBLIGATION]')
        return 2
    pid = argv[0]
    tier = os.environ.get('VERIF_TIER', 'quick')
    workers = int(os.environ.get('VERIF_WORKERS', '0')) or min(16, os.cpu_count() or 4)
    replay_file = None
    only = None
    i = 1
    while i < len(argv):
        if argv[i] == '--tier':
            tier = argv[i + 1]
            i += 2
        elif argv[i] == '--replay':
            replay_file = argv[i + 1]
            i += 2
        elif argv[i] == '--workers':
            workers = int(argv[i + 1])
            i += 2
        elif argv[i] == '--only':
            only = argv[i + 1]
            i += 2
        else:
            print('unknown argument', argv[i])
            return 2
    seed = int(os.environ.get('VERIF_SEED', '0') or 0)
    modname = 'harness.' + pid.lower()
    t0 = time.time()
    mod = importlib.import_module(modname)
    if replay_file:
        v = json.load(open(replay_file))
        r = mod.replay(v, native)
        print(json.dumps(r, indent=1))
        return 1 if r.get('reproduced') else 0
    try:
        mir_path, th, mir_s = ensure_mir()
    except Exception as e:
        print('INCONCLUSIVE property=%s cannot regenerate encoding: %s' % (pid, e))
        return 2
    tasks = mod.plan(tier, seed)
    if only:
        tasks = [t for t in tasks if t[0] == only]
    rnd = random.Random(seed)
    rnd.shuffle(tasks)
    if hasattr(mod, 'task_weight'):
        # longest shapes first (scheduling only: every shape of the plan is still run)
        tasks.sort(key=lambda t: -mod.task_weight(t))
    results = []
    ctx = mp.get_context('fork')
    budget = float(os.environ.get('VERIF_BUDGET_S', '0') or 0) or (900.0 if tier == 'quick' else 6 * 3600.0)
    deadline = t0 + budget
    timed_out = False
    with ctx.Pool(min(workers, max(1, len(tasks))), initializer=_worker_init, initargs=(mir_path, modname, tier, seed)) as pool:
        it = pool.imap_unordered(_run_task, tasks, chunksize=1)
        while len(results) < len(tasks):
            try:
                r = it.next(timeout=max(1.0, deadline - time.time()))
            except mp.TimeoutError:
                timed_out = True
                pool.terminate()
                break
            except StopIteration:
                break
            results.append(r)
            if os.environ.get('VERIF_VERBOSE'):
                print('  [%6.1fs] %s paths=%d obl=%d/%d q=%d %.1fs %s' % (time.time() - t0, json.dumps(r['task'])[:150], r['paths'], r['discharged'],
                      r['obligations'], r['queries'], r['wall_s'], ('ERR ' + r['error'][:300]) if r['error'] else ''), file=sys.stderr, flush=True)
    return finish(pid, mod, tier, seed, results, t0, th, mir_s, tasks, timed_out)


def finish(pid, mod, tier, seed, results, t0, th, mir_s, tasks, timed_out=False):
    errors = [r for r in results if r['error']]
    vacuous = [r for r in results if not r['error'] and r['reached'] == 0]
    agg = {k: sum(r[k] for r in results) for k in ('paths', 'steps', 'queries', 'solver_s', 'obligations', 'discharged')}
    functions = {}
    stubs = set()
    for r in results:
        functions.update(r.get('functions', {}))
        stubs.update(r.get('stubs', []))
    known = load_known(pid)
    known_ids = {k['id'] for k in known}
    # --- counterexamples: replay natively before believing them
    viol = []
    for r in results:
        viol.extend(r['violations'])
    # dedupe by (obligation, known, detail class): replay a few per class
    classes = {}
    for v in viol:
        key = (v['obligation'], v['known'], v['kind'])
        classes.setdefault(key, []).append(v)
    status = 0
    lines = []
    replayed = 0
    reproduced_new = []
    known_seen = {}
    mismatches = []
    os.makedirs(os.path.join(EVID, 'replay'), exist_ok=True)
    for key, vs in sorted(classes.items(), key=lambda kv: str(kv[0])):
        tried = 0
        hit = None
        order = list(vs)
        random.Random(seed).shuffle(order)
        if hasattr(mod, 'replay_priority'):
            order.sort(key=mod.replay_priority)
        for v in order[:10]:
            tried += 1
            try:
                rr = mod.replay(v, native)
            except Exception as e:
                rr = {'reproduced': False, 'error': '%s: %s' % (type(e).__name__, e)}
            replayed += 1
            if rr.get('reproduced'):
                hit = (v, rr)
                break
            mismatches.append({'violation': v, 'native': rr})
        if hit is None:
            continue
        v, rr = hit
        if v['known'] is not None and v['known'] in known_ids:
            known_seen[v['known']] = (v, rr)
        else:
            reproduced_new.append((v, rr))
    for kid, (v, rr) in sorted(known_seen.items()):
        kf = [k for k in known if k['id'] == kid][0]
        lines.append('KNOWN-FINDING: property=%s %s [%s]' % (pid, kf['what'], kid))
    for n, (v, rr) in enumerate(reproduced_new):
        path = os.path.join(EVID, 'replay', '%s-%d.json' % (pid, n))
        with open(path, 'w') as f:
            json.dump(dict(v, native=rr), f, indent=1)
        lines.append('VIOLATION property=%s replay=%s' % (pid, path))
        lines.append('  obligation=%s detail=%s inputs=%s' % (v['obligation'], v['detail'], json.dumps(v['inputs'])[:400]))
        status = 1
    # model/native disagreement on a class where nothing reproduced => the encoding is wrong
    unre = [k for k, vs in classes.items() if not any((k[1] in known_seen and k[1] is not None) or any(x[0] is v for x in reproduced_new for v in vs) for _ in [0])]
    inconclusive = []
    for key, vs in classes.items():
        rep = (key[1] is not None and key[1] in known_seen) or any(x[0] in vs for x in reproduced_new)
        if not rep:
            inconclusive.append('counterexample for %s does not reproduce natively (model/stub wrong?)' % (key,))
    if timed_out:
        inconclusive.append('time budget exceeded: %d of %d shapes were not finished (their inputs are not covered by this run)' % (len(tasks) - len(results), len(tasks)))
    for r in errors:
        inconclusive.append('task %s: %s' % (r['task'], r['error'][:600]))
    for r in vacuous:
        inconclusive.append('task %s reached no obligation (vacuous)' % (r['task'],))
    cross = {'asked': 0, 'agreed': 0, 'skipped': 0, 'secs': 0.0}
    for r in results:
        for k in cross:
            cross[k] += (r.get('cross') or {}).get(k, 0)
    covers = {}
    for r in results:
        for k, n in r.get('covers', {}).items():
            covers[k] = covers.get(k, 0) + n
    if not timed_out and not errors:
        for k in getattr(mod, 'MUST_COVER', []):
            if not covers.get(k):
                inconclusive.append('reachability witness %s was never reached: the run decided nothing about the obligations behind it' % k)
    kani_info = None
    if getattr(mod, 'KANI', None):
        kres, ksecs, ktail = run_kani(mod.KANI)
        kani_info = {'harnesses': kres, 'wall_s': round(ksecs, 1)}
        bad = [k for k, v in kres.items() if v != 'SUCCESSFUL']
        for k in bad:
            if kres[k] == 'FAILED' and not reproduced_new and not known_seen:
                inconclusive.append('engine B (Kani) harness %s FAILED but engine A reported no violation: engines disagree' % k)
            elif kres[k] == 'FAILED':
                lines.append('  engine B (Kani) harness %s also fails' % k)
            else:
                inconclusive.append('engine B (Kani) harness %s did not complete: %s' % (k, ktail[-300:]))
    if hasattr(mod, 'extra_checks'):
        try:
            ex = mod.extra_checks(tier, seed, native)
            agg.setdefault('extra', ex)
            for msg in ex.get('inconclusive', []):
                inconclusive.append(msg)
            for line in ex.get('violations', []):
                lines.append(line)
                status = 1
            # recorded findings that a concrete history (not a solver counterexample) still shows
            for kid, rr in ex.get('known_seen', []):
                kf = [k for k in known if k['id'] == kid]
                if kf:
                    lines.append('KNOWN-FINDING: property=%s %s [%s]' % (pid, kf[0]['what'], kid))
                    known_seen.setdefault(kid, ({'obligation': 'extra', 'inputs': {}, 'known': kid, 'kind': 'property'}, rr))
                else:
                    path = os.path.join(EVID, 'replay', '%s-extra-%s.json' % (pid, kid))
                    os.makedirs(os.path.dirname(path), exist_ok=True)
                    with open(path, 'w') as f:
                        json.dump({'finding': kid, 'native': rr}, f, indent=1)
                    lines.append('VIOLATION property=%s replay=%s' % (pid, path))
                    status = 1
        except Exception as e:
            inconclusive.append('extra checks failed: %s: %s' % (type(e).__name__, e))
    if inconclusive and status == 0:
        status = 2
    wall = time.time() - t0
    # translator validation: witnesses of fully discharged paths are run through the real code; the native
    # oracle of every obligation evaluated on that path must agree (nothing fails)
    witness_validated = 0
    witness_disagreements = []
    if not os.environ.get('VERIF_NO_WITNESS_REPLAY') and hasattr(mod, 'replay'):
        pool = [(r['task'], s) for r in results for s in r['samples'][:1]]
        random.Random(seed + 17).shuffle(pool)
        for task, s_ in pool[:int(os.environ.get('VERIF_WITNESSES', '8'))]:
            for ob in [o for o in s_['obligations'] if 'witness' not in o][:3]:
                v = {'obligation': ob, 'detail': 'witness', 'inputs': s_['inputs'], 'shape': s_['shape'], 'known': None, 'kind': 'property'}
                try:
                    rr = mod.replay(v, native)
                except Exception as e:
                    rr = {'error': '%s: %s' % (type(e).__name__, e)}
                if not isinstance(rr, dict) or 'error' in rr or 'note' in rr:
                    continue
                if rr.get('reproduced'):
                    witness_disagreements.append({'task': task, 'obligation': ob, 'inputs': s_['inputs'], 'native': rr})
                else:
                    witness_validated += 1
    for wd in witness_disagreements[:3]:
        print('NOTE: model/native disagreement on a witness (obligation %s discharged by the model, native oracle fires): %s' % (
            wd['obligation'], json.dumps(wd['inputs'], default=str)[:300]), file=sys.stderr)
    samples = []
    for r in results:
        for s in r['samples']:
            if len(samples) < 8:
                samples.append({'obligation': r['task'][0], 'shape': r['task'][1], 'witness': s['inputs']})
    if not samples:
        samples = [{'obligation': r['task'][0], 'shape': r['task'][1]} for r in results[:3]]
    ev = {
        'property_id': pid, 'tier': tier if tier in ('quick', 'thorough') else 'quick', 'seed': seed,
        'level': 'model_checking',
        'coverage': {
            'states': int(agg['paths']), 'transitions': int(agg['steps']),
            'traces_validated_against_impl': int(agg.get('extra', {}).get('validated', 0)) + replayed + witness_validated,
            'witnesses_validated': witness_validated, 'witness_disagreements': witness_disagreements[:5],
            'samples': samples,
            'exhaustive': not inconclusive,
            'shapes': len(tasks), 'paths_reaching_obligation': sum(r['reached'] for r in results),
            'obligations': int(agg['obligations']), 'discharged': int(agg['discharged']),
            'queries': int(agg['queries']), 'solver_s': round(agg['solver_s'], 2),
            'functions_encoded': functions, 'stubs': sorted(stubs),
            'bounds': getattr(mod, 'BOUNDS', {}).get(tier, ''), 'outside_bounds': getattr(mod, 'OUTSIDE', ''),
            'engines': ['mirsym (MIR symbolic execution, z3 %s)' % _z3ver()] + (['kani/cbmc (external harness crate)'] if kani_info else []),
            'kani': kani_info,
            'mir_tree_hash': th, 'mir_dump_s': round(mir_s, 1),
            'known_findings_seen': sorted(known_seen), 'counterexamples_replayed': replayed,
            'counterexamples_not_reproduced': len(mismatches),
            'inconclusive': inconclusive[:10],
            'reachability_witnesses': covers,
            'second_solver': {'engine': 'cvc5 (SMT-LIB2 export of the z3 query)', 'queries_cross_checked': cross['asked'], 'agreed': cross['agreed'],
                              'no_answer': cross['skipped'], 'secs': round(cross['secs'], 1)},
            'extra': agg.get('extra'),
        },
        'assumptions': getattr(mod, 'ASSUMPTIONS', []),
        'wall_s': round(wall, 2),
        'violations': len(reproduced_new),
    }
    os.makedirs(EVID, exist_ok=True)
    with open(os.path.join(EVID, pid + '.json'), 'w') as f:
        json.dump(ev, f, indent=1, default=str)
    for l in lines:
        print(l)
    print('%s tier=%s shapes=%d paths=%d obligations=%d discharged=%d queries=%d solver=%.1fs wall=%.1fs status=%s' % (
        pid, tier, len(tasks), agg['paths'], agg['obligations'], agg['discharged'], agg['queries'], agg['solver_s'], wall,
        {0: 'HOLDS-WITHIN-BOUNDS', 1: 'VIOLATION', 2: 'INCONCLUSIVE'}[status]))
    for msg in inconclusive[:12]:
        print('INCONCLUSIVE:', msg)
    if mismatches and status == 2:
        p = os.path.join(EVID, 'replay', '%s-mismatch.json' % pid)
        with open(p, 'w') as f:
            json.dump(mismatches[:10], f, indent=1, default=str)
        print('  model/native mismatches dumped to', p)
    return status


def _z3ver():
    try:
        import z3
        return z3.get_version_string()
    except Exception:
        return '?'
