"""C20 — agent hook ingestion never fails the agent and never escapes the repository (kernels).

K1  the dispatcher.  Encoded from MIR: commands::git_ai_handlers::handle_checkpoint (argument scan, preset
    dispatch, single-repo / file-based repository detection, cross-repository routing) and
    git::repository::group_files_by_repository.  Environment: the preset parsers (each returns an arbitrary
    AgentRunResult or an arbitrary error), repository discovery over a model workspace layout,
    commands::checkpoint::run as a recorder returning Ok or Err, configuration answers.
    Obligations: on every path the command ends by returning or by exit status 0 — never a panic, never a
    non-zero status; every file list handed to checkpoint::run for repository R holds only files of the
    payload that lie in R (model layout), and files in no repository are handed to nobody.
K2  the path filter inside checkpoint::run.  Encoded from MIR: commands::checkpoint::run up to
    get_all_tracked_files (recorder), Repository::path_is_in_workdir, utils::normalize_to_posix over
    symbolic component sequences.  Obligation: every pathspec handed on is relative, and resolved
    lexically from the work tree root it stays inside the work tree.
The preset parsers themselves (serde_json over third-party schemas, transcript files, sqlite) are NOT
APPLICABLE to this family; the claim here is what happens with whatever they return.
"""
import itertools
import re
import z3
from harness.lib import *
from harness import c03

ID = 'C20'
GAH = 'commands::git_ai_handlers'
AP = 'commands::checkpoint_agent::agent_presets'
ARR = AP + '::AgentRunResult'
AGENT = 'authorship::working_log::AgentId'
KIND = 'authorship::working_log::CheckpointKind'
CFG = {'max_steps': 3000000, 'max_depth': 200}

PRESETS = ['claude', 'codex', 'gemini', 'continue-cli', 'cursor', 'github-copilot', 'amp', 'ai_tab', 'agent-v1', 'droid', 'opencode']

BOUNDS = {
    'quick': 'K1: every preset name x preset outcome {error, result}; result: kind in {Human, AiAgent, AiTab}, repo_working_dir absent / a repository / a non-repository workspace / a nested repository, 0-2 edited files drawn from the model layout {/ws/r1/a, /ws/r1/sub/b, /ws/r2/c, /ws/loose, /else/x, a, ../r2/c, /ws/r1/nested/n, /ws/r1/new, /ws/r2/newdir/y, /ws/r1/../r2/c, /ws/r1/sub/../../r2/new}; checkpoint::run succeeding or failing per repository; repository allowed or excluded by configuration; flags --show-working-log / --reset / --hook-input <value|stdin|missing>; K2: 1-2 paths out of 20 spellings (relative / absolute, with . and .., existing or not, inside / outside / prefix-lookalike /ws/r1x, the empty path, the root)',
    'thorough': 'same with 0-3 files and 1-3 paths',
}
OUTSIDE = 'the preset parsers (JSON schemas of eleven third-party agents, transcript and sqlite readers): arbitrary text through serde_json is not encodable here — an honest not-applicable for that half; checkpoint::run beyond the path filter (git status, blob snapshots, diffing); the working log staying readable is decided under C07; std::env::current_dir failing (deleted cwd) is environment, not payload'
ASSUMPTIONS = [
    'a preset returns an arbitrary AgentRunResult or an arbitrary error; repository discovery answers by longest-prefix match over the model layout; checkpoint::run is a recorder',
    'file system for K2: canonicalize succeeds exactly for the paths the model layout holds (no symlinks)',
]


class Done(Exception):
    pass


LAYOUT_REPOS = ['/ws/r1', '/ws/r2', '/ws/r1/nested', '/ws/r1x']      # r1x: a sibling whose name extends r1's


def repo_of(path):
    """model layout: repository (workdir) containing an absolute, lexically normalised path"""
    best = None
    for r in LAYOUT_REPOS:
        if path == r or path.startswith(r + '/'):
            if best is None or len(r) > len(best):
                best = r
    return best


def lexical(path):
    if path == '/lnk' or path.startswith('/lnk/'):
        path = '/ws' + path[4:]          # /lnk is a symbolic link to /ws in the model workspace
    out = []
    for c in path.split('/'):
        if c in ('', '.'):
            continue
        if c == '..':
            if out:
                out.pop()
            continue
        out.append(c)
    return '/' + '/'.join(out)


REPO = 'git::repository::Repository'
STORAGE = 'git::repo_storage::RepoStorage'


def mk_repo(M, workdir):
    from mirsym.models.paths import mk_pathbuf
    pb = lambda x: mk_pathbuf(list(x.encode()))
    st = mk_struct(M, STORAGE, ai_dir=pb(workdir + '/.git/ai'), repo_workdir=pb(workdir), working_logs=pb(workdir + '/.git/ai/working_logs'),
                   rewrite_log=pb(workdir + '/.git/ai/rewrite_log'), logs=pb(workdir + '/.git/ai/logs'))
    return mk_struct(M, REPO, global_args=VecV([pystring('-C'), pystring(workdir)]), git_dir=pb(workdir + '/.git'), git_common_dir=pb(workdir + '/.git'),
                     storage=st, pre_command_base_commit=none(), pre_command_refname=none(), pre_reset_target_commit=none(),
                     workdir=pb(workdir), canonical_workdir=pb(workdir))


def repo_dir(M, r):
    from mirsym.models.paths import path_str
    return bytes(concrete_bytes(list(path_str(field(M, tgt(r), REPO, 'workdir')).bytes()))).decode()


LAYOUT_FS = {'/ws/r1/.git': 'DIR', '/ws/r1/a': 'x', '/ws/r1/sub/b': 'x', '/ws/r2/.git': 'DIR', '/ws/r2/c': 'x', '/ws/loose': 'x',
             '/else/x': 'x', '/ws/r1/nested/.git': 'DIR', '/ws/r1/nested/n': 'x', '/ws/r1x/.git': 'DIR', '/ws/r1x/a': 'x'}


def install(M):
    from harness import c07
    c07.install(M)
    from mirsym.models.paths import mk_pathbuf

    def s(v):
        from mirsym.models.paths import path_str
        return bytes(concrete_bytes(list(path_str(v).bytes()))).decode()

    def current_dir(P, c, args, dt):
        return ok(mk_pathbuf(list(P.state['c20']['cwd'].encode())))

    def preset_run(P, c, args, dt):
        st = P.state['c20']
        P.events.append(('preset', type_base(c.selfty) if c.selfty else c.key))
        if st['preset_result'] is None:
            return err(Opaque('GitAiError', 'preset'))
        return ok(clone_val(P, st['preset_result']))

    def find_repository_in_path(P, c, args, dt):
        st = P.state['c20']
        p = lexical(s(args[0]))
        r = repo_of(p)
        P.events.append(('find_repo', p, r))
        if r is None or st.get('discovery_fails'):
            return err(Opaque('GitAiError', 'norepo'))
        return ok(mk_repo(P.M, r))

    def cfg_get(P, c, args, dt):
        return Ref(Cell(Agg('config::Config', [])))

    def allowed(P, c, args, dt):
        st = P.state['c20']
        r = args[1]
        r = tgt(r)
        w = repo_dir(P.M, r.f[0]) if r.var == 'Some' else None
        return Sc(w not in st.get('excluded', ()), 0)

    def config_get_str(P, c, args, dt):
        return ok(some(pystring('user')))

    def run(P, c, args, dt):
        st = P.state['c20']
        r = tgt(args[0])
        arr = args[6]
        rec = {'repo': repo_dir(P.M, r), 'kind': args[2].var, 'files': None, 'will': None, 'wd': None}
        if arr.var == 'Some':
            a = arr.f[0]
            ef = field(P.M, a, ARR, 'edited_filepaths')
            wf = field(P.M, a, ARR, 'will_edit_filepaths')
            wd = field(P.M, a, ARR, 'repo_working_dir')
            rec['files'] = [s(x) for x in ef.f[0].e] if ef.var == 'Some' else None
            rec['will'] = [s(x) for x in wf.f[0].e] if wf.var == 'Some' else None
            rec['wd'] = s(wd.f[0]) if wd.var == 'Some' else None
            rec['akind'] = field(P.M, a, ARR, 'checkpoint_kind').var
        P.events.append(('run', rec))
        if rec['repo'] in st.get('run_fails', ()):
            return err(Opaque('GitAiError', 'run'))
        return ok(tup(usize(1), usize(len(rec['files'] or rec['will'] or [])), usize(1)))

    def noop(P, c, args, dt):
        return unit()

    def all_files(P, c, args, dt):
        return VecV([pystring('a')])
    def head(P, c, args, dt):
        return err(Opaque('GitAiError', 'nohead'))

    def ignore_patterns(P, c, args, dt):
        return VecV([])

    def ignore_matcher(P, c, args, dt):
        return Opaque('IgnoreMatcher', None)

    def tracked_files(P, c, args, dt):
        lst = args[3]
        P.events.append(('pathspec', None if lst.var == 'None' else [s(x) for x in elems_of(lst.f[0])]))
        raise Done()
    def status_of_files(P, c, args, dt):
        files = args[2]
        P.events.append(('status', [s(k) for k, _ in tgt(files).ent]))
        return ok(VecV([k for k, _ in tgt(files).ent]))

    def should_ignore(P, c, args, dt):
        return FALSE
    c03.install(M)
    M.env['commands::checkpoint::get_status_of_files'] = status_of_files
    M.env['authorship::ignore::should_ignore_file_with_matcher'] = should_ignore
    M.env['git::repository::Repository::head'] = head
    M.env['authorship::ignore::effective_ignore_patterns'] = ignore_patterns
    M.env['authorship::ignore::build_ignore_matcher'] = ignore_matcher
    M.env['commands::checkpoint::get_all_tracked_files'] = tracked_files
    M.env['std::env::current_dir'] = current_dir
    M.env[AP + '::AgentCheckpointPreset::run'] = preset_run
    M.env['git::repository::find_repository_in_path'] = find_repository_in_path
    M.env['git::repository::Repository::config_get_str'] = config_get_str
    M.env['config::Config::get'] = cfg_get
    M.env['config::Config::is_allowed_repository'] = allowed
    M.env['commands::checkpoint::run'] = run
    M.env['commands::git_hook_handlers::ensure_repo_level_hooks_for_checkpoint'] = noop
    M.env[GAH + '::emit_no_repo_agent_metrics'] = noop
    M.env['observability::wrapper_performance_targets::log_performance_for_checkpoint'] = noop
    M.env[GAH + '::get_all_files_for_mock_ai'] = all_files
    M.env['observability::log_error'] = noop
    M.env['observability::spawn_background_flush'] = noop


FILES = ['/ws/r1x/a', '/lnk/r2/c', '/ws/r1/a', '/ws/r1/sub/b', '/ws/r2/c', '/ws/loose', '/else/x', 'a', '../r2/c', '/ws/r1/nested/n',
         '/ws/r1/new', '/ws/r2/newdir/y', '/ws/r1/../r2/c', '/ws/r1/sub/../../r2/new']


def plan(tier, seed):
    tasks = []
    for p in PRESETS:
        tasks.append(('dispatch', {'preset': p, 'outcome': 'error'}))
    nf = 2 if tier == 'quick' else 3
    for kind in ('Human', 'AiAgent', 'AiTab'):
        for wd, cwd in ((None, '/ws/r1'), (None, '/ws'), ('/ws/r1', '/ws'), ('/ws', '/ws/r1'), ('/ws/r1/nested', '/ws'), ('/nowhere', '/ws'), ('/ws/r2', '/ws/r1'), ('/lnk', '/ws/r1'), ('/lnk/r1', '/ws')):
            tasks.append(('dispatch', {'preset': 'claude', 'outcome': 'result', 'kind': kind, 'wd': wd, 'cwd': cwd, 'nfiles': nf}))
    for p in PRESETS[1:]:
        tasks.append(('dispatch', {'preset': p, 'outcome': 'result', 'kind': 'AiAgent', 'wd': '/ws', 'cwd': '/ws', 'nfiles': 2}))
        # the payload names the workspace; the process was started somewhere else
        tasks.append(('dispatch', {'preset': p, 'outcome': 'result', 'kind': 'AiAgent', 'wd': '/ws', 'cwd': '/else', 'nfiles': 1}))
    for t in range(len(HP_TEMPLATES)):
        tasks.append(('hook_path', {'t': t}))
    for n in (1, 2):
        tasks.append(('tracked', {'ndirty': n}))
    for kind in ('Human', 'AiAgent'):
        for n in ((1, 2) if tier == 'quick' else (1, 2, 3)):
            tasks.append(('filter', {'kind': kind, 'npaths': n}))
    return tasks


def ob_dispatch(h, shape):
    P = h.P
    M = P.M
    st = {'cwd': shape.get('cwd', '/ws/r1'), 'preset_result': None}
    P.state['c20'] = st
    P.state['fs'] = {k: (v if v == 'DIR' else pystring(v)) for k, v in LAYOUT_FS.items()}
    P.state['cwd'] = st['cwd']
    P.state['symlinks'] = {'/lnk': '/ws'}
    files = None
    if shape['outcome'] == 'result':
        n = h.choice(shape['nfiles'] + 1)
        files = [FILES[h.choice(len(FILES))] for _ in range(n)]
        none_list = n == 0 and h.choice(2) == 1
        kind = shape['kind']
        lst = none() if none_list else some(VecV([pystring(f) for f in files]))
        agent = mk_struct(M, AGENT, tool=pystring('t'), id=pystring('i'), model=pystring('m'))
        st['preset_result'] = mk_struct(M, ARR, agent_id=agent, agent_metadata=none(), checkpoint_kind=mk_enum(M, KIND, kind), transcript=none(),
                                        repo_working_dir=some(pystring(shape['wd'])) if shape['wd'] else none(),
                                        edited_filepaths=none() if kind == 'Human' else lst,
                                        will_edit_filepaths=lst if kind == 'Human' else none(), dirty_files=none())
        fe = h.choice(6)
        fails, ex = [(0, 0), (1, 0), (2, 0), (3, 0), (0, 1), (0, 2)][fe]
        st['run_fails'] = [r for i, r in enumerate(['/ws/r1', '/ws/r2']) if (fails >> i) & 1]
        st['excluded'] = [[], ['/ws/r1'], ['/ws/r2']][ex]
    flags = []
    if files is None or len(files) <= 1:
        flags = [[], ['--show-working-log'], ['--reset'], ['--hook-input', '{}'], ['--hook-input'], ['--hook-input', '  ']][h.choice(6)]
    argv = [shape['preset']] + flags
    h.inputs_struct = {'argv': argv, 'shape': dict(shape), 'files': files, 'run_fails': st.get('run_fails'), 'excluded': st.get('excluded')}
    av = VecV([pystring(a) for a in argv])
    exited = None
    try:
        P.call_named(GAH + '::handle_checkpoint', [SliceRef(av, 0, len(argv))])
    except ProcessExit as e:
        exited = e.code
    except Panic as e:
        h.panic('K1-no-panic', e.msg)
        return
    if exited is not None:
        h.require(isinstance(exited, Sc) and exited.concrete and exited.v == 0, 'K1-exit-status-zero', 'checkpoint ended with a non-zero exit status')
    runs = [e[1] for e in P.events if e[0] == 'run']
    reached_preset = any(e[0] == 'preset' for e in P.events)
    h.require(reached_preset or not runs, 'K1-no-checkpoint-without-the-preset', 'a checkpoint ran although the preset was never consulted')
    if files is not None and reached_preset:
        wd = shape['wd'] or st['cwd']
        primary = repo_of(lexical(wd))
        excluded = st['excluded']
        h.require(not any(r['repo'] in excluded for r in runs), 'K1-excluded-repository-untouched',
                  'a checkpoint ran in a repository the configuration excludes: %r' % [r['repo'] for r in runs])
        base = primary if primary else wd
        absf = [lexical(f if f.startswith('/') else base + '/' + f) for f in files]

        def home(a):
            r = repo_of(a.rsplit('/', 1)[0] or '/')
            if primary is None and r is not None and not (r == lexical(wd) or r.startswith(lexical(wd).rstrip('/') + '/')):
                return None      # above / outside the workspace boundary
            return r
        routed = runs[1:] if primary else runs
        if primary and runs:
            h.require(runs[0]['repo'] == primary, 'K1-primary-checkpoint-in-the-working-repository', 'first checkpoint ran in %s, working repository is %s' % (runs[0]['repo'], primary))
        for rec in routed:
            lst = rec['files'] if rec['files'] is not None else (rec['will'] or [])
            wrong = [f for f in lst if repo_of(lexical(f).rsplit('/', 1)[0] or '/') != rec['repo']]
            h.require(not wrong, 'K1-routed-files-lie-in-their-repository', 'files %r were handed to the checkpoint of %s' % (wrong, rec['repo']))
            h.require(rec['wd'] == rec['repo'], 'K1-routed-checkpoint-runs-in-its-repository', 'working dir %r for repository %s' % (rec['wd'], rec['repo']))
            h.require((rec['files'] is None) == (shape['kind'] == 'Human') and (rec['will'] is None) == (shape['kind'] != 'Human'),
                      'K1-routed-list-kind-preserved', 'edited / will-edit lists swapped for kind %s' % shape['kind'])
        if not primary or primary not in excluded:
            for f, a in zip(files, absf):
                R = home(a)
                if R is None or R in excluded:
                    continue
                if primary and R == primary:
                    continue     # a file of the working repository itself: left to that checkpoint's own filter (K2)
                # (a repository nested inside the working repository is a repository of its own: its files go there)
                got = any(r['repo'] == R and any(lexical(x if x.startswith('/') else base + '/' + x) == a for x in ((r['files'] if r['files'] is not None else r['will']) or [])) for r in runs)
                h.require(got, 'K1-file-reaches-its-repository', 'file %s lies in repository %s but no checkpoint of that repository received it; runs=%r exited=%r ev=%r' % (f, R, runs, exited, [e for e in P.events if e[0] != 'run']))
                h.cover('K1-file-routed')
    h.cover('K1-run-called', bool(runs))
    h.cover('K1-exit0', exited is not None)
    h.sample = h.witness()


K2_PATHS = ['a', 'sub/b', './a', 'sub/../a', '../r2/c', '/ws/r1/a', '/ws/r1/sub/b', '/ws/r2/c', '/ws/r1/../r2/c', '/ws/r1/../r1/a',
            '/ws/r1/new', 'new', '/ws/r1/newdir/../../r2/zz', '/ws/r1x/a', '/ws/r1/nested/n', '..', '/', '', 'sub/../../r1/a', '/ws/r1']


def os_resolve(fs, path):
    if path == '/lnk' or path.startswith('/lnk/'):
        path = '/ws' + path[4:]
    """where the OS would look (no symlinks); None if a `..` climbs out of something that does not exist"""
    out = []
    for c in path.split('/'):
        if c in ('', '.'):
            continue
        if c == '..':
            cur = '/' + '/'.join(out)
            if out and not any(k == cur or k.startswith(cur + '/') for k in fs):
                return None
            if out:
                out.pop()
            continue
        out.append(c)
    return '/' + '/'.join(out)


def ob_filter(h, shape):
    P = h.P
    M = P.M
    W = '/ws/r1'
    st = {'cwd': W, 'preset_result': None}
    P.state['c20'] = st
    P.state['fs'] = {k: (v if v == 'DIR' else pystring(v)) for k, v in LAYOUT_FS.items()}
    P.state['cwd'] = W
    P.state['wl'] = c03.mk_wl(M)
    n = shape['npaths']
    paths = [K2_PATHS[h.choice(len(K2_PATHS))] for _ in range(n)]
    kind = shape['kind']
    lst = some(VecV([pystring(f) for f in paths]))
    agent = mk_struct(M, AGENT, tool=pystring('t'), id=pystring('i'), model=pystring('m'))
    arr = mk_struct(M, ARR, agent_id=agent, agent_metadata=none(), checkpoint_kind=mk_enum(M, KIND, kind), transcript=none(),
                    repo_working_dir=some(pystring(W)), edited_filepaths=none() if kind == 'Human' else lst,
                    will_edit_filepaths=lst if kind == 'Human' else none(), dirty_files=none())
    h.inputs_struct = {'paths': paths, 'kind': kind}
    repo = mk_repo(M, W)
    try:
        P.run_fn(M.mir.get(M.find_fn('commands::checkpoint::run')),
                 [Ref(Cell(repo)), pystr('user'), mk_enum(M, KIND, kind), FALSE, FALSE, TRUE, some(arr), FALSE])
    except Done:
        pass
    except Panic as e:
        h.panic('K2-no-panic', e.msg)
        return
    ps = [e[1] for e in P.events if e[0] == 'pathspec']
    fs = LAYOUT_FS
    inside = []
    for p in paths:
        where = os_resolve(fs, p if p.startswith('/') else W + '/' + p)
        exists = where is not None and any(k == where or k.startswith(where + '/') for k in fs)
        if not exists:
            where = lexical(p if p.startswith('/') else W + '/' + p)     # a file about to be created: judged by its spelling
        inside.append(where == W or where.startswith(W + '/'))
    if not any(inside):
        # the agent reported files and none lies here: file discovery must not run unrestricted
        # (an absent pathspec means "every pending change in the work tree")
        h.require(not any(x is None for x in ps), 'K2-nothing-inside-means-nothing-scanned',
                  'every reported path %r lies outside %s, yet file discovery ran without a pathspec: every pending change in the work tree is credited to the reporter' % (paths, W))
        h.cover('K2-all-outside')
        h.sample = h.witness()
        return
    h.require(len(ps) == 1, 'K2-filter-reached', 'checkpoint::run did not reach file discovery')
    if len(ps) != 1:
        return
    got = ps[0] or []
    bad = [g for g in got if g.startswith('/') or not (lexical(W + '/' + g) == W or lexical(W + '/' + g).startswith(W + '/'))]
    h.require(not bad, 'K2-pathspecs-stay-inside-the-work-tree', 'pathspecs %r leave the work tree %s' % (bad, W))
    h.require(len(got) == sum(inside), 'K2-exactly-the-paths-inside-are-kept', 'paths %r (inside: %r) gave pathspecs %r' % (paths, inside, got))
    for p, ins in zip(paths, inside):
        if ins:
            want = lexical(os_resolve(fs, p if p.startswith('/') else W + '/' + p) or (p if p.startswith('/') else W + '/' + p))
            h.require(any(lexical(W + '/' + g) == want for g in got), 'K2-kept-pathspec-names-the-same-file', 'no pathspec in %r names %s' % (got, want))
    h.cover('K2-some-kept', bool(got))
    h.cover('K2-some-dropped', len(got) < len(paths))
    h.sample = h.witness()


PWL = 'git::repo_storage::PersistedWorkingLog'


def ob_tracked(h, shape):
    """K2b: the set of files one checkpoint works on — reported paths plus the agent's dirty (unsaved) buffers —
    through the real set_dirty_files and get_all_tracked_files: nothing outside the work tree is in it"""
    P = h.P
    M = P.M
    W = '/ws/r1'
    from mirsym.models.paths import mk_pathbuf
    pb = lambda x: mk_pathbuf(list(x.encode()))
    P.state['c20'] = {'cwd': W, 'preset_result': None}
    P.state['fs'] = {k: (v if v == 'DIR' else pystring(v)) for k, v in LAYOUT_FS.items()}
    P.state['fs']['/ws/r1/.git/ai/working_logs/head'] = 'DIR'
    P.state['cwd'] = W
    wl = mk_struct(M, PWL, dir=pb(W + '/.git/ai/working_logs/head'), base_commit=pystring('head'), repo_workdir=pb(W),
                   canonical_workdir=pb(W), dirty_files=none(), initial_file=pb(W + '/.git/ai/working_logs/head/INITIAL'))
    n = shape['ndirty']
    dirty = [K2_PATHS[h.choice(len(K2_PATHS))] for _ in range(n)]
    dirty = [d for d in dirty if d not in ('', '/', '..')]
    h.inputs_struct = {'dirty': dirty, 'edited': ['a']}
    dmap = MapV('hash', [[pystring(d), pystring('buffer text')] for d in dict.fromkeys(dirty)], 'map')
    repo = mk_repo(M, W)
    ev = VecV([pystring('a')])
    try:
        P.call_named(PWL + '::set_dirty_files', [Ref(Cell(wl)), some(dmap)])
        r = P.call_named('commands::checkpoint::get_all_tracked_files',
                         [Ref(Cell(repo)), pystr('head'), Ref(Cell(wl)), some(Ref(Cell(ev))), FALSE, Ref(Cell(Opaque('IgnoreMatcher', None)))])
    except Panic as e:
        h.panic('K2-tracked-no-panic', e.msg)
        return
    h.require(r.var == 'Ok', 'K2-tracked-ok', 'file discovery failed')
    if r.var != 'Ok':
        return
    got = [bytes(concrete_bytes(as_bytes(x))).decode() for x in r.f[0].e]
    outside = []
    for g in got:
        a = os_resolve(LAYOUT_FS, g if g.startswith('/') else W + '/' + g) or lexical(g if g.startswith('/') else W + '/' + g)
        if not (a == W or a.startswith(W + '/')):
            outside.append(g)
    h.require(not outside, 'K2-tracked-files-stay-inside-the-work-tree', 'files %r outside %s are part of this repository\'s checkpoint (dirty buffers %r)' % (outside, W, dirty))
    h.cover('K2-dirty-outside-dropped', any(not ((os_resolve(LAYOUT_FS, d if d.startswith('/') else W + '/' + d) or '').startswith(W)) for d in dirty))
    h.sample = h.witness()


HP_TEMPLATES = [
    # raw path templates: None = symbolic ASCII byte, concrete bytes otherwise (multi-byte characters first and last)
    [None], [None, None], [None, None, None], [0xE6, 0x97, 0xA5], [0xE6, 0x97, 0xA5, None], [None, 0xC3, 0xA9], [0xC3, 0xA9],
    list(b'file://') + [None, None], list(b'file://localhost') + [None], [32, None, 32], [None, 58, None], [92, 92, None],
]


def ob_hook_path(h, shape):
    """K3: how a path named by a VS Code hook payload is made absolute (GithubCopilotPreset::normalize_hook_path): never a
    panic, whatever short text the payload carries (one byte, a multi-byte first character, only blanks, a URI scheme);
    a relative path is joined to the payload's directory, an absolute one is kept"""
    P = h.P
    tpl = HP_TEMPLATES[shape['t']]
    raw = [h.byte_in('r%d' % i, [97, 47, 46, 58, 92, 32, 0x7e]) if x is None else x for i, x in enumerate(tpl)]
    h.inputs_struct = {'raw': ByteStr(raw), 'cwd': '/ws/r1'}
    try:
        r = P.call_named('commands::checkpoint_agent::agent_presets::GithubCopilotPreset::normalize_hook_path', [mk_str(list(raw)), pystr('/ws/r1')])
    except Panic as e:
        h.panic('K3-hook-path-no-panic', e.msg)
        return
    if r.var == 'None':
        blank = all_of([any_of([byte_eq(b, 32), byte_eq(b, 9), byte_eq(b, 10)]) if not isinstance(b, int) else (b in (32, 9, 10)) for b in raw])
        h.require(blank, 'K3-hook-path-dropped-only-when-blank', 'a non-blank path was dropped')
    else:
        out = list(as_bytes(r.f[0]))
        h.require(len(out) > 0, 'K3-hook-path-non-empty', 'an empty path was produced')
    h.sample = h.witness()


OBLIGATIONS = {'hook_path': ob_hook_path, 'dispatch': ob_dispatch, 'filter': ob_filter, 'tracked': ob_tracked}
MUST_COVER = ['K1-run-called', 'K1-exit0', 'K1-file-routed', 'K2-some-kept', 'K2-some-dropped', 'K2-all-outside', 'K2-dirty-outside-dropped']


# ---------------------------------------------------------------------------
# native replay: the real `git-ai checkpoint agent-v1 --hook-input <json>` on a scratch layout

def _scratch():
    import os
    import subprocess
    import tempfile
    root = tempfile.mkdtemp(prefix='vc20')
    env = dict(os.environ, HOME=root, GIT_CONFIG_NOSYSTEM='1', GIT_AUTHOR_NAME='v', GIT_AUTHOR_EMAIL='v@v', GIT_COMMITTER_NAME='v', GIT_COMMITTER_EMAIL='v@v')
    env.pop('GIT_DIR', None)
    for d in ('ws/r1/sub', 'ws/r2', 'ws/r1/nested', 'ws/r1x', 'else'):
        os.makedirs(os.path.join(root, d))
    for f in ('ws/r1/a', 'ws/r1/sub/b', 'ws/r2/c', 'ws/loose', 'else/x', 'ws/r1/nested/n', 'ws/r1x/a'):
        open(os.path.join(root, f), 'w').write('one\n')
    os.symlink(os.path.join(root, 'ws'), os.path.join(root, 'lnk'))
    for r in ('ws/r1/nested', 'ws/r1', 'ws/r2', 'ws/r1x'):
        d = os.path.join(root, r)
        subprocess.run(['git', 'init', '-q', '.'], cwd=d, env=env, check=True)
        subprocess.run(['git', 'config', 'user.name', 'v'], cwd=d, env=env, check=True)
        subprocess.run(['git', 'config', 'user.email', 'v@v'], cwd=d, env=env, check=True)
        subprocess.run(['git', 'add', '-A'], cwd=d, env=env, stdout=subprocess.PIPE, stderr=subprocess.PIPE)
        subprocess.run(['git', 'commit', '-q', '-m', 'base'], cwd=d, env=env, check=True)
    # the agent's edit
    for f in ('ws/r1/a', 'ws/r1/sub/b', 'ws/r2/c', 'ws/loose', 'else/x', 'ws/r1/nested/n', 'ws/r1x/a'):
        open(os.path.join(root, f), 'a').write('two by the agent\n')
    return root, env


def _recorded(root):
    """repository -> set of files named by its checkpoints"""
    import glob
    import json as js
    import os
    out = {}
    for r in ('/ws/r1', '/ws/r2', '/ws/r1/nested', '/ws/r1x'):
        names = set()
        readable = True
        for f in glob.glob(os.path.join(root + r, '.git', 'ai', 'working_logs', '*', 'checkpoints.jsonl')):
            for line in open(f):
                line = line.strip()
                if not line:
                    continue
                try:
                    ck = js.loads(line)
                except Exception:
                    readable = False
                    continue
                for e in ck.get('entries', []):
                    names.add(e.get('file'))
        out[r] = {'files': sorted(names), 'readable': readable}
    return out


def _native_run(native, root, env, cwd, kind, wd, files, dirty=None):
    import json as js
    import subprocess
    mp = lambda p: (root + p) if p.startswith('/') else p
    if kind == 'Human':
        payload = {'type': 'human', 'repo_working_dir': mp(wd), 'will_edit_filepaths': [mp(f) for f in files]}
    else:
        payload = {'type': 'ai_agent', 'repo_working_dir': mp(wd), 'edited_filepaths': [mp(f) for f in files],
                   'transcript': {'messages': []}, 'agent_name': 't', 'model': 'm', 'conversation_id': 'i'}
    if dirty:
        payload['dirty_files'] = {mp(d): 'buffer text of the agent\n' for d in dirty}
    exe = native.__globals__['replay_binary']()
    inp = {'cwd': mp(cwd), 'args': ['agent-v1', '--hook-input', js.dumps(payload)]}
    p = subprocess.run([exe, 'c20_checkpoint'], input=js.dumps(inp).encode(), stdout=subprocess.PIPE, stderr=subprocess.PIPE, env=env, timeout=120)
    return p.returncode, p.stderr.decode('utf-8', 'replace')


def _native_case(native, kind, cwd, wd, files, dirty=None, corrupt=()):
    import glob
    import os
    import subprocess
    root, env = _scratch()
    try:
        for r_ in corrupt:
            # a working log whose checkpoints cannot be read: the checkpoint of that repository fails
            head = subprocess.run(['git', 'rev-parse', 'HEAD'], cwd=root + r_, env=env, stdout=subprocess.PIPE).stdout.decode().strip()
            d_ = os.path.join(root + r_, '.git', 'ai', 'working_logs', head)
            os.makedirs(d_, exist_ok=True)
            open(os.path.join(d_, 'checkpoints.jsonl'), 'w').write('{"kind":"AiAgent","diff":"d","auth')
        rc, stderr = _native_run(native, root, env, cwd, kind, wd, files, dirty)
        stderr = stderr.replace(root, '')
        rec = _recorded(root)
        return {'rc': rc, 'recorded': rec, 'stderr': stderr[-1500:]}
    finally:
        subprocess.call(['rm', '-rf', root])


EXISTING = {'/ws/r1/a', '/ws/r1/sub/b', '/ws/r2/c', '/ws/loose', '/else/x', '/ws/r1/nested/n', '/ws/r1x/a'}


def _judge(kind, cwd, wd, files, r):
    """native oracles (what the property promises, observed on disk)"""
    bad = {}
    bad['K1-no-panic'] = r['rc'] == 101
    bad['K1-exit-status-zero'] = r['rc'] not in (0, 101)
    primary = repo_of(lexical(wd))
    base = primary if primary else wd
    wrong = []
    for R, info in r['recorded'].items():
        for f in info['files']:
            a = lexical(R + '/' + f)
            if repo_of(a.rsplit('/', 1)[0] or '/') != R:
                wrong.append((R, f))
    bad['K1-routed-files-lie-in-their-repository'] = bool(wrong)
    # nothing but reported files is recorded
    reported = set()
    for f in files:
        a = os_resolve(LAYOUT_FS, f if f.startswith('/') else base + '/' + f)
        if a is not None:
            reported.add(a)
    unreported = [(R, f) for R, info in r['recorded'].items() for f in info['files'] if lexical(R + '/' + f) not in reported]
    bad['K2-nothing-inside-means-nothing-scanned'] = bool(unreported) and bool(files)
    missing = []
    if kind != 'Human':      # a human checkpoint of unchanged-by-AI files records nothing by design
        for f in files:
            a = os_resolve(LAYOUT_FS, f if f.startswith('/') else base + '/' + f)
            if a is None or a not in EXISTING:
                continue
            R = repo_of(a.rsplit('/', 1)[0] or '/')
            if R is None:
                continue
            if primary is None and not (R == lexical(wd) or R.startswith(lexical(wd).rstrip('/') + '/')):
                continue
            if primary and R != primary and R.startswith(primary + '/'):
                continue
            rel = a[len(R) + 1:]
            if rel not in r['recorded'][R]['files']:
                missing.append((R, rel))
    bad['K1-file-reaches-its-repository'] = bool(missing)
    bad['K2-exactly-the-paths-inside-are-kept'] = bool(missing)
    bad['K2-kept-pathspec-names-the-same-file'] = bool(missing)
    bad['K2-pathspecs-stay-inside-the-work-tree'] = bool(missing) or 'Checkpoint failed' in r['stderr']
    return bad, {'wrong': wrong, 'missing': missing, 'unreported': unreported}


def replay(v, native):
    inp = v['inputs']
    ob = v['obligation']
    if 'raw' in inp:
        r = native('c20_hook_path', {'raw': inp['raw'], 'cwd': inp['cwd']})
        if 'panic' in r:
            return {'reproduced': v['kind'] == 'panic', 'native': r}
        if v['kind'] == 'panic':
            return {'reproduced': False, 'native': r}
        raw = bytes_of_json(inp['raw'])
        bad = {'K3-hook-path-dropped-only-when-blank': r.get('path') is None and raw.strip() != b'', 'K3-hook-path-non-empty': r.get('path') == ''}
        return {'reproduced': bool(bad.get(ob)), 'native': r}
    if 'dirty' in inp:
        r = _native_case(native, 'AiAgent', '/ws/r1', '/ws/r1', inp['edited'], inp['dirty'])
        if v['kind'] == 'panic':
            return {'reproduced': r['rc'] == 101, 'native': r}
        W = '/ws/r1'
        outside = []
        for f in r['recorded'][W]['files']:
            a = os_resolve(LAYOUT_FS, f if f.startswith('/') else W + '/' + f) or lexical(f if f.startswith('/') else W + '/' + f)
            # absolute names carry the scratch root
            if f.startswith('/') and '/ws/' in f:
                a = lexical(f[f.index('/ws/'):])
            elif f.startswith('/') and '/else/' in f:
                a = lexical(f[f.index('/else/'):])
            if not (a == W or a.startswith(W + '/')):
                outside.append(f)
        return {'reproduced': bool(outside) if ob == 'K2-tracked-files-stay-inside-the-work-tree' else False, 'native': r, 'outside': outside}
    if ob.startswith('K2'):
        kind, cwd, wd, files = inp['kind'], '/ws/r1', '/ws/r1', inp['paths']
        if '' in files:
            return {'reproduced': False, 'note': 'an empty path makes git reject the pathspec list: not judged natively'}
    else:
        sh = inp['shape']
        if inp.get('files') is None or inp.get('excluded') or sh.get('kind') == 'AiTab' or len(inp.get('argv', [])) > 1:
            return {'reproduced': False, 'note': 'preset errors, failing checkpoints, excluded repositories, AiTab results and flag combinations cannot be staged through the agent-v1 payload'}
        kind, cwd, wd, files = sh['kind'], sh['cwd'], sh['wd'] or sh['cwd'], inp['files']
    r = _native_case(native, kind, cwd, wd, files, corrupt=tuple(inp.get('run_fails') or ()) if not ob.startswith('K2') else ())
    bad, why = _judge(kind, cwd, wd, files, r)
    if inp.get('run_fails') and not ob.startswith('K2'):
        # with failing checkpoints only the way the command ends is judged
        bad = {k: b for k, b in bad.items() if k in ('K1-no-panic', 'K1-exit-status-zero')}
    if v['kind'] == 'panic':
        return {'reproduced': r['rc'] == 101, 'native': r}
    return {'reproduced': bool(bad.get(ob)), 'native': r, 'why': why}


NATIVE_CASES = [
    ('AiAgent', '/ws/r1', '/ws/r1', ['/ws/r1/a']),
    ('AiAgent', '/ws/r1', '/ws/r1', ['a', '../r2/c']),
    ('AiAgent', '/ws/r1', '/ws/r1', ['/ws/r1/a', '/ws/r2/c', '/ws/loose', '/else/x']),
    ('AiAgent', '/ws', '/ws', ['/ws/r1/a', '/ws/r2/c', '/ws/loose']),
    ('AiAgent', '/ws', '/ws', ['/ws/r1/nested/n', '/ws/r1/sub/b']),
    ('AiAgent', '/ws/r1', '/ws/r1', ['/ws/r1/../r2/c', 'sub/../a', '/ws/r1x/a', '..', '/']),
    ('AiAgent', '/ws', '/nowhere', ['/ws/r1/a']),
    ('AiAgent', '/ws/r1', '/ws/r1', ['/ws/r2/c']),
    ('AiAgent', '/ws', '/lnk', ['/lnk/r2/c', '/ws/r1/a']),
    ('AiAgent', '/ws/r1', '/ws/r1', ['../r2/c', '/else/x']),
    ('Human', '/ws', '/ws', ['/ws/r1/a', '/ws/r2/c']),
]


def extra_checks(tier, seed, native):
    """the native oracles of replay() are themselves checked against the real code on fixed payloads:
    on a tree where the property holds they must all be quiet (otherwise a replay verdict means nothing)"""
    out = {'validated': 0, 'inconclusive': [], 'violations': []}
    for kind, cwd, wd, files in NATIVE_CASES:
        r = _native_case(native, kind, cwd, wd, files)
        bad, why = _judge(kind, cwd, wd, files, r)
        flagged = sorted(k for k, b in bad.items() if b)
        if flagged:
            out['inconclusive'].append('native oracle %r fires on the fixed payload %r (cwd %s, wd %s): %r %s' % (flagged, files, cwd, wd, why, r['stderr'][-300:]))
        else:
            out['validated'] += 1
    return out


def replay_priority(v):
    """prefer counterexamples that can be staged through the agent-v1 payload and whose files exist"""
    inp = v['inputs']
    if 'paths' in inp:
        return (1 if '' in inp['paths'] else 0, len(inp['paths']))
    sh = inp.get('shape', {})
    files = inp.get('files') or []
    wd = sh.get('wd') or sh.get('cwd') or '/'
    base = repo_of(lexical(wd)) or wd
    unstageable = bool(inp.get('excluded') or sh.get('kind') in ('AiTab', 'Human') or len(inp.get('argv', [])) > 1 or inp.get('files') is None)
    missing = sum(1 for f in files if os_resolve(LAYOUT_FS, f if f.startswith('/') else base + '/' + f) not in EXISTING)
    return (1 if unstageable else 0, missing, len(files))
