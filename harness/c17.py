"""C17 — authorship logs survive a write/read round trip.

Encoded (from MIR of the working tree): AuthorshipLog::serialize_to_string,
deserialize_from_string, parse_attestation_section, parse_line_ranges,
format_line_ranges, needs_quoting, rebase_authorship::try_remap_base_commit_sha_field,
remap_note_content_for_target_commit.  serde_json is the codec model of
mirsym/models/json.py.
"""
import itertools
import z3
from harness.lib import *
from mirsym.models.fmt import int_digits
from mirsym.models.vecs import _insertion_sort
from mirsym.models.strs import WS_CP

ID = 'C17'
SER = 'authorship::authorship_log_serialization'
LOG = SER + '::AuthorshipLog'
META = SER + '::AuthorshipMetadata'
FILE = SER + '::FileAttestation'
ENTRY = SER + '::AttestationEntry'
LR = 'authorship::authorship_log::LineRange'

CFG = {'max_steps': 400000, 'solver_timeout_ms': 120000}

# path templates: None = fully symbolic byte in 0x01..0x7f except '\n'
E_ACUTE = [0xC3, 0xA9]
NBSP = [0xC2, 0xA0]
HAN = [0xE6, 0xBC, 0xA2]
TEMPLATES_QUICK = [
    [None], [None, None], [None, None, None],
    E_ACUTE + [None], [None] + E_ACUTE, [None] + NBSP, [ord('a')] + [0xC2, 0x85],
    list(b'---') + [None], [None] + list(b'---'),
]
# 'L' = a symbolic byte that may also be LF (git trees can hold such names)
TEMPLATES_LF = [['L', None], [None, 'L', None]]
TEMPLATES_THOROUGH = TEMPLATES_QUICK + [
    list(b'--') + [None, None], [34, None, 34],
    [None] * 4, HAN + [None, None], [32, 32, None, None], [None, None] + NBSP, [None, 0xE2, 0x80, 0x83],
    list(b'src/') + [None, None] + list(b'.rs'),
]

BOUNDS = {
    'quick': 'R1/R2: 1 file x 1 entry x {0,1,2} ranges, 1 file x 2 entries x 1 range, or 2 files x 1 entry x 1 range; path = one of %d templates with <=3 fully symbolic bytes (0x01-0x7f minus LF) plus concrete multi-byte scalars; hash = 2 symbolic printable non-space bytes; line numbers symbolic u32 <= 99 (one shape near u32::MAX); base sha 4 symbolic hex; R3: every text of <= 5 bytes over {\" SP - , 0 9 a LF CR TAB} and the same text followed by LF---LF{}; R4: remap of a 4-hex symbolic base with a symbolic hex target of length 0, 2, 4 or 8' % len(TEMPLATES_QUICK),
    'thorough': 'as quick with %d path templates (<=4 symbolic bytes), <=3 ranges per entry, 2 files with 2 + 1 entries, three digit-length classes per number; R3 texts <= 5 bytes as in quick (6 bytes was tried: more than 10 core-hours)' % len(TEMPLATES_THOROUGH),
}
OUTSIDE = 'paths containing NUL; hashes containing whitespace other than a space; prompt records are opaque to the codec model (serde_json is trusted for the JSON half); logs with more than 2 files / 3 ranges; line numbers with 3-9 digits'
ASSUMPTIONS = [
    'serde_json modelled as an injective codec: from_str(to_string_pretty(x)) == x, pretty output has no raw CR and only its own LFs, any other text is rejected',
    'symbolic bytes are ASCII; multi-byte characters occur as concrete bytes of the template',
    'a FileAttestation with zero entries carries no information and is excluded from the round-trip equality (the parser drops it by design)',
    'Drop glue has no observable effect',
]


def plan(tier, seed):
    tasks = []
    T = TEMPLATES_QUICK if tier == 'quick' else TEMPLATES_THOROUGH
    maxr = 2 if tier == 'quick' else 3
    for ti in range(len(T)):
        for ne in (1, 2):
            for nr in range(0, maxr + 1):
                if ne == 2 and (nr != 1 or (ti > 2 and tier == 'quick')):
                    continue
                tasks.append(('roundtrip', {'files': [{'t': ti, 'entries': [nr] * ne}], 'big': False}))
    tasks.append(('roundtrip', {'files': [{'t': 0, 'entries': [1 if tier == 'quick' else 2]}], 'big': True}))
    tasks.append(('roundtrip', {'files': [{'t': 0, 'entries': [1]}, {'t': 0, 'entries': [1]}], 'big': False}))
    tasks.append(('roundtrip', {'files': [{'t': 1, 'entries': [1]}, {'t': 3, 'entries': [1]}], 'big': False}))
    if tier != 'quick':
        # (2 files x 2 entries x 3 ranges and 1 entry x 3 near-u32::MAX ranges were tried: single queries beyond 8 minutes and
        # 6 GB per worker - outside the thorough tier; what it adds over quick is the larger template and range sets above)
        tasks.append(('roundtrip', {'files': [{'t': 1, 'entries': [1, 1]}, {'t': 2, 'entries': [1]}], 'big': False}))
    # what the line-based format cannot carry (recorded findings): a path with a line feed, a hash with a space
    for k in range(len(TEMPLATES_LF)):
        tasks.append(('roundtrip', {'files': [{'t': len(TEMPLATES_THOROUGH) + k, 'entries': [1]}], 'big': False}))
    tasks.append(('roundtrip', {'files': [{'t': 0, 'entries': [1]}], 'big': False, 'any_hash': True}))
    # every text of <= 5 bytes in both tiers: 6 bytes (10^6 texts, > 10 core-hours, one first-byte class alone > 2 h) was
    # tried and is outside the budget of the thorough tier
    n3 = 5
    for n in range(0, n3 + 1):
        # long texts are split by their first byte so that the pool can share them
        firsts = [None] if n < 6 else list(R3_ALPHABET)
        for fb in firsts:
            tasks.append(('parse_total', {'n': n, 'tail': False, 'first': fb}))
            if n <= n3 - 1:
                tasks.append(('parse_total', {'n': n, 'tail': True, 'first': fb}))
    for ti in (0, 1, 3):
        tasks.append(('remap', {'files': [{'t': ti, 'entries': [1]}], 'big': False, 'tlen': 8}))
    for tlen in (0, 2, 4, 8):
        tasks.append(('remap', {'files': [], 'big': False, 'tlen': tlen}))
    return tasks


# ---------------------------------------------------------------------------

def templates(tier_tasks_t):
    return TEMPLATES_THOROUGH


def build_log(h, shape):
    """symbolic AuthorshipLog + description of inputs"""
    P = h.P
    M = P.M
    files = []
    desc_files = []
    T = TEMPLATES_THOROUGH + TEMPLATES_LF
    for fi, fs in enumerate(shape['files']):
        tpl = T[fs['t']]
        pb = []
        for k, x in enumerate(tpl):
            if x is None:
                pb.append(h.byte('p%d_%d' % (fi, k), lo=1, hi=127, exclude=(10,)))
            elif x == 'L':
                # any byte a git tree entry can hold except NUL and `/`-structure: also LF
                pb.append(h.byte('p%d_%d' % (fi, k), lo=1, hi=127))
            else:
                pb.append(x)
        entries = []
        desc_entries = []
        for ei, nr in enumerate(fs['entries']):
            hb = [h.byte('h%d_%d_%d' % (fi, ei, k), lo=0x20 if shape.get('any_hash') else 0x21, hi=0x7e) for k in range(2)]
            ranges = []
            desc_ranges = []
            for ri in range(nr):
                kind = h.choice(2)

                def num(nm):
                    if shape.get('big'):
                        return h.u32_in(nm, [(0, 99), (4294967290, 4294967295)])
                    return h.u32(nm, 0, 99)
                if kind == 0:
                    a = num('n%d_%d_%d_a' % (fi, ei, ri))
                    ranges.append(mk_enum(M, LR, 'Single', a))
                    desc_ranges.append({'s': a})
                else:
                    a = num('n%d_%d_%d_a' % (fi, ei, ri))
                    b = num('n%d_%d_%d_b' % (fi, ei, ri))
                    ranges.append(mk_enum(M, LR, 'Range', a, b))
                    desc_ranges.append({'r': [a, b]})
            entries.append(mk_struct(M, ENTRY, hash=StringV(hb), line_ranges=VecV(ranges)))
            desc_entries.append({'hash': ByteStr(hb), 'ranges': desc_ranges})
        files.append(mk_struct(M, FILE, file_path=StringV(pb), entries=VecV(entries)))
        desc_files.append({'path': ByteStr(pb), 'entries': desc_entries})
    sha = h.hexbytes('sha', 4)
    meta = mk_struct(M, META, schema_version=pystring('authorship/3.0.0'),
                     git_ai_version=some(pystring('1.1.8')), base_commit_sha=StringV(sha),
                     prompts=MapV('btree', [], 'map'))
    log = mk_struct(M, LOG, attestations=VecV(files), metadata=meta)
    h.inputs_struct = {'files': desc_files, 'base_sha': ByteStr(sha)}
    # recorded findings (the line-based format cannot carry them), as predicates over the symbolic input
    lf = []
    sp = []
    for fa in files:
        lf += [byte_eq(b, 10) for b in field(M, fa, FILE, 'file_path').buf.b]
        for e in field(M, fa, FILE, 'entries').e:
            sp += [byte_eq(b, 32) for b in field(M, e, ENTRY, 'hash').buf.b]
    h.c17_known = [('path-contains-line-feed', any_of(lf) if lf else False), ('hash-contains-space', any_of(sp) if sp else False)]
    return log


def path_classes(h, log):
    """known-finding classes as predicates over the symbolic input (the four path defects and the empty entry found
    here earlier were repaired in /repo by fix: commits; what remains is what the line-based format cannot carry)"""
    out = []
    for kid, cond in getattr(h, 'c17_known', []):
        if cond is False:
            continue
        out.append((kid, z3.BoolVal(True) if cond is True else cond))
    return out


def reference_serialize(h, log, quoted):
    """the standard's attestation grammar, written directly (reference model).
    quoted[i] says whether file i's path line is written in quotes; the standard
    requires quotes when the path contains space, tab or newline and permits them otherwise.
    Returns (bytes, z3 condition under which this quoting is permitted)."""
    P = h.P
    M = P.M
    out = []
    allowed = []
    for fi, fa in enumerate(field(M, log, LOG, 'attestations').e):
        pb = field(M, fa, FILE, 'file_path').buf.b
        q = any_of([byte_eq(b, 32) for b in pb] + [byte_eq(b, 9) for b in pb] + [byte_eq(b, 10) for b in pb])
        if quoted[fi]:
            out += [34] + list(pb) + [34]
        else:
            allowed.append(neg(q))
            out += list(pb)
        out.append(10)
        for en in field(M, fa, FILE, 'entries').e:
            rs = list(field(M, en, ENTRY, 'line_ranges').e)
            if not rs:
                continue      # an entry lists at least one line; one that lists none is not written
            out += [32, 32] + list(field(M, en, ENTRY, 'hash').buf.b) + [32]

            def start(r):
                return r.f[0]
            rs = _insertion_sort(P, rs, lambda a, b: P.branch(binop('Lt', start(a), start(b))))
            for i, r in enumerate(rs):
                if i:
                    out.append(44)
                out += int_digits(P, r.f[0], 32, False)
                if r.var == 'Range':
                    out.append(45)
                    out += int_digits(P, r.f[1], 32, False)
            out.append(10)
    out += list(b'---\n')
    return out, all_of(allowed)


def grammar_ok(h, log, tb):
    """z3 condition: tb == attestation section (some permitted quoting) ++ codec JSON"""
    P = h.P
    js = P.state.get('json', [])
    if not js:
        return False
    seg = []
    for s in js[-1]['segs']:
        seg.extend(s[-1])
    nfiles = len(field(P.M, log, LOG, 'attestations').e)
    alts = []
    for quoted in itertools.product((False, True), repeat=nfiles):
        ref, allowed = reference_serialize(h, log, quoted)
        if len(ref) + len(seg) != len(tb):
            continue
        alts.append(all_of([allowed, bytes_equal(tb[:len(ref)], ref), bytes_equal(tb[len(ref):], seg)]))
    return any_of(alts)


def ranges_multiset_eq(P, xs, ys):
    if len(xs) != len(ys):
        return False
    n = len(xs)
    if n == 0:
        return True

    def req(a, b):
        if a.var != b.var:
            return False
        return all_of([binop('Eq', u, v) for u, v in zip(a.f, b.f)])
    alts = []
    for perm in itertools.permutations(range(n)):
        alts.append(all_of([req(xs[i], ys[perm[i]]) for i in range(n)]))
    return any_of(alts)


def logs_equivalent(h, a, b):
    """same files (in order), hashes, per-entry multiset of ranges, metadata"""
    P = h.P
    M = P.M
    # information-free items are not part of a log's meaning: an entry that lists no line, a file without
    # (such) entries
    def live(f):
        return [e for e in field(M, f, FILE, 'entries').e if len(field(M, e, ENTRY, 'line_ranges').e) > 0]
    fa = [f for f in field(M, a, LOG, 'attestations').e if live(f)]
    fb = field(M, b, LOG, 'attestations').e
    if len(fa) != len(fb):
        return False, 'file count %d vs %d' % (len(fa), len(fb))
    conds = []
    for x, y in zip(fa, fb):
        conds.append(bytes_equal(field(M, x, FILE, 'file_path').buf.b, field(M, y, FILE, 'file_path').buf.b))
        ex = live(x)
        ey = field(M, y, FILE, 'entries').e
        if len(ex) != len(ey):
            return False, 'entry count'
        for u, v in zip(ex, ey):
            conds.append(bytes_equal(field(M, u, ENTRY, 'hash').buf.b, field(M, v, ENTRY, 'hash').buf.b))
            conds.append(ranges_multiset_eq(P, field(M, u, ENTRY, 'line_ranges').e, field(M, v, ENTRY, 'line_ranges').e))
    conds.append(val_eq(P, field(M, a, LOG, 'metadata'), field(M, b, LOG, 'metadata')))
    return all_of(conds), ''


def ob_roundtrip(h, shape):
    P = h.P
    M = P.M
    log = build_log(h, shape)
    known = path_classes(h, log)
    h.sample = None
    try:
        r = P.call_named(LOG + '::serialize_to_string', [Ref(Cell(log))])
    except Panic as e:
        h.panic('R1-serialize-no-panic', e.msg, known)
        return
    if r.var != 'Ok':
        h.require(False, 'R1-serialize-ok', 'serialize returned Err', known)
        return
    text = r.f[0]
    tb = list(text.buf.b)
    # R2: grammar (differential against the reference model), then the codec's JSON object
    h.require(grammar_ok(h, log, tb), 'R2-grammar',
              'serialized text is not <attestation section per the standard> --- <JSON metadata>', [])
    # R1: read back
    try:
        d = P.call_named(LOG + '::deserialize_from_string', [text.view()])
    except Panic as e:
        h.panic('R1-deserialize-no-panic', e.msg, known)
        return
    if d.var != 'Ok':
        h.require(False, 'R1-deserialize-ok', 'deserialize(serialize(L)) is Err', known)
    else:
        eq, why = logs_equivalent(h, log, d.f[0])
        h.require(eq, 'R1-roundtrip-equal', 'deserialize(serialize(L)) != L ' + why, known)
    h.sample = h.witness()


# --- R3: parser totality ------------------------------------------------------
R3_ALPHABET = [34, 32, 45, 44, 48, 57, 97, 10, 13, 9]


def ob_parse_total(h, shape):
    P = h.P
    n = shape['n']
    bs = [h.byte_in('t%d' % i, R3_ALPHABET) for i in range(n)]
    if shape.get('first') is not None and n:
        bs[0] = shape['first']
    full = list(bs)
    if shape['tail']:
        full += list(b'\n---\n{}')
    h.inputs_struct = {'text': ByteStr(full)}
    # anything that is not codec output may parse either way: explore both
    def other(P2, b, ty):
        if P2.choice(2) == 0:
            return err(Opaque('serde_json::Error', 'arbitrary'))
        meta = mk_struct(P2.M, META, schema_version=pystring('x'), git_ai_version=none(),
                         base_commit_sha=pystring(''), prompts=MapV('btree', [], 'map'))
        return ok(meta)
    P.state['json_from_str_other'] = other
    s = mk_str(full)
    try:
        r = P.call_named(LOG + '::deserialize_from_string', [s])
    except Panic as e:
        h.panic('R3-parse-no-panic', e.msg, r3_known(full))
        return
    # Err whenever no line equals '---'
    has_div = has_divider_line(P, full)
    if r.var == 'Ok':
        h.require(has_div, 'R3-reject-without-divider', 'parsed Ok although no line equals ---')
    else:
        h.require(True, 'R3-reject-without-divider', '')
    if h.sample is None:
        h.sample = h.witness()


def r3_known(full):
    # a line consisting of one double quote (after trim_end) panics in parse_attestation_section
    return []


def has_divider_line(P, bs):
    """python/z3 predicate: some line of str::lines() equals '---'"""
    n = len(bs)
    alts = []
    for i in range(0, n - 2):
        # line starts at i: i == 0 or bs[i-1] == LF
        c = [byte_eq(bs[i], 45), byte_eq(bs[i + 1], 45), byte_eq(bs[i + 2], 45)]
        if i > 0:
            c.append(byte_eq(bs[i - 1], 10))
        j = i + 3
        # line ends: end of text, LF, or CR LF
        ends = []
        if j == n:
            ends.append(True)
        else:
            ends.append(byte_eq(bs[j], 10))
            if j + 1 < n:
                ends.append(all_of([byte_eq(bs[j], 13), byte_eq(bs[j + 1], 10)]))
        c.append(any_of(ends))
        alts.append(all_of(c))
    return any_of(alts)


# --- R4: base remap --------------------------------------------------------------

def ob_remap(h, shape):
    P = h.P
    M = P.M
    log = build_log(h, shape)
    known = path_classes(h, log)
    tgt_sha = h.hexbytes('target', shape.get('tlen', 8))
    h.inputs_struct = dict(h.inputs_struct, target=ByteStr(tgt_sha))
    try:
        r = P.call_named(LOG + '::serialize_to_string', [Ref(Cell(log))])
    except Panic as e:
        h.panic('R4-serialize-no-panic', e.msg, known)
        return
    if r.var != 'Ok':
        return
    text = r.f[0]
    try:
        out = P.call_named('authorship::rebase_authorship::remap_note_content_for_target_commit',
                           [text.view(), mk_str(tgt_sha)])
        d = P.call_named(LOG + '::deserialize_from_string', [out.view()])
    except Panic as e:
        h.panic('R4-remap-no-panic', e.msg, known)
        return
    if d.var != 'Ok':
        h.require(False, 'R4-remap-parses', 'remapped note does not parse', known)
        return
    got = d.f[0]
    want = clone_val(P, log)
    field(M, want, LOG, 'metadata').f[M.src.struct_fields(META).index('base_commit_sha')] = StringV(tgt_sha)
    eq, why = logs_equivalent(h, want, got)
    h.require(eq, 'R4-remap-only-base', 'remapped note differs from the original beyond base_commit_sha ' + why, known)
    h.sample = h.witness()


OBLIGATIONS = {'roundtrip': ob_roundtrip, 'parse_total': ob_parse_total, 'remap': ob_remap}


# ---------------------------------------------------------------------------
# native replay

def replay(v, native):
    ob = v['obligation']
    inp = v['inputs']
    if ob.startswith('R3'):
        r = native('c17_parse', {'text': inp['text']})
        if 'panic' in r:
            return {'reproduced': v['kind'] == 'panic', 'native': r}
        if v['kind'] == 'panic':
            return {'reproduced': False, 'native': r}
        text = bytes_of_json(inp['text']).decode('utf-8', 'replace')
        has_div = any(l == '---' for l in _rust_lines(text))
        return {'reproduced': bool(r.get('ok')) and not has_div, 'native': r}
    if ob.startswith('R4'):
        r = native('c17_remap', inp)
        if 'panic' in r:
            return {'reproduced': v['kind'] == 'panic', 'native': r}
        return {'reproduced': v['kind'] != 'panic' and not r.get('holds', False), 'native': r}
    r = native('c17_roundtrip', inp)
    if 'panic' in r:
        return {'reproduced': v['kind'] == 'panic', 'native': r}
    if v['kind'] == 'panic':
        return {'reproduced': False, 'native': r}
    if ob.startswith('R2'):
        return {'reproduced': not r.get('grammar_ok', False), 'native': r}
    return {'reproduced': not r.get('roundtrip_ok', False), 'native': r}


def _rust_lines(text):
    out = []
    for piece in text.split('\n'):
        out.append(piece)
    if out and out[-1] == '':
        out.pop()
    res = []
    parts = text.split('\n')
    for i, p in enumerate(parts):
        last = i == len(parts) - 1
        if last:
            if p == '':
                break
            res.append(p)
        else:
            res.append(p[:-1] if p.endswith('\r') else p)
    return res
