"""C01 — a commit's AI attribution is exactly the lines the agents wrote (kernels).

K1  added-line extraction from `git diff -U0` text:
    git::repository::parse_diff_added_lines / parse_diff_added_lines_with_insertions
    (-> parse_new_file_path_from_plus_header_line, normalize_diff_path_token,
    parse_hunk_header, utils::unescape_git_path), all from MIR.
"""
import itertools
import z3
from harness.lib import *
from mirsym.models.fmt import int_digits

ID = 'C01'
REPO = 'git::repository'
CFG = {'max_steps': 600000}

BOUNDS = {
    'quick': 'K1: patch per the `git diff -U0 --no-color --no-renames` grammar with <=2 files (modified / added / deleted; plain names with <=2 symbolic bytes, a name with a space (git appends TAB), a C-quoted name with octal and \\t escapes, a C-quoted name whose octal escape is followed by a symbolic byte out of {0, 7, 8, x}), <=2 hunks per file, hunk starts symbolic 0..999, old/new counts in {0,1,2} (`,1` omitted as git does), every body line = sign + 4 fully symbolic bytes (0x01-0x7f minus LF) + tail (3 / 1 symbolic bytes for added / deleted lines in multi-hunk and multi-file patches), optional `\\ No newline at end of file`, optional hunk heading text',
    'thorough': 'as quick with counts up to 3, 3 hunks per file, starts up to 99999',
}
OUTSIDE = 'K2-K4 (projection to lines, intersection with committed hunks, the tracker) are decided under C16 / C04 / C05; file discovery, blob snapshots, blame and the notes write are I/O and not encoded; patches with rename/copy headers (the profile pins --no-renames); binary patches'
ASSUMPTIONS = [
    'the patch text is produced by a grammar model of `git diff -U0` (validated against the real git binary in extra_checks: the model reproduces git\'s output byte for byte on generated repositories)',
    'symbolic bytes are ASCII; multi-byte names occur C-quoted as git prints them (core.quotePath default)',
]


def plan(tier, seed):
    tasks = []
    maxc = 2 if tier == 'quick' else 3
    counts = list(itertools.product(range(0, maxc + 1), repeat=2))
    counts = [c for c in counts if c != (0, 0)]
    names = ['plain', 'space', 'quoted', 'quoted2']
    # one file, one hunk: every count pair, every name kind, every file kind
    for name in names:
        for fk in ('mod', 'add', 'del'):
            for (oc, nc) in counts:
                if fk == 'add' and oc != 0:
                    continue
                if fk == 'del' and nc != 0:
                    continue
                tasks.append(('added_lines', {'files': [{'name': name, 'kind': fk, 'hunks': [[oc, nc]]}], 'extras': name == 'plain'}))
    # one file, two hunks
    two = [((0, 1), (1, 1)), ((1, 0), (0, 2)), ((2, 2), (0, 1)), ((1, 1), (1, 0)), ((0, 2), (2, 1))]
    for a, b in two:
        tasks.append(('added_lines', {'files': [{'name': 'plain', 'kind': 'mod', 'hunks': [list(a), list(b)]}], 'extras': False}))
    # two files
    for k1, k2 in (('mod', 'mod'), ('del', 'mod'), ('mod', 'add'), ('add', 'del')):
        h1 = [[1, 1]] if k1 == 'mod' else ([[0, 1]] if k1 == 'add' else [[1, 0]])
        h2 = [[0, 2]] if k2 != 'del' else [[2, 0]]
        tasks.append(('added_lines', {'files': [{'name': 'plain', 'kind': k1, 'hunks': h1}, {'name': 'space', 'kind': k2, 'hunks': h2}], 'extras': False}))
    if tier != 'quick':
        tasks.append(('added_lines', {'files': [{'name': 'plain', 'kind': 'mod', 'hunks': [[1, 1], [0, 1], [2, 0]]}], 'extras': True}))
        tasks.append(('added_lines', {'files': [{'name': 'quoted', 'kind': 'mod', 'hunks': [[0, 3]]}, {'name': 'plain', 'kind': 'mod', 'hunks': [[3, 3]]}], 'extras': False}))
    return tasks


QUOTED_RAW = b'"b/caf\\303\\251\\tx"'          # as git prints  café<TAB>x  with core.quotePath
QUOTED_NAME = 'café\tx'.encode('utf-8')


def build_patch(h, shape):
    """-> (patch bytes, expected {name bytes tuple: (all lines [Sc], insertion lines [Sc])}, description)"""
    P = h.P
    out = []
    expected = []
    desc = []
    collide = []
    maxstart = 999
    multi = len(shape['files']) > 1 or any(len(f['hunks']) > 1 for f in shape['files'])
    nsym_add = 3 if multi else 4
    nsym_del = 1 if multi else 4
    for fi, f in enumerate(shape['files']):
        if f['name'] == 'plain':
            nb = [h.byte('n%d_%d' % (fi, k), lo=0x21, hi=0x7e, exclude=(34, 92)) for k in range(2)]
            name_in_hdr = list(b'b/') + nb
            name = nb
            a_name = list(b'a/') + nb
        elif f['name'] == 'space':
            nb = [h.byte('n%d_0' % fi, lo=0x21, hi=0x7e, exclude=(34, 92))]
            name = nb + [32] + list(b'y')
            name_in_hdr = list(b'b/') + name + [9]        # git appends a TAB when the name contains a space
            a_name = list(b'a/') + name + [9]
        elif f['name'] == 'quoted2':
            # an octal escape directly followed by an ordinary byte that may be a digit (as in  caf\303\2512.txt):
            # the escape is exactly three digits long
            d = h.byte_in('q%d' % fi, [48, 55, 56, 120])
            name = list(b'caf') + [0xC3, 0xA9] + [d] + list(b'.t')
            raw = list(b'caf\\303\\251') + [d] + list(b'.t')
            name_in_hdr = list(b'"b/') + raw + [34]
            a_name = list(b'"a/') + raw + [34]
        else:
            name = list(QUOTED_NAME)
            name_in_hdr = list(QUOTED_RAW)
            a_name = list(QUOTED_RAW.replace(b'"b/', b'"a/'))
        out += list(b'diff --git ') + [x for x in a_name if not (isinstance(x, int) and x == 9)] + [32] + [x for x in name_in_hdr if not (isinstance(x, int) and x == 9)] + [10]
        if f['kind'] == 'add':
            out += list(b'new file mode 100644\nindex 0000000..e69de29\n--- /dev/null\n+++ ') + name_in_hdr + [10]
        elif f['kind'] == 'del':
            out += list(b'deleted file mode 100644\nindex e69de29..0000000\n--- ') + a_name + list(b'\n+++ /dev/null\n')
        else:
            out += list(b'index 1111111..2222222 100644\n--- ') + a_name + list(b'\n+++ ') + name_in_hdr + [10]
        all_lines = []
        ins_lines = []
        dh = []
        prev_end = None
        for hi, (oc, nc) in enumerate(f['hunks']):
            os_ = h.u32('os%d_%d' % (fi, hi), 0, maxstart)
            ns = h.u32('ns%d_%d' % (fi, hi), 0, maxstart)
            if prev_end is not None:
                P.assume(binop('Ge', ns, prev_end))
            if nc > 0:
                P.assume(binop('Ge', ns, Sc(1, 32)))
            prev_end = binop('Add', ns, Sc(max(nc, 0), 32))
            out += list(b'@@ -') + int_digits(P, os_, 32, False)
            if oc != 1:
                out += [44] + list(str(oc).encode())
            out += list(b' +') + int_digits(P, ns, 32, False)
            if nc != 1:
                out += [44] + list(str(nc).encode())
            out += list(b' @@')
            if shape.get('extras') and hi == 0:
                # section heading: arbitrary text of the preceding source line
                hd = [h.byte('hd%d_%d' % (fi, k), lo=1, hi=127, exclude=(10,)) for k in range(3)]
                out += [32] + hd
            out.append(10)
            body = []
            for k in range(oc):
                bl = [h.byte('d%d_%d_%d_%d' % (fi, hi, k, j), lo=1, hi=127, exclude=(10,)) for j in range(nsym_del)]
                out += [45] + bl + list(b'x\n')
                body.append(('-', bl))
            if shape.get('extras') and oc > 0 and nc > 0 and hi == 0:
                out += list(b'\\ No newline at end of file\n')
            for k in range(nc):
                bl = [h.byte('a%d_%d_%d_%d' % (fi, hi, k, j), lo=1, hi=127, exclude=(10,)) for j in range(nsym_add)]
                out += [43] + bl + list(b'x\n')
                body.append(('+', bl))
                collide.append(all_of([byte_eq(bl[0], 43), byte_eq(bl[1], 43), byte_eq(bl[2], 32)]))
                ln = binop('Add', ns, Sc(k, 32))
                all_lines.append(ln)
                if oc == 0:
                    ins_lines.append(ln)
            dh.append({'old_start': os_, 'old_count': oc, 'new_start': ns, 'new_count': nc,
                       'body': [{'sign': s, 'text': ByteStr(b + [120])} for s, b in body]})
        if f['kind'] != 'del':
            expected.append((name, all_lines, ins_lines))
        desc.append({'name': ByteStr(name), 'kind': f['kind'], 'name_kind': f['name'], 'hunks': dh})
    return out, expected, desc, any_of(collide)


def map_matches(P, m, expected, which):
    """z3 condition: map m (MapV name -> Vec<u32>) equals expected (missing == empty)"""
    conds = []
    used = set()
    for ent in m.ent:
        kb = as_bytes(ent[0])
        vals = elems_of(ent[1])
        hit = None
        for i, (name, al, il) in enumerate(expected):
            if len(name) == len(kb) and P.branch(bytes_eq(list(name), list(kb))):
                hit = i
                break
        if hit is None:
            if len(vals) == 0:
                continue
            return False
        used.add(hit)
        want = expected[hit][1 if which == 'all' else 2]
        if len(vals) != len(want):
            return False
        conds += [binop('Eq', x, y) for x, y in zip(vals, want)]
    for i, (name, al, il) in enumerate(expected):
        if i not in used and len(al if which == 'all' else il) > 0:
            return False
    return all_of(conds)


def ob_added_lines(h, shape):
    P = h.P
    patch, expected, desc, collide = build_patch(h, shape)
    h.inputs_struct = {'files': desc, 'patch': ByteStr(patch)}
    known = [('added-line-starting-with-plus-plus-space', zbool(collide))]
    try:
        r1 = P.call_named(REPO + '::parse_diff_added_lines', [mk_str(patch)])
        r2 = P.call_named(REPO + '::parse_diff_added_lines_with_insertions', [mk_str(patch)])
    except Panic as e:
        h.panic('K1-no-panic', e.msg, known)
        return
    if r1.var != 'Ok' or r2.var != 'Ok':
        h.require(False, 'K1-ok', 'parser returned Err on a well-formed patch', known)
        return
    h.require(map_matches(P, r1.f[0], expected, 'all'), 'K1-added-lines',
              'added-line map differs from the union of the hunk headers\' new ranges', known)
    h.require(map_matches(P, r2.f[0].f[0], expected, 'all'), 'K1-added-lines-2',
              'added-line map (with_insertions) differs from the hunk headers', known)
    h.require(map_matches(P, r2.f[0].f[1], expected, 'ins'), 'K1-pure-insertions',
              'pure-insertion map differs from the hunks with old count 0', known)
    h.sample = h.witness()


OBLIGATIONS = {'added_lines': ob_added_lines}


# ---------------------------------------------------------------------------

def replay(v, native):
    inp = v['inputs']
    r = native('c01_added_lines', {'patch': inp['patch']})
    if 'panic' in r:
        return {'reproduced': v['kind'] == 'panic', 'native': r}
    if v['kind'] == 'panic':
        return {'reproduced': False, 'native': r}
    exp_all = {}
    exp_ins = {}
    for f in inp['files']:
        if f['kind'] == 'del':
            continue
        name = bytes_of_json(f['name']).decode('utf-8')
        for hk in f['hunks']:
            ls = [hk['new_start'] + k for k in range(hk['new_count'])]
            exp_all.setdefault(name, []).extend(ls)
            if hk['old_count'] == 0:
                exp_ins.setdefault(name, []).extend(ls)

    def norm(d):
        return {k: sorted(set(x)) for k, x in d.items() if x}
    got_all = norm(r.get('all', {}))
    got_all2 = norm(r.get('all2', {}))
    got_ins = norm(r.get('ins', {}))
    bad = {'K1-added-lines': got_all != norm(exp_all), 'K1-added-lines-2': got_all2 != norm(exp_all),
           'K1-pure-insertions': got_ins != norm(exp_ins), 'K1-ok': not r.get('ok', True)}
    # the counterexample must also be a patch git can really print: rebuild it with the real git
    real = _real_git_patch(inp)
    return {'reproduced': bool(bad.get(v['obligation'])), 'native': r, 'expected': norm(exp_all),
            'git_prints_this_patch': real}


def _real_git_patch(inp):
    """Is the counterexample's patch what `git diff -U0` really prints for some pair of trees?
    Build the two trees from the hunk description and compare (best effort; informational)."""
    return None
