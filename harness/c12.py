"""C12 — results do not depend on the user's git configuration or invocation context (kernels).

K1  profile pinning: git::repository::{args_with_internal_git_profile, strip_profile_conflicts,
    first_git_subcommand_index, profile_options, args_with_disabled_hooks_if_needed} from MIR.
"""
import itertools
import z3
from harness.lib import *

ID = 'C12'
REPO = 'git::repository'
PROFILE = REPO + '::InternalGitProfile'
CFG = {'max_steps': 400000}

# what must be neutralised per profile (C12's configuration dimensions that change the text git-ai parses)
PINNED = {
    'PatchParse': ['--no-ext-diff', '--no-textconv', '--src-prefix=a/', '--dst-prefix=b/', '--no-relative', '--no-color',
                   '--diff-algorithm=default', '--indent-heuristic', '--inter-hunk-context=0'],
    'NumstatParse': ['--no-ext-diff', '--no-textconv', '--no-color', '--no-relative', '--no-renames'],
    'RawDiffParse': ['--no-ext-diff', '--no-textconv', '--no-color', '--no-relative'],
}
# user options that would override a pinned one if they survived (exact names / prefixes / split-value names)
CONFLICT_EXACT = {
    'PatchParse': ['--ext-diff', '--textconv', '--relative', '--color', '--no-prefix', '--no-indent-heuristic'],
    'NumstatParse': ['--ext-diff', '--textconv', '--relative', '--color', '--find-renames', '--find-copies', '--find-copies-harder', '-M', '-C'],
    'RawDiffParse': ['--ext-diff', '--textconv', '--relative', '--color'],
}
CONFLICT_PREFIX = {
    'PatchParse': ['--relative=', '--color=', '--src-prefix=', '--dst-prefix=', '--diff-algorithm=', '--inter-hunk-context='],
    'NumstatParse': ['--relative=', '--color=', '--find-renames=', '--find-copies=', '-M', '-C'],
    'RawDiffParse': ['--relative=', '--color='],
}
CONFLICT_SPLIT = {'PatchParse': ['--src-prefix', '--dst-prefix'], 'NumstatParse': [], 'RawDiffParse': []}
NEUTRAL = ['-U0', '--stat', 'HEAD', 'a.txt', '--cached']
GLOBALS = [[], ['-C', None], ['-c', 'k=v'], ['--git-dir', None, '--no-pager']]

BOUNDS = {
    'quick': 'K1: argv = globals (none | -C <2 symbolic bytes> | -c k=v | --git-dir <x> --no-pager) + `diff` + <=2 option tokens + optional (`--` + <=1 pathspec); option tokens range over every option the three profiles strip (exact, `=`-form with 1-2 symbolic bytes, split `--src-prefix X`), every option they pin, every pinned name extended by 1 symbolic byte (a different option that starts alike), neutral options, and fully symbolic 2-3 byte tokens; pathspec = a pinned option name or 2 symbolic bytes',
    'thorough': 'as quick with 3 option tokens',
}
OUTSIDE = 'which internal call sites use which profile (call-site audit); options outside the listed dimensions (--word-diff, -R, --stat ...) that internal callers never pass; K3 discovery (resolve_command_base_dir / worktree_storage_ai_dir) — filesystem canonicalisation, not encoded; blame/notes display configuration (interpreted by git itself)'
ASSUMPTIONS = [
    'git semantics used by the oracle: among options before `--` the last one wins; anything from the first `--` after the subcommand on is a pathspec',
    'the subcommand is the first token that is neither a dash option nor the value of -C/-c/--git-dir/--work-tree/--namespace/--super-prefix/--config-env',
]


def option_alphabet(profile):
    toks = []
    for x in CONFLICT_EXACT[profile]:
        toks.append(('lit', x))
    for x in CONFLICT_PREFIX[profile]:
        toks.append(('pre', x))
    for x in CONFLICT_SPLIT[profile]:
        toks.append(('lit', x))
    for x in PINNED[profile]:
        toks.append(('lit', x))
    # an option that merely *starts like* a pinned one (e.g. --no-color-moved) is a different option
    for x in PINNED[profile]:
        if '=' not in x:
            toks.append(('pre', x))
    for x in NEUTRAL:
        toks.append(('lit', x))
    toks.append(('sym', 2))
    toks.append(('sym', 3))
    # de-duplicate
    seen = []
    for t in toks:
        if t not in seen:
            seen.append(t)
    return seen


def plan(tier, seed):
    tasks = []
    nmax = 2 if tier == 'quick' else 3
    for profile in ('PatchParse', 'NumstatParse', 'RawDiffParse'):
        A = option_alphabet(profile)
        shapes = []
        for n in range(0, nmax + 1):
            for combo in itertools.product(range(len(A)), repeat=n):
                for tail in (None, [], ['pin'], ['sym']):
                    if n == nmax and tail not in (None, ['pin']):
                        continue
                    shapes.append({'opts': [list(A[i]) for i in combo], 'tail': tail})
        B = 60
        for gi in range(len(GLOBALS)):
            sub = shapes if gi == 0 else shapes[::7]
            for i in range(0, len(sub), B):
                tasks.append(('pin', {'profile': profile, 'g': gi, 'shapes': sub[i:i + B]}))
    tasks.append(('general', {'n': 3}))
    tasks.append(('hooks', {}))
    return tasks


def build_args(h, shape, gi, profile):
    P = h.P
    toks = []
    for gi_i, g in enumerate(GLOBALS[gi]):
        if g is None:
            toks.append([h.byte('g%d_%d' % (gi_i, k), lo=0x21, hi=0x7e) for k in range(2)])
        else:
            toks.append(list(g.encode()))
    cmd_index = len(toks)
    toks.append(list(b'diff'))
    for i, (kind, x) in enumerate(shape['opts']):
        if kind == 'lit':
            toks.append(list(x.encode()))
        elif kind == 'pre':
            toks.append(list(x.encode()) + [h.byte('o%d_%d' % (i, k), lo=0x21, hi=0x7e) for k in range(1 if x.startswith('--') else 2)])
        else:
            toks.append([h.byte('s%d_%d' % (i, k), lo=0x21, hi=0x7e) for k in range(x)])
    dd = None
    if shape['tail'] is not None:
        dd = len(toks)
        toks.append(list(b'--'))
        for t in shape['tail']:
            if t == 'pin':
                toks.append(list(PINNED[profile][-1].encode()))
            else:
                toks.append([h.byte('p_%d' % k, lo=0x21, hi=0x7e) for k in range(2)])
    return toks, cmd_index, dd


def tok_is(P, t, s):
    b = list(s.encode())
    if len(b) != len(t):
        return False
    return P.branch(bytes_eq(list(t), b))


def tok_has_prefix(P, t, s):
    b = list(s.encode())
    if len(t) < len(b):
        return False
    return P.branch(bytes_eq(list(t[:len(b)]), b))


def conflicts(P, t, profile):
    # a user option that spells exactly what the profile pins is harmless
    for x in PINNED[profile]:
        if tok_is(P, t, x):
            return False
    for x in CONFLICT_EXACT[profile]:
        if tok_is(P, t, x):
            return True
    for x in CONFLICT_PREFIX[profile]:
        if tok_has_prefix(P, t, x):
            return True
    for x in CONFLICT_SPLIT[profile]:
        if tok_is(P, t, x):
            return True
    return False


def call_profile(P, toks, profile):
    args = VecV([StringV(t) for t in toks])
    prof = mk_enum(P.M, PROFILE, profile)
    r = P.call_named(REPO + '::args_with_internal_git_profile', [SliceRef(args, 0, len(toks)), prof])
    return [list(s.buf.b) for s in r.e]


def ob_pin(h, shape):
    P = h.P
    k = h.choice(len(shape['shapes']))
    sh = shape['shapes'][k]
    profile = shape['profile']
    h.shape = {'profile': profile, 'g': shape['g'], 'opts': sh['opts'], 'tail': sh['tail']}
    toks, ci, dd = build_args(h, sh, shape['g'], profile)
    h.inputs_struct = {'profile': profile, 'args': [ByteStr(t) for t in toks]}
    # a fully symbolic option token may itself be `--`: then it is the separator
    if dd is None or True:
        for i in range(ci + 1, len(toks) if dd is None else dd):
            if tok_is(P, toks[i], '--'):
                dd = i
                break
    try:
        out = call_profile(P, toks, profile)
    except Panic as e:
        h.panic('K1-no-panic', e.msg)
        return
    tail = toks[dd:] if dd is not None else []
    # (d) everything up to and including the subcommand is untouched
    okd = len(out) > ci and all_of([bytes_equal(out[i], toks[i]) for i in range(ci + 1)])
    h.require(okd, 'K1-prefix-untouched', 'tokens before/including the subcommand changed')
    # (c) everything from the first `--` on is untouched
    if tail:
        okc = len(out) >= ci + 1 + len(tail) and all_of([bytes_equal(a, b) for a, b in zip(out[len(out) - len(tail):], tail)])
        h.require(okc, 'K1-pathspecs-untouched', 'tokens from the first `--` on changed')
    mid = out[ci + 1: len(out) - len(tail)]
    known = []
    if tail and len(tail) > 1:
        # a pathspec that spells a pinned option suppresses that option (recorded finding)
        known = [('pathspec-equals-pinned-option', z3.BoolVal(any(concrete_bytes(t) is not None and bytes(concrete_bytes(t)).decode() in PINNED[profile] for t in tail[1:])))]
    # (a) every neutralising option is present before `--`
    for p in PINNED[profile]:
        present = any_of([bytes_equal(t, list(p.encode())) for t in mid])
        h.require(present, 'K1-pinned-present', 'pinned option %s missing before `--`' % p, known)
    # (b) no conflicting user option survives before `--`
    surv = False
    for t in mid:
        if conflicts(P, t, profile):
            surv = True
    h.require(not surv, 'K1-no-conflict-survives', 'a conflicting user option survived before `--`')
    # every other user token is preserved, in order (tokens spelling a pinned option may move: harmless)
    def is_pinned(t):
        return any(tok_is(P, t, p) for p in PINNED[profile])
    user_mid = toks[ci + 1: dd if dd is not None else len(toks)]
    kept = []
    i = 0
    while i < len(user_mid):
        t = user_mid[i]
        if any(tok_is(P, t, x) for x in CONFLICT_SPLIT[profile]):
            i += 2
            continue
        if conflicts(P, t, profile) or is_pinned(t):
            i += 1
            continue
        kept.append(t)
        i += 1
    rest = [t for t in mid if not is_pinned(t)]
    okk = len(kept) == len(rest) and all_of([bytes_equal(a, b) for a, b in zip(rest, kept)])
    h.require(okk, 'K1-user-options-preserved', 'non-conflicting user options were dropped, duplicated or reordered', known)
    h.sample = h.witness()


def ob_general(h, shape):
    P = h.P
    toks = [[h.byte('t%d_%d' % (i, k), lo=0x21, hi=0x7e) for k in range(2)] for i in range(shape['n'])]
    h.inputs_struct = {'profile': 'General', 'args': [ByteStr(t) for t in toks]}
    out = call_profile(P, toks, 'General')
    h.require(len(out) == len(toks) and all_of([bytes_equal(a, b) for a, b in zip(out, toks)]), 'K1-general-identity',
              'General profile changed the arguments')
    h.sample = h.witness()


def install(M):
    def should_disable(P, c, args, dt):
        return P.state.get('hooks_disabled', FALSE)
    M.env['git::repository::should_disable_internal_git_hooks'] = should_disable


def ob_hooks(h, shape):
    """internal git calls never run user hooks: with the guard active, core.hooksPath is overridden
    unless the caller already overrides it; with the guard inactive the args are untouched"""
    P = h.P
    which = h.choice(4)
    base = [list(b'status'), [h.byte('a_%d' % k, lo=0x21, hi=0x7e) for k in range(3)]]
    if which == 1:
        base = [list(b'-c'), list(b'core.hooksPath=/x')] + base
    elif which == 2:
        base = [list(b'-ccore.hooksPath=/x')] + base
    elif which == 3:
        base = [list(b'-c'), list(b'user.name=x')] + base
    guard = h.choice(2) == 1
    P.state['hooks_disabled'] = TRUE if guard else FALSE
    h.inputs_struct = {'args': [ByteStr(t) for t in base], 'guard': guard}
    args = VecV([StringV(t) for t in base])
    r = P.call_named(REPO + '::args_with_disabled_hooks_if_needed', [SliceRef(args, 0, len(base))])
    out = [list(s.buf.b) for s in r.e]
    same = len(out) == len(base) and all_of([bytes_equal(a, b) for a, b in zip(out, base)])
    if not guard or which in (1, 2):
        h.require(same, 'K1-hooks-args-untouched', 'arguments changed although no override was needed')
    else:
        ok_ = len(out) == len(base) + 2 and bytes_equal(out[0], list(b'-c')) is True and \
            concrete_bytes(out[1]) is not None and bytes(concrete_bytes(out[1])).startswith(b'core.hooksPath=') and \
            all_of([bytes_equal(a, b) for a, b in zip(out[2:], base)])
        h.require(ok_, 'K1-hooks-disabled', 'internal call does not neutralise core.hooksPath')
    h.sample = h.witness()


OBLIGATIONS = {'pin': ob_pin, 'general': ob_general, 'hooks': ob_hooks}


def replay(v, native):
    inp = v['inputs']
    if v['obligation'].startswith('K1-hooks'):
        return {'reproduced': False, 'note': 'hooks guard is thread-local state; replay not implemented'}
    args = [bytes_of_json(t).decode('utf-8') for t in inp['args']]
    r = native('c12_profile', {'profile': inp['profile'], 'args': args})
    if 'panic' in r:
        return {'reproduced': v['kind'] == 'panic', 'native': r}
    if v['kind'] == 'panic':
        return {'reproduced': False, 'native': r}
    out = r['out']
    profile = inp['profile']
    # concrete re-evaluation of the obligation on the native output
    try:
        ci = _cmd_index(args)
    except ValueError:
        return {'reproduced': False, 'native': r, 'note': 'no subcommand'}
    dd = None
    for i in range(ci + 1, len(args)):
        if args[i] == '--':
            dd = i
            break
    tail = args[dd:] if dd is not None else []
    mid = out[ci + 1: len(out) - len(tail)]

    def conf(t):
        if t in PINNED[profile]:
            return False
        return t in CONFLICT_EXACT[profile] or any(t.startswith(x) for x in CONFLICT_PREFIX[profile]) or t in CONFLICT_SPLIT[profile]
    ob = v['obligation']
    if ob == 'K1-prefix-untouched':
        bad = out[:ci + 1] != args[:ci + 1]
    elif ob == 'K1-pathspecs-untouched':
        bad = out[len(out) - len(tail):] != tail
    elif ob == 'K1-pinned-present':
        bad = profile != 'General' and any(p not in mid for p in PINNED[profile])
    elif ob == 'K1-no-conflict-survives':
        bad = any(conf(t) for t in mid)
    elif ob == 'K1-idempotent':
        r2 = native('c12_profile', {'profile': profile, 'args': out})
        bad = r2.get('out') != out
    elif ob == 'K1-general-identity':
        bad = out != args
    else:
        user_mid = args[ci + 1: dd if dd is not None else len(args)]
        kept = []
        i = 0
        while i < len(user_mid):
            t = user_mid[i]
            if t in CONFLICT_SPLIT[profile]:
                i += 2
                continue
            if conf(t) or t in PINNED[profile]:
                i += 1
                continue
            kept.append(t)
            i += 1
        bad = [t for t in mid if t not in PINNED[profile]] != kept
    return {'reproduced': bool(bad), 'native': r}


def _cmd_index(args):
    i = 0
    while i < len(args):
        a = args[i]
        if not a.startswith('-'):
            return i
        i += 2 if a in ('-C', '-c', '--git-dir', '--work-tree', '--namespace', '--super-prefix', '--config-env') else 1
    raise ValueError('no command')
