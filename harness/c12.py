"""C12 — results do not depend on the user's git configuration or invocation context (kernels).

K1  profile pinning: git::repository::{args_with_internal_git_profile, strip_profile_conflicts,
    first_git_subcommand_index, profile_options, args_with_disabled_hooks_if_needed} from MIR.
"""
import itertools
import z3
from harness.lib import *

ID = 'C12'
REPO = 'git::repository'
PROFILE = REPO + '::InternalGitProfile'
CFG = {'max_steps': 400000}

# what must be neutralised per profile (C12's configuration dimensions that change the text git-ai parses)
PINNED = {
    'PatchParse': ['--no-ext-diff', '--no-textconv', '--src-prefix=a/', '--dst-prefix=b/', '--no-relative', '--no-color',
                   '--diff-algorithm=default', '--indent-heuristic', '--inter-hunk-context=0'],
    'NumstatParse': ['--no-ext-diff', '--no-textconv', '--no-color', '--no-relative', '--no-renames'],
    'RawDiffParse': ['--no-ext-diff', '--no-textconv', '--no-color', '--no-relative'],
}
# user options that would override a pinned one if they survived (exact names / prefixes / split-value names)
CONFLICT_EXACT = {
    'PatchParse': ['--ext-diff', '--textconv', '--relative', '--color', '--no-prefix', '--no-indent-heuristic'],
    'NumstatParse': ['--ext-diff', '--textconv', '--relative', '--color', '--find-renames', '--find-copies', '--find-copies-harder', '-M', '-C'],
    'RawDiffParse': ['--ext-diff', '--textconv', '--relative', '--color'],
}
CONFLICT_PREFIX = {
    'PatchParse': ['--relative=', '--color=', '--src-prefix=', '--dst-prefix=', '--diff-algorithm=', '--inter-hunk-context='],
    'NumstatParse': ['--relative=', '--color=', '--find-renames=', '--find-copies=', '-M', '-C'],
    'RawDiffParse': ['--relative=', '--color='],
}
CONFLICT_SPLIT = {'PatchParse': ['--src-prefix', '--dst-prefix'], 'NumstatParse': [], 'RawDiffParse': []}
NEUTRAL = ['-U0', '--stat', 'HEAD', 'a.txt', '--cached']
GLOBALS = [[], ['-C', None], ['-c', 'k=v'], ['--git-dir', None, '--no-pager'],
           # the user's own --no-pager FOLLOWED by further global options (what find_repository keeps for `git --no-pager commit`)
           ['--no-pager', '-C', None], ['--no-pager', '-c', 'k=v'], ['-c', 'k=v', '--no-pager', '-C', None]]

BOUNDS = {
    'quick': 'K1: argv = globals (none | -C <2 symbolic bytes> | -c k=v | --git-dir <x> --no-pager | --no-pager -C <x> | --no-pager -c k=v | -c k=v --no-pager -C <x>) + `diff` + <=2 option tokens + optional (`--` + <=1 pathspec); option tokens range over every option the three profiles strip (exact, `=`-form with 1-2 symbolic bytes, split `--src-prefix X`), every option they pin, every pinned name extended by 1 symbolic byte (a different option that starts alike), neutral options, and fully symbolic 2-3 byte tokens; pathspec = a pinned option name or 2 symbolic bytes',
    'thorough': 'as quick with 3 option tokens',
}
OUTSIDE = 'which internal call sites use which profile (call-site audit); options outside the listed dimensions (--word-diff, -R, --stat ...) that internal callers never pass; K3 discovery (resolve_command_base_dir / worktree_storage_ai_dir) — filesystem canonicalisation, not encoded; blame/notes display configuration (interpreted by git itself)'
ASSUMPTIONS = [
    'git semantics used by the oracle: among options before `--` the last one wins; anything from the first `--` after the subcommand on is a pathspec',
    'the subcommand is the first token that is neither a dash option nor the value of -C/-c/--git-dir/--work-tree/--namespace/--super-prefix/--config-env',
]


def option_alphabet(profile):
    toks = []
    for x in CONFLICT_EXACT[profile]:
        toks.append(('lit', x))
    for x in CONFLICT_PREFIX[profile]:
        toks.append(('pre', x))
    for x in CONFLICT_SPLIT[profile]:
        toks.append(('lit', x))
    for x in PINNED[profile]:
        toks.append(('lit', x))
    # an option that merely *starts like* a pinned one (e.g. --no-color-moved) is a different option
    for x in PINNED[profile]:
        if '=' not in x:
            toks.append(('pre', x))
    for x in NEUTRAL:
        toks.append(('lit', x))
    toks.append(('sym', 2))
    toks.append(('sym', 3))
    # de-duplicate
    seen = []
    for t in toks:
        if t not in seen:
            seen.append(t)
    return seen


def plan(tier, seed):
    tasks = [('repo_root', {'i': i}) for i in range(len(ROOT_SHAPES))]
    nmax = 2 if tier == 'quick' else 3
    for profile in ('PatchParse', 'NumstatParse', 'RawDiffParse'):
        A = option_alphabet(profile)
        shapes = []
        for n in range(0, nmax + 1):
            for combo in itertools.product(range(len(A)), repeat=n):
                for tail in (None, [], ['pin'], ['sym']):
                    if n == nmax and tail not in (None, ['pin']):
                        continue
                    shapes.append({'opts': [list(A[i]) for i in combo], 'tail': tail})
        B = 60
        for gi in range(len(GLOBALS)):
            sub = shapes if gi == 0 else shapes[::7]
            for i in range(0, len(sub), B):
                tasks.append(('pin', {'profile': profile, 'g': gi, 'shapes': sub[i:i + B]}))
    tasks.append(('general', {'n': 3}))
    for fn in CALLSITES:
        for np_ in (None, 0, 1, 2):
            tasks.append(('callsite', {'fn': fn, 'paths': np_}))
    for fn in NUMSTAT_SITES:
        tasks.append(('numstat_site', {'fn': fn}))
    tasks.append(('hooks', {}))
    return tasks


def build_args(h, shape, gi, profile):
    P = h.P
    toks = []
    for gi_i, g in enumerate(GLOBALS[gi]):
        if g is None:
            toks.append([h.byte('g%d_%d' % (gi_i, k), lo=0x21, hi=0x7e) for k in range(2)])
        else:
            toks.append(list(g.encode()))
    cmd_index = len(toks)
    toks.append(list(b'diff'))
    for i, (kind, x) in enumerate(shape['opts']):
        if kind == 'lit':
            toks.append(list(x.encode()))
        elif kind == 'pre':
            toks.append(list(x.encode()) + [h.byte('o%d_%d' % (i, k), lo=0x21, hi=0x7e) for k in range(1 if x.startswith('--') else 2)])
        else:
            toks.append([h.byte('s%d_%d' % (i, k), lo=0x21, hi=0x7e) for k in range(x)])
    dd = None
    if shape['tail'] is not None:
        dd = len(toks)
        toks.append(list(b'--'))
        for t in shape['tail']:
            if t == 'pin':
                toks.append(list(PINNED[profile][-1].encode()))
            else:
                toks.append([h.byte('p_%d' % k, lo=0x21, hi=0x7e) for k in range(2)])
    return toks, cmd_index, dd


def tok_is(P, t, s):
    b = list(s.encode())
    if len(b) != len(t):
        return False
    return P.branch(bytes_eq(list(t), b))


def tok_has_prefix(P, t, s):
    b = list(s.encode())
    if len(t) < len(b):
        return False
    return P.branch(bytes_eq(list(t[:len(b)]), b))


def conflicts(P, t, profile):
    # a user option that spells exactly what the profile pins is harmless
    for x in PINNED[profile]:
        if tok_is(P, t, x):
            return False
    for x in CONFLICT_EXACT[profile]:
        if tok_is(P, t, x):
            return True
    for x in CONFLICT_PREFIX[profile]:
        if tok_has_prefix(P, t, x):
            return True
    for x in CONFLICT_SPLIT[profile]:
        if tok_is(P, t, x):
            return True
    return False


def call_profile(P, toks, profile):
    args = VecV([StringV(t) for t in toks])
    prof = mk_enum(P.M, PROFILE, profile)
    r = P.call_named(REPO + '::args_with_internal_git_profile', [SliceRef(args, 0, len(toks)), prof])
    return [list(s.buf.b) for s in r.e]


def ob_pin(h, shape):
    P = h.P
    k = h.choice(len(shape['shapes']))
    sh = shape['shapes'][k]
    profile = shape['profile']
    h.shape = {'profile': profile, 'g': shape['g'], 'opts': sh['opts'], 'tail': sh['tail']}
    toks, ci, dd = build_args(h, sh, shape['g'], profile)
    h.inputs_struct = {'profile': profile, 'args': [ByteStr(t) for t in toks]}
    # a fully symbolic option token may itself be `--`: then it is the separator
    if dd is None or True:
        for i in range(ci + 1, len(toks) if dd is None else dd):
            if tok_is(P, toks[i], '--'):
                dd = i
                break
    try:
        out = call_profile(P, toks, profile)
    except Panic as e:
        h.panic('K1-no-panic', e.msg)
        return
    tail = toks[dd:] if dd is not None else []
    # (d) everything up to and including the subcommand is untouched
    okd = len(out) > ci and all_of([bytes_equal(out[i], toks[i]) for i in range(ci + 1)])
    h.require(okd, 'K1-prefix-untouched', 'tokens before/including the subcommand changed')
    # (c) everything from the first `--` on is untouched
    if tail:
        okc = len(out) >= ci + 1 + len(tail) and all_of([bytes_equal(a, b) for a, b in zip(out[len(out) - len(tail):], tail)])
        h.require(okc, 'K1-pathspecs-untouched', 'tokens from the first `--` on changed')
    mid = out[ci + 1: len(out) - len(tail)]
    known = []
    if tail and len(tail) > 1:
        # a pathspec that spells a pinned option suppresses that option (recorded finding)
        known = [('pathspec-equals-pinned-option', z3.BoolVal(any(concrete_bytes(t) is not None and bytes(concrete_bytes(t)).decode() in PINNED[profile] for t in tail[1:])))]
    # (a) every neutralising option is present before `--`
    for p in PINNED[profile]:
        present = any_of([bytes_equal(t, list(p.encode())) for t in mid])
        h.require(present, 'K1-pinned-present', 'pinned option %s missing before `--`' % p, known)
    # (b) no conflicting user option survives before `--`
    surv = False
    for t in mid:
        if conflicts(P, t, profile):
            surv = True
    h.require(not surv, 'K1-no-conflict-survives', 'a conflicting user option survived before `--`')
    # every other user token is preserved, in order (tokens spelling a pinned option may move: harmless)
    def is_pinned(t):
        return any(tok_is(P, t, p) for p in PINNED[profile])
    user_mid = toks[ci + 1: dd if dd is not None else len(toks)]
    kept = []
    i = 0
    while i < len(user_mid):
        t = user_mid[i]
        if any(tok_is(P, t, x) for x in CONFLICT_SPLIT[profile]):
            i += 2
            continue
        if conflicts(P, t, profile) or is_pinned(t):
            i += 1
            continue
        kept.append(t)
        i += 1
    rest = [t for t in mid if not is_pinned(t)]
    okk = len(kept) == len(rest) and all_of([bytes_equal(a, b) for a, b in zip(rest, kept)])
    h.require(okk, 'K1-user-options-preserved', 'non-conflicting user options were dropped, duplicated or reordered', known)
    h.sample = h.witness()


def ob_general(h, shape):
    P = h.P
    toks = [[h.byte('t%d_%d' % (i, k), lo=0x21, hi=0x7e) for k in range(2)] for i in range(shape['n'])]
    h.inputs_struct = {'profile': 'General', 'args': [ByteStr(t) for t in toks]}
    out = call_profile(P, toks, 'General')
    h.require(len(out) == len(toks) and all_of([bytes_equal(a, b) for a, b in zip(out, toks)]), 'K1-general-identity',
              'General profile changed the arguments')
    h.sample = h.witness()


def _install_root(M):
    from mirsym.models.paths import mk_pathbuf
    def exec_git(P, c, args, dt):
        st = P.state.get('c12_root')
        if st is None:
            raise Unsupported('exec_git without a harness answer')
        argv = []
        for a in elems_of(args[0]):
            b = concrete_bytes(as_bytes(a))
            argv.append(bytes(b).decode() if b is not None else 'KV')
        eff = git_effective_dir(st['cwd'], argv)
        if not (eff == '/r' or eff.startswith('/r/')):
            return err(mk_enum(P.M, 'error::GitAiError', 'GitCliError', some(Sc(128, 32, True)), pystring('fatal: not a git repository'), VecV([])))
        if 'rev-parse' not in argv:
            raise Unsupported('exec_git %r' % argv)
        if '--show-toplevel' in argv:
            out = '/r\n'
        else:
            gd = '.git' if eff == '/r' else '/r/.git'
            out = 'false\n%s\n%s\n' % (gd, gd)
        P.events.append(('rev_parse', eff))
        return ok(Agg('std::process::Output', [Opaque('ExitStatus', 0), VecV([Sc(b, 8) for b in out.encode()]), VecV([])]))

    def current_dir(P, c, args, dt):
        st = P.state.get('c12_root')
        if st is None:
            raise Unsupported('current_dir without a harness answer')
        return ok(mk_pathbuf(list(st['cwd'].encode())))

    def storage(P, c, args, dt):
        return Opaque('RepoStorage', None)
    M.env['git::repository::exec_git'] = exec_git
    M.env['std::env::current_dir'] = current_dir
    M.env['git::repo_storage::RepoStorage::for_repo_path'] = storage
    M.env['git::repo_storage::RepoStorage::for_isolated_worktree_storage'] = storage


def install(M):
    _install_root(M)
    def should_disable(P, c, args, dt):
        return P.state.get('hooks_disabled', FALSE)
    M.env['git::repository::should_disable_internal_git_hooks'] = should_disable

    def global_args(P, c, args, dt):
        return VecV([pystring('-C'), pystring('/w')])

    def exec_with_profile(P, c, args, dt):
        if 'c12_calls' not in P.state:
            raise Unsupported('exec_git_with_profile outside the call-site kernel')
        # what reaches git: the real pinning applied to the arguments of the call site
        eff = P.call_named('git::repository::args_with_internal_git_profile', [args[0], args[1]])
        P.state['c12_calls'].append([list(as_bytes(x)) for x in eff.e])
        return ok(Agg('std::process::Output', [Opaque('ExitStatus', 0), VecV([]), VecV([])]))
    M.env['git::repository::Repository::global_args_for_exec'] = global_args
    M.env['git::repository::exec_git_with_profile'] = exec_with_profile


def ob_hooks(h, shape):
    """internal git calls never run user hooks: with the guard active, core.hooksPath is overridden
    unless the caller already overrides it; with the guard inactive the args are untouched"""
    P = h.P
    which = h.choice(4)
    base = [list(b'status'), [h.byte('a_%d' % k, lo=0x21, hi=0x7e) for k in range(3)]]
    if which == 1:
        base = [list(b'-c'), list(b'core.hooksPath=/x')] + base
    elif which == 2:
        base = [list(b'-ccore.hooksPath=/x')] + base
    elif which == 3:
        base = [list(b'-c'), list(b'user.name=x')] + base
    guard = h.choice(2) == 1
    P.state['hooks_disabled'] = TRUE if guard else FALSE
    h.inputs_struct = {'args': [ByteStr(t) for t in base], 'guard': guard}
    args = VecV([StringV(t) for t in base])
    r = P.call_named(REPO + '::args_with_disabled_hooks_if_needed', [SliceRef(args, 0, len(base))])
    out = [list(s.buf.b) for s in r.e]
    same = len(out) == len(base) and all_of([bytes_equal(a, b) for a, b in zip(out, base)])
    if not guard or which in (1, 2):
        h.require(same, 'K1-hooks-args-untouched', 'arguments changed although no override was needed')
    else:
        ok_ = len(out) == len(base) + 2 and bytes_equal(out[0], list(b'-c')) is True and \
            concrete_bytes(out[1]) is not None and bytes(concrete_bytes(out[1])).startswith(b'core.hooksPath=') and \
            all_of([bytes_equal(a, b) for a, b in zip(out[2:], base)])
        h.require(ok_, 'K1-hooks-disabled', 'internal call does not neutralise core.hooksPath')
    h.sample = h.witness()


REQUIRED_PATCH = ['-U0', '--no-ext-diff', '--no-textconv', '--no-color', '--no-renames', '--no-relative', '--src-prefix=a/', '--dst-prefix=b/']
CALLSITES = {
    'diff_added_lines': ('git::repository::Repository::diff_added_lines', 2),
    'diff_workdir_added_lines': ('git::repository::Repository::diff_workdir_added_lines', 1),
    'diff_workdir_added_lines_with_insertions': ('git::repository::Repository::diff_workdir_added_lines_with_insertions', 1),
}


REQUIRED_NUMSTAT = ['--numstat', '--no-ext-diff', '--no-textconv', '--no-color', '--no-relative', '--no-renames']
# numstat readers: (function, arguments after the repository); they sum `added<TAB>deleted<TAB>path` rows, and rename
# detection (diff.renames, on by default) turns a moved file into one `old => new` row with different counts
NUMSTAT_SITES = {
    'get_git_diff_stats': ('authorship::stats::get_git_diff_stats', 'sha+ignore'),
    'get_git_diff_stats_for_range': ('authorship::range_authorship::get_git_diff_stats_for_range', 'range+ignore'),
}


def ob_numstat_site(h, shape):
    """K3b: the numstat text git-ai sums is produced with rename detection and every other configuration-dependent
    rendering switched off - judged on the argv that finally reaches git"""
    P = h.P
    fn, kind = NUMSTAT_SITES[shape['fn']]
    P.state['c12_calls'] = []
    h.inputs_struct = {'fn': shape['fn']}
    repo = Agg('git::repository::Repository', [])
    pats = VecV([])
    args = [Ref(Cell(repo)), pystr('c0ffee')] + ([pystr('c1ffee')] if kind == 'range+ignore' else []) + [SliceRef(pats, 0, 0)]
    try:
        P.call_named(fn, args)
    except Panic as e:
        h.panic('K3-no-panic', e.msg)
        return
    calls = P.state['c12_calls']
    h.require(len(calls) == 1, 'K3-one-git-call', '%d git calls' % len(calls))
    if len(calls) != 1:
        return
    final = calls[0]
    cut = len(final)
    for i, t in enumerate(final):
        if concrete_bytes(t) == b'--':
            cut = i
            break
    opts = [bytes(concrete_bytes(t)).decode() if concrete_bytes(t) is not None else None for t in final[:cut]]
    missing = [o for o in REQUIRED_NUMSTAT if o not in opts]
    h.require(not missing, 'K3-numstat-call-neutralises-configuration',
              '`git %s` as git-ai finally runs it lacks %r: the numbers it sums depend on the user\'s configuration' % (' '.join(x or '?' for x in opts), missing))
    h.sample = h.witness()


def ob_callsite(h, shape):
    """K3: the patches git-ai parses for added lines are produced with every configuration-dependent rendering
    neutralised — judged on the argv that finally reaches git (explicit arguments + profile pinning)"""
    P = h.P
    M = P.M
    fn, nrefs = CALLSITES[shape['fn']]
    np_ = shape['paths']
    paths = None
    if np_ is not None:
        paths = [[h.byte('p%d_%d' % (i, j), lo=0x21, hi=0x7e) for j in range(2)] for i in range(np_)]
    P.state['c12_calls'] = []
    h.inputs_struct = {'fn': shape['fn'], 'pathspecs': [ByteStr(p) for p in paths] if paths is not None else None}
    repo = Agg('git::repository::Repository', [])
    args = [Ref(Cell(repo))] + [pystr('r%d' % i) for i in range(nrefs)]
    if paths is None:
        args.append(none())
    else:
        args.append(some(Ref(Cell(MapV('hash', [[StringV(list(p)), None] for p in paths], 'set')))))
    try:
        r = P.call_named(fn, args)
    except Panic as e:
        h.panic('K3-no-panic', e.msg)
        return
    calls = P.state['c12_calls']
    if paths is not None and len(paths) == 0:
        h.require(not calls, 'K3-empty-filter-asks-nothing', 'an empty pathspec filter still ran git (the diff would cover the whole repository)')
        h.sample = h.witness()
        return
    h.require(len(calls) == 1, 'K3-one-git-call', '%d git calls' % len(calls))
    if len(calls) != 1:
        return
    final = calls[0]
    cut = len(final)
    for i, t in enumerate(final):
        if concrete_bytes(t) == b'--':
            cut = i
            break
    opts = [bytes(concrete_bytes(t)).decode() if concrete_bytes(t) is not None else None for t in final[:cut]]
    missing = [o for o in REQUIRED_PATCH if o not in opts]
    h.require(not missing, 'K3-patch-call-neutralises-configuration',
              '`git %s` as git-ai finally runs it lacks %r: the parsed patch depends on the user\'s configuration' % (' '.join(x or '?' for x in opts), missing))
    if paths is not None:
        tail = final[cut + 1:]
        h.require(len(tail) == len(paths) and any_of([all_of([bytes_equal(a, b) for a, b in zip(tail, perm)]) for perm in itertools.permutations(paths)]),
                  'K3-pathspecs-passed-after-the-separator', 'the pathspecs after `--` are not the requested paths')
    h.sample = h.witness()



# ---------------------------------------------------------------------------
# K4: where internal commands run

def git_effective_dir(cwd, argv):
    """git's own rule: every `-C <path>` changes directory, relative to the preceding one"""
    import posixpath
    d = cwd
    i = 0
    while i < len(argv):
        if argv[i] == '-C' and i + 1 < len(argv):
            d = argv[i + 1] if argv[i + 1].startswith('/') else posixpath.normpath(posixpath.join(d, argv[i + 1]))
            i += 2
            continue
        i += 1
    return posixpath.normpath(d)


ROOT_SHAPES = [
    # (process cwd, the user's global options; KV = a symbolic key=value)
    ('/r', []), ('/r/sub', []),
    ('/r', ['-C', 'sub']), ('/r/sub', ['-C', '..']), ('/elsewhere', ['-C', '/r/sub']), ('/elsewhere', ['-C', '/r']),
    ('/r/sub', ['-c', 'KV']), ('/r', ['-c', 'KV']), ('/r/sub', ['--no-pager']), ('/r/sub', ['-c', 'KV', '--no-pager']),
    ('/r', ['-C', 'sub', '-c', 'KV']), ('/r', ['-c', 'KV', '-C', 'sub']), ('/elsewhere', ['--no-pager', '-C', '/r/sub']),
    ('/r', ['-C', 'sub', '-C', '..']), ('/elsewhere', ['-C', '/r', '-C', 'sub']), ('/r/sub', ['-c', 'KV', '-c', 'KV']),
    ('/r/sub', ['--literal-pathspecs']), ('/r/sub', ['--exec-path=/x']),
]


def ob_repo_root(h, shape):
    """K4: whatever global options the user typed and whatever directory git was started in, the commands git-ai runs
    itself (diffs and status with root-relative pathspecs) run from the repository root: find_repository is executed
    with git answering rev-parse from a model work tree (/r with a subdirectory), and the option vector it keeps for
    internal commands is judged by git's own -C rule"""
    P = h.P
    M = P.M
    cwd, opts = ROOT_SHAPES[shape['i']]
    kv = [h.byte_in('k0', [97, 122]), 46] + list(b'b=') + [h.byte_in('v0', [49, 32, 45])]
    argv = [StringV(list(kv)) if o == 'KV' else pystring(o) for o in opts]
    P.state['cwd'] = cwd
    P.state['fs'] = {'/r': 'DIR', '/r/.git': 'DIR', '/r/sub': 'DIR', '/elsewhere': 'DIR'}
    P.state['c12_root'] = {'cwd': cwd}
    h.inputs_struct = {'cwd': cwd, 'options': opts, 'kv': ByteStr(kv)}
    v = VecV(argv)
    try:
        r = P.call_named('git::repository::find_repository', [SliceRef(v, 0, len(argv))])
    except Panic as e:
        h.panic('K4-no-panic', e.msg)
        return
    h.require(r.var == 'Ok', 'K4-repository-is-found', 'find_repository failed inside a work tree')
    if r.var != 'Ok':
        return
    repo = r.f[0]
    ga = field(M, repo, 'git::repository::Repository', 'global_args')
    kept = []
    for a in ga.e:
        b = concrete_bytes(as_bytes(a))
        kept.append(bytes(b).decode() if b is not None else 'KV')
    eff = git_effective_dir(cwd, kept)
    h.require(eff == '/r', 'K4-internal-commands-run-from-the-repository-root',
              'started in %s with global options %r, git-ai keeps %r for its own git commands: they run in %s, where root-relative pathspecs match nothing' % (cwd, opts, kept, eff))
    # the user's configuration options are still passed on
    for o in opts:
        if o in ('-c', '--no-pager', '--literal-pathspecs', '--exec-path=/x', 'KV'):
            h.require(o in kept, 'K4-user-options-are-kept', 'option %s was dropped from the internal invocations' % o)
    h.sample = h.witness()


OBLIGATIONS = {'numstat_site': ob_numstat_site, 'repo_root': ob_repo_root, 'pin': ob_pin, 'general': ob_general, 'hooks': ob_hooks, 'callsite': ob_callsite}


def _replay_callsite(v, native):
    import json
    import os
    import shutil
    import subprocess
    import tempfile
    inp = v['inputs']
    tmp = tempfile.mkdtemp(prefix='vc12c')
    try:
        repo = os.path.join(tmp, 'r')
        os.makedirs(repo)
        env = dict(os.environ, HOME=tmp, GIT_AUTHOR_NAME='v', GIT_AUTHOR_EMAIL='v@v', GIT_COMMITTER_NAME='v', GIT_COMMITTER_EMAIL='v@v')
        subprocess.run(['git', 'init', '-q', '.'], cwd=repo, env=env, check=True)
        open(os.path.join(repo, 'f'), 'w').write('x\n')
        subprocess.run(['git', 'add', '-A'], cwd=repo, env=env, check=True)
        subprocess.run(['git', 'commit', '-q', '-m', 'c'], cwd=repo, env=env, check=True)
        rec = os.path.join(tmp, 'argv.json')
        real = shutil.which('git')
        stand = os.path.join(tmp, 'standin-git')
        with open(stand, 'w') as fh:
            fh.write('#!/usr/bin/env python3\nimport sys, os, json\n'
                     'if "diff" in sys.argv[1:]:\n    json.dump(sys.argv[1:], open(%r, "w"))\n    sys.exit(0)\n'
                     'os.execv(%r, [%r] + sys.argv[1:])\n' % (rec, real, real))
        os.chmod(stand, 0o755)
        os.makedirs(os.path.join(tmp, '.git-ai'))
        json.dump({'git_path': stand}, open(os.path.join(tmp, '.git-ai', 'config.json'), 'w'))
        exe = native.__globals__['replay_binary']()
        payload = {'repo': repo, 'fn': inp['fn'], 'pathspecs': inp['pathspecs']}
        p = subprocess.run([exe, 'c12_callsite'], input=json.dumps(payload).encode(), stdout=subprocess.PIPE, stderr=subprocess.PIPE, env=env, timeout=60)
        if p.returncode == 101:
            return {'reproduced': v['kind'] == 'panic', 'stderr': p.stderr.decode('utf-8', 'replace')[-300:]}
        got = json.load(open(rec)) if os.path.exists(rec) else None
        ob = v['obligation']
        if ob == 'K3-empty-filter-asks-nothing':
            return {'reproduced': got is not None, 'argv': got}
        if got is None:
            return {'reproduced': ob == 'K3-one-git-call', 'argv': None}
        cut = got.index('--') if '--' in got else len(got)
        missing = [o for o in REQUIRED_PATCH if o not in got[:cut]]
        want = sorted(bytes_of_json(x).decode('utf-8') for x in (inp['pathspecs'] or []))
        bad = {'K3-patch-call-neutralises-configuration': bool(missing),
               'K3-pathspecs-passed-after-the-separator': inp['pathspecs'] is not None and sorted(got[cut + 1:]) != want}
        return {'reproduced': bool(bad.get(ob)), 'argv': got, 'missing': missing}
    finally:
        subprocess.call(['rm', '-rf', tmp])


def _replay_repo_root(v, native):
    """K4 natively: a real work tree with a subdirectory; the real find_repository with the counterexample's options,
    started in the counterexample's directory; real git says where the kept option vector makes it run"""
    import os
    import subprocess
    import tempfile
    inp = v['inputs']
    tmp = os.path.realpath(tempfile.mkdtemp(prefix='vc12r'))
    try:
        os.makedirs(os.path.join(tmp, 'r', 'sub'))
        os.makedirs(os.path.join(tmp, 'elsewhere'))
        env = dict(os.environ, HOME=tmp, GIT_CONFIG_NOSYSTEM='1')
        subprocess.run(['git', 'init', '-q', os.path.join(tmp, 'r')], env=env, check=True, stdout=subprocess.PIPE, stderr=subprocess.PIPE)
        kv = bytes_of_json(inp['kv']).decode()
        opts = [kv if o == 'KV' else ((tmp + o) if o.startswith('/r') else o) for o in inp['options']]
        r = native('c12_repo_root', {'cwd': tmp + inp['cwd'], 'options': opts})
        if 'panic' in r:
            return {'reproduced': v['kind'] == 'panic', 'native': r}
        if v['kind'] == 'panic':
            return {'reproduced': False, 'native': r}
        bad = {'K4-repository-is-found': not r.get('ok'),
               'K4-internal-commands-run-from-the-repository-root': bool(r.get('ok')) and r.get('prefix') != '',
               'K4-user-options-are-kept': bool(r.get('ok')) and not all(o in r.get('kept', []) for o in opts if not o.startswith(tmp) and o not in ('-C', 'sub', '..'))}
        return {'reproduced': bool(bad.get(v['obligation'])), 'native': r}
    finally:
        subprocess.call(['rm', '-rf', tmp])


def _replay_numstat_site(v, native):
    """a real commit that moves a ten-line file and edits one line, in a repository whose configuration asks for
    rename detection: the real reader must report what git reports with detection off (10 added, 10 deleted)"""
    import os
    import subprocess
    import tempfile
    if v['inputs'].get('fn') != 'get_git_diff_stats':
        return {'reproduced': False, 'note': 'only the per-commit reader is reachable natively'}
    tmp = tempfile.mkdtemp(prefix='vc12n')
    env = dict(os.environ, GIT_AUTHOR_NAME='v', GIT_AUTHOR_EMAIL='v@v', GIT_COMMITTER_NAME='v', GIT_COMMITTER_EMAIL='v@v', HOME=tmp, GIT_CONFIG_NOSYSTEM='1')

    def git(*a):
        p = subprocess.run(['git'] + list(a), cwd=tmp, env=env, stdout=subprocess.PIPE, stderr=subprocess.PIPE)
        if p.returncode != 0:
            raise RuntimeError('git %r: %s' % (a, p.stderr.decode()))
        return p.stdout.decode()
    try:
        git('init', '-q', '.')
        git('config', 'diff.renames', 'true')
        open(os.path.join(tmp, 'a.txt'), 'w').write(''.join('line %d\n' % i for i in range(10)))
        git('add', '-A')
        git('commit', '-q', '-m', 'a')
        git('mv', 'a.txt', 'b.txt')
        open(os.path.join(tmp, 'b.txt'), 'w').write(''.join('line %d\n' % i for i in range(9)) + 'changed\n')
        git('add', '-A')
        git('commit', '-q', '-m', 'move and edit')
        sha = git('rev-parse', 'HEAD').strip()
        r = native('c19_numstat', {'repo': tmp, 'sha': sha, 'ignore': [], 'expect_added': 10, 'expect_deleted': 10})
        if 'panic' in r:
            return {'reproduced': v['kind'] == 'panic', 'native': r}
        return {'reproduced': v['obligation'] == 'K3-numstat-call-neutralises-configuration' and bool(r.get('failed')), 'native': r}
    finally:
        subprocess.call(['rm', '-rf', tmp])


def replay(v, native):
    if v['obligation'] == 'K3-numstat-call-neutralises-configuration' or (v['inputs'].get('fn') in NUMSTAT_SITES):
        return _replay_numstat_site(v, native)
    if v['obligation'].startswith('K4-'):
        return _replay_repo_root(v, native)
    if 'fn' in v['inputs']:
        return _replay_callsite(v, native)
    inp = v['inputs']
    if v['obligation'].startswith('K1-hooks'):
        return {'reproduced': False, 'note': 'hooks guard is thread-local state; replay not implemented'}
    args = [bytes_of_json(t).decode('utf-8') for t in inp['args']]
    r = native('c12_profile', {'profile': inp['profile'], 'args': args})
    if 'panic' in r:
        return {'reproduced': v['kind'] == 'panic', 'native': r}
    if v['kind'] == 'panic':
        return {'reproduced': False, 'native': r}
    out = r['out']
    profile = inp['profile']
    # concrete re-evaluation of the obligation on the native output
    try:
        ci = _cmd_index(args)
    except ValueError:
        return {'reproduced': False, 'native': r, 'note': 'no subcommand'}
    dd = None
    for i in range(ci + 1, len(args)):
        if args[i] == '--':
            dd = i
            break
    tail = args[dd:] if dd is not None else []
    mid = out[ci + 1: len(out) - len(tail)]

    def conf(t):
        if t in PINNED[profile]:
            return False
        return t in CONFLICT_EXACT[profile] or any(t.startswith(x) for x in CONFLICT_PREFIX[profile]) or t in CONFLICT_SPLIT[profile]
    ob = v['obligation']
    if ob == 'K1-prefix-untouched':
        bad = out[:ci + 1] != args[:ci + 1]
    elif ob == 'K1-pathspecs-untouched':
        bad = out[len(out) - len(tail):] != tail
    elif ob == 'K1-pinned-present':
        bad = profile != 'General' and any(p not in mid for p in PINNED[profile])
    elif ob == 'K1-no-conflict-survives':
        bad = any(conf(t) for t in mid)
    elif ob == 'K1-idempotent':
        r2 = native('c12_profile', {'profile': profile, 'args': out})
        bad = r2.get('out') != out
    elif ob == 'K1-general-identity':
        bad = out != args
    else:
        user_mid = args[ci + 1: dd if dd is not None else len(args)]
        kept = []
        i = 0
        while i < len(user_mid):
            t = user_mid[i]
            if t in CONFLICT_SPLIT[profile]:
                i += 2
                continue
            if conf(t) or t in PINNED[profile]:
                i += 1
                continue
            kept.append(t)
            i += 1
        bad = [t for t in mid if t not in PINNED[profile]] != kept
    return {'reproduced': bool(bad), 'native': r}


def _cmd_index(args):
    i = 0
    while i < len(args):
        a = args[i]
        if not a.startswith('-'):
            return i
        i += 2 if a in ('-C', '-c', '--git-dir', '--work-tree', '--namespace', '--super-prefix', '--config-env') else 1
    raise ValueError('no command')
