"""C06 — running git through git-ai is indistinguishable from running git (narrow: the hand-off only).

Encoded from MIR: commands::git_handlers::{proxy_to_git, has_explicit_hooks_path_override,
install/uninstall_forwarding_handlers, exit_with_status}; std::process::Command is a recorder and the
child is a model returning a symbolic exit status.
"""
import itertools
import z3
from harness.lib import *

ID = 'C06'
GH = 'commands::git_handlers'
CFG = {'max_steps': 400000}

BOUNDS = {
    'quick': 'argv of <=3 tokens: fully symbolic 2-3 byte tokens, `-c`, `core.hooksPath=<1 symbolic byte>`, `-ccore.hooksPath=x`, `--config=core.hooksPath=x`, `commit`; hooks-path override absent / present (3 symbolic bytes); isatty symbolic; child status = symbolic exit code 0..255 or symbolic signal; spawn failure and wait failure; exit_with_status with a symbolic exit code 0..255 / symbolic signal 1..64',
    'thorough': 'argv of <=4 tokens',
}
OUTSIDE = 'everything that happens inside git and inside the hooks around the hand-off: equality of HEAD / refs / index / worktree / stdout with a twin repository is behaviour of the git binary and of hook side effects on disk — not encodable, not claimed; that handle_git passes parsed_args.to_invocation_vec() (call-site fact; the vector itself is decided under C18)'
ASSUMPTIONS = [
    'std::process::Command records builder calls; the child returns an arbitrary status; Config::get().git_cmd() is the configured git path',
    'death of the wrapper by the re-raised signal is modelled as the end of the path',
]


def install(M):
    from harness import c07
    c07.install(M)

    def cfg_get(P, c, args, dt):
        return Ref(Cell(Agg('config::Config', [])))

    def git_cmd(P, c, args, dt):
        return pystr('/usr/bin/git')
    M.env['config::Config::get'] = cfg_get
    M.env['config::Config::git_cmd'] = git_cmd


TOK = [('sym', 2), ('sym', 3), ('lit', '-c'), ('hp', None), ('lit', '-ccore.hooksPath=x'), ('lit', '--config=core.hooksPath=x'), ('lit', 'commit')]


def plan(tier, seed):
    tasks = []
    nmax = 3 if tier == 'quick' else 4
    shapes = []
    for n in range(0, nmax + 1):
        for combo in itertools.product(range(len(TOK)), repeat=n):
            shapes.append([list(TOK[i]) for i in combo])
    for ov in (False, True):
        for child in ('code', 'signal', 'spawn_fails', 'wait_fails'):
            sub = shapes if child == 'code' else shapes[::9]
            B = 40
            for i in range(0, len(sub), B):
                tasks.append(('handoff', {'override': ov, 'child': child, 'shapes': sub[i:i + B], 'exit_on_completion': False}))
    tasks.append(('handoff', {'override': True, 'child': 'code', 'shapes': [[['lit', 'commit']]], 'exit_on_completion': True}))
    for kind in ('exit', 'signal'):
        tasks.append(('exit_status', {'kind': kind}))
    return tasks


def ob_handoff(h, shape):
    P = h.P
    sh = shape['shapes'][h.choice(len(shape['shapes']))]
    toks = []
    for i, (k, x) in enumerate(sh):
        if k == 'lit':
            toks.append(list(x.encode()))
        elif k == 'hp':
            toks.append(list(b'core.hooksPath=') + [h.byte('hp%d' % i, lo=0x21, hi=0x7e)])
        else:
            toks.append([h.byte('t%d_%d' % (i, j), lo=0x21, hi=0x7e) for j in range(x)])
    ov = [h.byte('ov%d' % j, lo=0x21, hi=0x7e) for j in range(3)] if shape['override'] else None
    child = shape['child']
    if child == 'signal':
        sig = Sc(P.input_bv('sig', 32), 32, True)
        P.assume(z3.And(sig.v >= 1, sig.v <= 64))
        status = Opaque('ExitStatus', {'code': none(), 'signal': some(sig)})
    else:
        code = Sc(P.input_bv('code', 32), 32, True)
        P.assume(z3.And(code.v >= 0, code.v <= 255))
        status = Opaque('ExitStatus', {'code': some(code), 'signal': none()})
    h.shape = {'toks': sh, 'override': shape['override'], 'child': child}
    h.inputs_struct = {'args': [ByteStr(t) for t in toks], 'override': ByteStr(ov) if ov else None, 'child': child}

    def spawn(P2, rec):
        if child == 'spawn_fails':
            return None
        return {'status': status, 'wait_fails': child == 'wait_fails'}
    P.state['spawn'] = spawn
    args = VecV([StringV(t) for t in toks])
    ret = None
    exited = None
    try:
        ret = P.call_named(GH + '::proxy_to_git', [SliceRef(args, 0, len(toks)), Sc(bool(shape['exit_on_completion']), 0),
                                                  some(mk_str(ov)) if ov else none()])
    except ProcessExit as e:
        exited = e.code
    except Panic as e:
        h.panic('no-panic', e.msg)
        return
    spawns = [e[1] for e in P.events if e[0] == 'spawn']
    h.require(len(spawns) == 1, 'exactly-one-child', '%d child processes spawned' % len(spawns))
    if len(spawns) != 1:
        return
    rec = spawns[0]
    h.require(bytes_equal(rec['program'], list(b'/usr/bin/git')) is True, 'child-is-configured-git', 'the child is not the configured git')
    # the user passed a hooks path of their own?
    def is_(t, s):
        return P.branch(bytes_eq(list(t), list(s.encode()))) if len(t) == len(s) else False

    def pre(t, s):
        b = list(s.encode())
        return len(t) >= len(b) and P.branch(bytes_eq(list(t[:len(b)]), b))
    explicit = any(pre(t, '-ccore.hooksPath=') or pre(t, '--config=core.hooksPath=') for t in toks) or \
        any(is_(toks[i], '-c') and pre(toks[i + 1], 'core.hooksPath=') for i in range(len(toks) - 1))
    want = []
    if ov is not None and not explicit:
        want = [list(b'-c'), list(b'core.hooksPath=') + ov]
    want += toks
    got = rec['args']
    h.require(len(got) == len(want) and all_of([bytes_equal(a, b) for a, b in zip(got, want)]), 'argv-verbatim',
              'the child\'s argv is not the given vector (plus exactly the hooks-path override when one applies)')
    # the child gets its own process group exactly when stdin is not a terminal (a foreground read from a
    # background group stops the child: SIGTTIN), and then the wrapper forwards the terminating signals to it
    # whether each descriptor is a terminal is a fact of the environment, asked about or not: the answers the
    # code never asked for are drawn here, so that a decision taken on another descriptor is judged on stdin too
    from mirsym.models.process import _tty
    ev = P.events
    b_ = [i for i, e in enumerate(ev) if e[0] == 'pre_exec_begin']
    e_ = [i for i, e in enumerate(ev) if e[0] == 'pre_exec_end']
    own_group = bool(b_ and e_ and any(e[0] == 'setpgid' for e in ev[b_[0]:e_[0]]))
    is_tty = P.branch(binop('Eq', _tty(P, 0), Sc(1, 32, True)))
    h.inputs_struct['stdin_tty'] = bool(is_tty)
    h.inputs_struct['stdout_tty'] = bool(P.branch(binop('Eq', _tty(P, 1), Sc(1, 32, True))))
    h.require(own_group == (not is_tty), 'own-process-group-iff-stdin-is-not-a-terminal',
              'stdin %s a terminal, child %s its own process group' % ('is' if is_tty else 'is not', 'gets' if own_group else 'does not get'))
    if own_group and child not in ('spawn_fails',):
        sigs = []
        for e in ev:
            if e[0] == 'signal' and isinstance(e[1], Sc) and e[1].concrete:
                sigs.append(e[1].v)
        h.require({15, 2, 1, 3} <= set(sigs), 'terminating-signals-are-forwarded',
                  'with the child in its own group the wrapper installs handlers for %r only (TERM=15 INT=2 HUP=1 QUIT=3 must reach git)' % sorted(set(sigs)))
    h.require(rec['stdio'] == [] and rec['cwd'] is None, 'stdio-inherited', 'stdin/stdout/stderr or the working directory of the child were redirected')
    envs = [(bytes(concrete_bytes(k) or b'?'), bytes(concrete_bytes(v) or b'?')) for k, v in rec['env']]
    h.require(envs == [(b'GITAI_SKIP_MANAGED_HOOKS', b'1')] and rec['env_removed'] == [], 'environment-untouched',
              'the child\'s environment differs from the wrapper\'s by more than the skip-managed-hooks marker: %r' % (envs,))
    if child in ('code', 'signal') and not shape['exit_on_completion']:
        h.require(ret is status, 'status-is-the-childs', 'the returned status is not the child\'s')
    elif child in ('spawn_fails', 'wait_fails'):
        h.require(isinstance(exited, Sc) and exited.concrete and exited.v == 1, 'failure-to-run-git-exits-1', 'failing to run git did not exit with status 1')
    elif shape['exit_on_completion']:
        h.require(isinstance(exited, Sc) and binop('Eq', exited, code), 'exit-code-is-the-childs', 'exit code differs from the child\'s')
    h.sample = h.witness()


def ob_exit_status(h, shape):
    """the wrapper ends the way git ended: same exit code, or death by the same signal (kernel shared with C07)"""
    from harness import c07
    c07.ob_exit_status(h, shape)


OBLIGATIONS = {'handoff': ob_handoff, 'exit_status': ob_exit_status}


def _replay_group_and_signals(v, native):
    """the real proxy with a stand-in git that reports its process group and the signals it receives"""
    import json
    import os
    import pty
    import signal
    import subprocess
    import tempfile
    import time
    inp = v['inputs']
    tmp = tempfile.mkdtemp(prefix='vc06g')
    try:
        rec = os.path.join(tmp, 'recgit')
        out = os.path.join(tmp, 'rec.json')
        started = os.path.join(tmp, 'started')
        with open(rec, 'w') as f:
            f.write('#!/usr/bin/env python3\nimport os, sys, json, signal, time\n'
                    'got = []\n'
                    'def hnd(s, fr):\n    got.append(s)\n'
                    'for s in (1, 2, 3, 15):\n    signal.signal(s, hnd)\n'
                    'json.dump({"own_group": os.getpgrp() == os.getpid()}, open(%r, "w"))\n'
                    'open(%r, "w").write("x")\n'
                    'end = time.time() + float(os.environ.get("VREC_WAIT", "0"))\n'
                    'while time.time() < end and not got:\n    time.sleep(0.05)\n'
                    'json.dump({"own_group": os.getpgrp() == os.getpid(), "signals": got}, open(%r, "w"))\n' % (out, started, out))
        os.chmod(rec, 0o755)
        os.makedirs(os.path.join(tmp, '.git-ai'))
        json.dump({'git_path': rec}, open(os.path.join(tmp, '.git-ai', 'config.json'), 'w'))
        inf = os.path.join(tmp, 'input.json')
        json.dump({'args': [{'utf8': 'status'}], 'override': None, 'exit_on_completion': False}, open(inf, 'w'))
        exe = native.__globals__['replay_binary']()
        ob = v['obligation']
        env = {'HOME': tmp, 'PATH': os.environ.get('PATH', ''), 'VREPLAY_INPUT': inf, 'VREC_WAIT': '4' if ob == 'terminating-signals-are-forwarded' else '0'}
        want_tty = bool(inp.get('stdin_tty')) and ob != 'terminating-signals-are-forwarded'
        out_tty = bool(inp.get('stdout_tty')) and ob != 'terminating-signals-are-forwarded'
        master, slave = pty.openpty()
        p = subprocess.Popen([exe, 'c06_handoff'], stdin=slave if want_tty else subprocess.PIPE,
                             stdout=slave if out_tty else subprocess.PIPE, stderr=subprocess.PIPE, env=env)
        sent = None
        if ob == 'terminating-signals-are-forwarded':
            t0 = time.time()
            while not os.path.exists(started) and time.time() - t0 < 20:
                time.sleep(0.05)
            time.sleep(0.2)
            sent = signal.SIGHUP
            p.send_signal(sent)
        try:
            p.wait(timeout=30)
        except subprocess.TimeoutExpired:
            p.kill()
        time.sleep(0.3)
        got = json.load(open(out)) if os.path.exists(out) else None
        if got is None:
            return {'reproduced': False, 'note': 'the stand-in git did not run'}
        if ob == 'own-process-group-iff-stdin-is-not-a-terminal':
            return {'reproduced': got['own_group'] == want_tty, 'native': got, 'stdin_tty': want_tty}
        return {'reproduced': int(sent) not in got.get('signals', []), 'native': got, 'sent': int(sent)}
    finally:
        subprocess.call(['rm', '-rf', tmp])


def replay(v, native):
    """run the real proxy with a recording stand-in for git (configured through HOME/.git-ai/config.json)
    and compare what the stand-in received"""
    import json
    import os
    import subprocess
    import tempfile
    inp = v['inputs']
    if v['obligation'].startswith('K1-'):
        from harness import c07
        return c07.replay_exit_status(v, native)
    if v['obligation'] in ('own-process-group-iff-stdin-is-not-a-terminal', 'terminating-signals-are-forwarded'):
        return _replay_group_and_signals(v, native)
    tmp = tempfile.mkdtemp(prefix='vc06')
    try:
        rec = os.path.join(tmp, 'recgit')
        out = os.path.join(tmp, 'rec.json')
        with open(rec, 'w') as f:
            f.write('#!/usr/bin/env python3\nimport sys, os, json\n'
                    'json.dump({"argv": sys.argv[1:], "skip": os.environ.get("GITAI_SKIP_MANAGED_HOOKS"),'
                    ' "stdin_tty_or_inherited": os.fstat(0).st_ino == int(os.environ.get("VREC_STDIN_INO", "0"))}, open(%r, "w"))\n'
                    'sys.exit(int(os.environ.get("VREC_EXIT", "0")))\n' % out)
        os.chmod(rec, 0o755)
        os.makedirs(os.path.join(tmp, '.git-ai'))
        json.dump({'git_path': rec}, open(os.path.join(tmp, '.git-ai', 'config.json'), 'w'))
        want_code = 7
        os.environ_backup = dict(os.environ)
        env = {'HOME': tmp, 'VREC_EXIT': str(want_code), 'PATH': os.environ.get('PATH', '')}
        exe = native.__globals__['replay_binary']()
        p = subprocess.run([exe, 'c06_handoff'], input=json.dumps(inp).encode(), stdout=subprocess.PIPE, stderr=subprocess.PIPE, env=env, timeout=60)
        if p.returncode == 101:
            return {'reproduced': v['kind'] == 'panic', 'stderr': p.stderr.decode('utf-8', 'replace')[-400:]}
        if v['kind'] == 'panic':
            return {'reproduced': False}
        res = json.loads(p.stdout.decode().strip().split('\n')[-1]) if p.stdout.strip() else {}
        got = json.load(open(out)) if os.path.exists(out) else None
        args = [bytes_of_json(t).decode('utf-8') for t in inp['args']]
        ov = bytes_of_json(inp['override']).decode('utf-8') if inp.get('override') else None
        explicit = any(a.startswith('-ccore.hooksPath=') or a.startswith('--config=core.hooksPath=') for a in args) or \
            any(args[i] == '-c' and args[i + 1].startswith('core.hooksPath=') for i in range(len(args) - 1))
        want = (['-c', 'core.hooksPath=' + ov] if (ov is not None and not explicit) else []) + args
        bad = {
            'exactly-one-child': got is None,
            'argv-verbatim': got is not None and got['argv'] != want,
            'environment-untouched': got is not None and got['skip'] != '1',
            'status-is-the-childs': res.get('code') != want_code,
        }
        return {'reproduced': bool(bad.get(v['obligation'])), 'recorded': got, 'want': want, 'native': res}
    finally:
        subprocess.call(['rm', '-rf', tmp])
