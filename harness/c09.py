"""C09 — AI blame is git blame plus the notes (kernels).

K1  note lookup: AuthorshipLog::get_line_attribution, LineRange::contains.
K3  overlay: commands::blame::overlay_ai_authorship over symbolic blame hunks and symbolic notes
    (refs::get_reference_as_authorship_log_v3 / grep_ai_notes / get_authorship are environment models).
"""
import itertools
import z3
from harness.lib import *

ID = 'C09'
SER = 'authorship::authorship_log_serialization'
LOG = SER + '::AuthorshipLog'
META = SER + '::AuthorshipMetadata'
FILE = SER + '::FileAttestation'
ENTRY = SER + '::AttestationEntry'
LR = 'authorship::authorship_log::LineRange'
PR = 'authorship::authorship_log::PromptRecord'
AGENT = 'authorship::working_log::AgentId'
BLAME = 'commands::blame'
HUNK = BLAME + '::BlameHunk'
OPTS = BLAME + '::GitAiBlameOptions'
CFG = {'max_steps': 800000}

BOUNDS = {
    'quick': 'K1: note with <=2 files x <=2 entries x <=2 ranges (Single/Range, arbitrary symbolic u32), 2 sessions each with a prompt record, queried line fully symbolic, queried file one of the two names or a third; K3: <=2 blame hunks of 1-2 lines with symbolic final/original starts (< 2^20), from 1-2 commits, each commit with a note (symbolic ranges), without a note, or with a note that lists the file under the name it had in that commit (rename); the three author-naming options in every combination',
    'thorough': 'K1 with 3 ranges per entry; K3 with 3 hunks',
}
OUTSIDE = 'that the hunks equal plain `git blame --line-porcelain` (git decides the commit assignment; K2 porcelain reader not encoded); agreement of the text / JSON / porcelain formatters (they consume the one line_authors map decided here); -L parsing; foreign-prompt lookup through `git grep` (environment: finds nothing)'
ASSUMPTIONS = [
    'refs::get_reference_as_authorship_log_v3 answers from a harness table commit -> note (or Err); grep_ai_notes finds nothing',
    'every session hash of a note has a prompt record in the same note (C05)',
    'hunk line numbers are below 2^20 so that range arithmetic cannot overflow',
]

TOOLS = {'h1h1h1h1h1h1h1h1': 'cursor', 'h2h2h2h2h2h2h2h2': 'claude'}
HASHES = list(TOOLS)


HUMANS = {'h1h1h1h1h1h1h1h1': 'Bob', 'h2h2h2h2h2h2h2h2': None}


def mk_prompt(M, tool, human=None):
    agent = mk_struct(M, AGENT, tool=pystring(tool), id=pystring('id-' + tool), model=pystring('m'))
    return mk_struct(M, PR, agent_id=agent, human_author=some(pystring(human)) if human else none(), messages=VecV([]), total_additions=Sc(0, 32),
                     total_deletions=Sc(0, 32), accepted_lines=Sc(0, 32), overriden_lines=Sc(0, 32), messages_url=none())


def sym_note(h, tag, files, kinds_iter, hash_shift=0, humans=False):
    """files: list of (name, n_entries, n_ranges). -> (log value, description [(file, hash, [(a,b)])])"""
    P = h.P
    M = P.M
    fas = []
    desc = []
    for fi, (name, ne, nr) in enumerate(files):
        entries = []
        for ei in range(ne):
            hk = HASHES[(ei + hash_shift) % 2]
            rs = []
            dr = []
            for ri in range(nr):
                a = Sc(P.input_bv('%s_%d_%d_%d_a' % (tag, fi, ei, ri), 32), 32)
                if next(kinds_iter) == 's':
                    rs.append(mk_enum(M, LR, 'Single', a))
                    dr.append((a, a))
                else:
                    b = Sc(P.input_bv('%s_%d_%d_%d_b' % (tag, fi, ei, ri), 32), 32)
                    rs.append(mk_enum(M, LR, 'Range', a, b))
                    dr.append((a, b))
            entries.append(mk_struct(M, ENTRY, hash=pystring(hk), line_ranges=VecV(rs)))
            desc.append((name, hk, dr))
        fas.append(mk_struct(M, FILE, file_path=pystring(name), entries=VecV(entries)))
    meta = mk_struct(M, META, schema_version=pystring('authorship/3.0.0'), git_ai_version=none(), base_commit_sha=pystring('c'),
                     prompts=MapV('btree', [[pystring(k), mk_prompt(M, t, HUMANS[k] if humans else None)] for k, t in TOOLS.items()], 'map'))
    return mk_struct(M, LOG, attestations=VecV(fas), metadata=meta), desc


def desc_json(desc):
    return [{'file': f, 'hash': hk, 'ranges': [[a, b] for a, b in rs]} for f, hk, rs in desc]


def expected_session(desc, file, line):
    """per the property: the LAST entry of that file with a range containing `line` wins.
    -> list of (z3 condition, hash or None) forming a decision list (first true condition applies)"""
    out = []
    for f, hk, rs in reversed([d for d in desc if d[0] == file]):
        cond = any_of([all_of([binop('Ge', line, a), binop('Le', line, b)]) for a, b in rs])
        out.append((cond, hk))
    return out


def install(M):
    def grep_ai_notes(P, c, args, dt):
        return ok(VecV([]))

    def get_authorship(P, c, args, dt):
        return none()

    def get_v3(P, c, args, dt):
        sha = concrete_bytes(as_bytes(args[1])).decode()
        P.events.append(('note_lookup', sha))
        t = P.state.get('notes', {})
        if sha in t and t[sha] is not None:
            return ok(clone_val(P, t[sha]))
        return err(Opaque('GitAiError', 'No authorship note found'))
    M.env['git::refs::grep_ai_notes'] = grep_ai_notes
    M.env['git::refs::get_authorship'] = get_authorship
    M.env['git::refs::get_reference_as_authorship_log_v3'] = get_v3

    def global_args(P, c, args, dt):
        return VecV([])

    def exec_git(P, c, args, dt):
        out = P.state.get('porcelain')
        if out is None:
            raise Unsupported('exec_git without a harness answer')
        P.events.append(('exec_git', [bytes(concrete_bytes(as_bytes(a)) or b'?').decode('utf-8', 'replace') for a in elems_of(args[0])]))
        return ok(Agg('std::process::Output', [Opaque('ExitStatus', 0), VecV([b if isinstance(b, Sc) else Sc(b, 8) for b in out]), VecV([])]))

    def abbrev(P, c, args, dt):
        return unit()
    def exec_git_stdin(P, c, args, dt):
        argv = [bytes(concrete_bytes(as_bytes(a)) or b'?').decode('utf-8', 'replace') for a in elems_of(args[0])]
        if 'cat-file' not in argv or '--batch-check' not in argv:
            raise Unsupported('exec_git_stdin %r without a harness answer' % (argv,))
        raw = [(b.v if isinstance(b, Sc) and b.concrete else b) for b in elems_of(args[1])]
        text = bytes(concrete_bytes(raw)).decode()
        notes = P.state.get('notes', {})
        layout = P.state.get('notes_layout', {})
        out = ''
        for line in text.split('\n'):
            if not line:
                continue
            spec = line
            path = line.split(':', 1)[1] if ':' in line else line
            sha = path.replace('/', '')
            how = layout.get(sha, 'flat')
            has = notes.get(sha) is not None
            depth = path.count('/')
            if has and ((how == 'flat' and depth == 0) or (how == 'fanout' and depth == 1) or (how == 'deep' and depth == 2)):
                out += ('%040x' % (int.from_bytes(sha.encode(), 'big') % (1 << 159))) + ' blob 10\n'
            else:
                out += spec + ' missing\n'
        P.events.append(('batch_check', text))
        return ok(Agg('std::process::Output', [Opaque('ExitStatus', 0), VecV([Sc(b, 8) for b in out.encode()]), VecV([])]))
    M.env['git::repository::Repository::global_args_for_exec'] = global_args
    M.env['git::repository::exec_git'] = exec_git
    M.env['git::repository::exec_git_stdin'] = exec_git_stdin
    M.env['commands::blame::Repository::populate_hunk_abbrev_shas'] = abbrev

    def noop(P, c, args, dt):
        return unit()

    def no_files(P, c, args, dt):
        return VecV([])

    def cfg_str(P, c, args, dt):
        return ok(none())

    def cred_new(P, c, args, dt):
        return Opaque('CredentialStore', None)

    def cred_load(P, c, args, dt):
        return ok(none())

    def println(P, c, args, dt):
        return unit()
    M.env['authorship::prompt_utils::enrich_prompt_messages'] = noop
    M.env['commands::blame::get_files_for_prompt_hash'] = no_files
    M.env['git::repository::Repository::config_get_str'] = cfg_str
    M.env['auth::credentials::CredentialStore::new'] = cred_new
    M.env['auth::credentials::CredentialStore::load'] = cred_load


def plan(tier, seed):
    tasks = []
    nr_max = 2 if tier == 'quick' else 3
    # K1
    for files in ([('f.rs', 1, 1)], [('f.rs', 2, 1)], [('f.rs', 1, 2)], [('f.rs', 2, 2)], [('f.rs', 1, 1), ('g.rs', 1, 1)], [('g.rs', 2, 1), ('f.rs', 1, 2)]):
        n = sum(ne * nr for _, ne, nr in files)
        for kinds in itertools.product('sr', repeat=n):
            for q in ('f.rs', 'g.rs', 'other.rs'):
                if q == 'other.rs' and n > 1:
                    continue
                for hs in (0, 1):
                    tasks.append(('lookup', {'files': [list(x) for x in files], 'kinds': ''.join(kinds), 'query': q, 'hs': hs}))
    # K3
    for nh in (1, 2):
        for sizes in itertools.product((1, 2), repeat=nh):
            for notes in itertools.product(('note', 'none', 'renamed'), repeat=nh):
                for same_commit in ((False, True) if nh == 2 else (False,)):
                    if same_commit and notes[0] != notes[1]:
                        continue
                    for o in range(8):
                        if nh == 2 and o not in (0, 3, 5, 6):
                            continue
                        if tier == 'quick' and tuple(sizes) == (2, 2) and not same_commit and 'none' not in notes:
                            # the four heaviest layouts (850 paths each): quick keeps one option set per note combination
                            if o != {('note', 'note'): 3, ('renamed', 'note'): 0, ('note', 'renamed'): 6, ('renamed', 'renamed'): 5}[tuple(notes)]:
                                continue
                        tasks.append(('overlay', {'sizes': list(sizes), 'notes': list(notes), 'same_commit': same_commit, 'opts': o}))
    for layout in ('fanout', 'deep'):
        for o in (0, 3, 6):
            tasks.append(('overlay', {'sizes': [2], 'notes': ['note'], 'same_commit': False, 'opts': o, 'layout': layout}))
            tasks.append(('overlay', {'sizes': [1, 1], 'notes': ['note', 'none'], 'same_commit': False, 'opts': o, 'layout': layout}))
    # K3 with a note that lists, besides the file, ANOTHER file under the name blamed today
    for notes in (('renamed',), ('note',)):
        for sizes in ((1,), (2,)):
            for o in (0, 3, 6):
                tasks.append(('overlay', {'sizes': list(sizes), 'notes': list(notes), 'same_commit': False, 'opts': o, 'other_file': True}))
    if tier != 'quick':
        for o in (0, 5):
            tasks.append(('overlay', {'sizes': [1, 2], 'notes': ['renamed', 'note'], 'same_commit': False, 'opts': o, 'other_file': True}))
    # K6
    for size in ((2, 3) if tier == 'quick' else (2, 3, 4)):
        for note in ('note', 'renamed', 'none'):
            for split in (True, False):
                for kinds in (('rr', 'sr', 'rs') if note != 'none' else ('rr',)):
                    for hs in ((0, 1) if note != 'none' else (0,)):
                        tasks.append(('split', {'size': size, 'note': note, 'split': split, 'kinds': kinds, 'hs': hs}))
    # K5
    for n in (1, 2):
        tasks.append(('json_lines', {'n': n}))
    for first in range(3):
        for gap in (1, 2):
            tasks.append(('json_lines', {'n': 3, 'first': first, 'gap': gap}))
    # K4
    for sizes in ([1], [2], [1, 1], [2, 1], [1, 2], [2, 2], [1, 1, 1]):
        n = len(sizes)
        for commits in itertools.product(range(2), repeat=n):
            if commits[0] != 0:
                continue
            tasks.append(('porcelain', {'sizes': sizes, 'commits': list(commits), 'previous': n % 2 == 0, 'boundary': n > 1}))
            if n <= 2:
                # a rename between the commits: git names a different originating path per group (C-quoted when unusual)
                for fn in itertools.product(range(len(FNAMES)), repeat=n):
                    if any(fn) and (tier != 'quick' or n == 1 or (tuple(fn) in ((0, 1), (1, 0), (2, 3)) and sizes != [2, 2])):
                        tasks.append(('porcelain', {'sizes': sizes, 'commits': list(commits), 'previous': n % 2 == 0, 'boundary': n > 1, 'fnames': list(fn)}))
    return tasks


def task_weight(t):
    kind, sh = t
    if kind == 'overlay':
        return sum(sh['sizes']) * (1 if sh.get('same_commit') else 4) * (0 if 'none' in sh['notes'] else 1)
    if kind == 'lookup':
        return sum(a * b for _, a, b in sh['files']) * 2
    return sum(sh.get('sizes', [0]))


def ob_lookup(h, shape):
    P = h.P
    M = P.M
    files = [tuple(x) for x in shape['files']]
    log, desc = sym_note(h, 'r', files, iter(shape['kinds']), shape.get('hs', 0))
    line = Sc(P.input_bv('line', 32), 32)
    q = shape['query']
    h.inputs_struct = {'note': desc_json(desc), 'file': q, 'line': line}
    cache = MapV('hash', [], 'map')
    try:
        r = P.call_named(LOG + '::get_line_attribution', [Ref(Cell(log)), Ref(Cell(Opaque('Repository', None))), pystr(q), line, Ref(Cell(cache))])
    except Panic as e:
        h.panic('K1-no-panic', e.msg)
        return
    dl = expected_session(desc, q, line)
    # result is Some((author, Some(hash), Some(prompt))) | None
    if r.var == 'None':
        h.require(all_of([neg(c) for c, _ in dl]), 'K1-listed-line-is-found', 'the note lists the line for the file but the lookup found nothing')
    else:
        got = concrete_bytes(as_bytes(r.f[0].f[1].f[0])).decode()
        tool = concrete_bytes(as_bytes(field(M, r.f[0].f[0], 'authorship::authorship_log::Author', 'username'))).decode()
        # the decision list: first (i.e. last entry) whose condition holds must be `got`
        conds = []
        not_earlier = []
        for c, hk in dl:
            if hk == got:
                conds.append(all_of(not_earlier + [c]))
            not_earlier.append(neg(c))
        h.require(any_of(conds) if conds else False, 'K1-last-listing-entry-wins',
                  'lookup returned session %s but that is not the last entry of the file listing the line' % got)
        h.require(tool == TOOLS[got], 'K1-author-is-session-tool', 'author name %r is not the tool of session %s' % (tool, got))
    h.sample = h.witness()


def mk_hunk(M, fs, fe, os_, oe, sha, author, orig_path=None):
    kw = {}
    if 'orig_path' in (M.src.struct_fields(HUNK) or []):
        # the path git reported for the originating commit (porcelain `filename`); K4 decides that the reader fills it in
        kw['orig_path'] = some(pystring(orig_path)) if orig_path is not None else none()
    return mk_struct(M, HUNK, range=tup(fs, fe), orig_range=tup(os_, oe), commit_sha=pystring(sha), abbrev_sha=pystring(sha[:7]),
                     original_author=pystring(author), author_email=pystring('a@b'), author_time=Sc(0, 64, True), author_tz=pystring('+0000'),
                     ai_human_author=none(), committer=pystring(author), committer_email=pystring('a@b'), committer_time=Sc(0, 64, True),
                     committer_tz=pystring('+0000'), is_boundary=FALSE, **kw)


def mk_options(M, by_hash, human_as_human, mark_unknown, **over):
    names = M.src.struct_fields(OPTS)
    if names is None:
        raise Unsupported('GitAiBlameOptions not found')
    vals = {}
    for n in names:
        vals[n] = None
    defaults = {
        'line_ranges': VecV([]), 'newest_commit': none(), 'oldest_commit': none(), 'oldest_date': none(),
        'abbrev': none(), 'move_threshold': none(), 'ignore_revs': VecV([]), 'ignore_revs_file': none(),
        'date_format': none(), 'contents_file': none(), 'reverse': none(), 'encoding': none(), 'contents_data': none(),
        'detect_copies': Sc(0, 32),
        'use_prompt_hashes_as_names': Sc(by_hash, 0), 'return_human_authors_as_human': Sc(human_as_human, 0), 'mark_unknown': Sc(mark_unknown, 0),
    }
    for n in names:
        vals[n] = defaults.get(n, FALSE)
    for n, v in over.items():
        if n not in vals:
            raise Unsupported('GitAiBlameOptions has no field %s' % n)
        vals[n] = v
    return Agg(OPTS, [vals[n] for n in names])


def ob_overlay(h, shape):
    P = h.P
    M = P.M
    nh = len(shape['sizes'])
    LIM = (1 << 20) - 1
    hunks = []
    dh = []
    notes = {}
    note_desc = {}
    prev_end = None
    for i in range(nh):
        size = shape['sizes'][i]
        fs = h.u32('fs%d' % i, 1, LIM)
        os_ = h.u32('os%d' % i, 1, LIM)
        if prev_end is not None:
            P.assume(binop('Gt', fs, prev_end))
        fe = binop('Add', fs, Sc(size - 1, 32))
        oe = binop('Add', os_, Sc(size - 1, 32))
        prev_end = fe
        sha = 'c1c1' if (i == 0 or shape['same_commit']) else 'c2c2'
        # git names, per hunk, the path the file had in the originating commit
        path_then = 'old.rs' if shape['notes'][i] == 'renamed' else 'new.rs'
        hunks.append(mk_hunk(M, fs, fe, os_, oe, sha, 'Alice', path_then))
        dh.append({'final_start': fs, 'orig_start': os_, 'size': size, 'commit': sha, 'note': shape['notes'][i], 'orig_path': path_then})
        if sha not in notes:
            kind = shape['notes'][i]
            if kind == 'none':
                notes[sha] = None
            else:
                fname = 'new.rs' if kind == 'note' else 'old.rs'
                kinds = iter('sr' * 4)
                listed = [(fname, 2, 1)]
                if shape.get('other_file'):
                    # the commit also had ANOTHER file under the name that is blamed today (renamed onto a name used before)
                    listed.append(('new.rs' if fname == 'old.rs' else 'other.rs', 1, 1))
                log, desc = sym_note(h, 'n' + sha, listed, kinds)
                notes[sha] = log
                note_desc[sha] = desc
    P.state['notes'] = notes
    # how git laid the notes tree out: flat (<sha>), one fan-out level (<aa>/<rest>) or two (<aa>/<bb>/<rest>, large notes refs)
    P.state['notes_layout'] = {k: shape.get('layout', 'flat') for k in notes}
    o = shape.get('opts', 0)
    by_hash = bool(o & 1)
    human_as_human = bool(o & 2)
    mark_unknown = bool(o & 4)
    opts = mk_options(M, by_hash, human_as_human, mark_unknown)
    h.inputs_struct = {'hunks': dh, 'notes': {k: desc_json(v) for k, v in note_desc.items()}, 'file': 'new.rs', 'layout': shape.get('layout', 'flat'),
                       'options': {'use_prompt_hashes_as_names': by_hash, 'return_human_authors_as_human': human_as_human, 'mark_unknown': mark_unknown}}
    hv = VecV(hunks)
    try:
        r = P.call_named(BLAME + '::overlay_ai_authorship', [Ref(Cell(Opaque('Repository', None))), SliceRef(hv, 0, nh), pystr('new.rs'), Ref(Cell(opts))])
    except Panic as e:
        h.panic('K3-no-panic', e.msg)
        return
    if r.var != 'Ok':
        h.require(False, 'K3-ok', 'overlay returned Err')
        return
    line_authors = r.f[0].f[0]
    known = []
    # every line of every hunk has exactly the author the property prescribes
    for i in range(nh):
        d = dh[i]
        for k in range(d['size']):
            L = binop('Add', d['final_start'], Sc(k, 32))
            O = binop('Add', d['orig_start'], Sc(k, 32))
            # find the map entry for L
            got = None
            for ent in line_authors.ent:
                if P.branch(binop('Eq', tgt(ent[0]), L)):
                    got = concrete_bytes(as_bytes(ent[1])).decode()
                    break
            if got is None:
                h.require(False, 'K3-every-line-has-author', 'no author reported for a blamed line')
                continue
            sha = d['commit']
            if notes[sha] is None:
                want = 'Unknown' if mark_unknown else ('human' if human_as_human else 'Alice')
                h.require(got == want, 'K3-no-note-means-human', 'commit without a note: line reported as %r, expected %r' % (got, want))
                continue
            # the path the file had in that commit: new.rs, or old.rs when renamed later
            path_then = 'new.rs' if d['note'] == 'note' else 'old.rs'
            dl = expected_session(note_desc[sha], path_then, O)
            human = 'human' if human_as_human else 'Alice'
            conds = []
            not_earlier = []
            for c, hk in dl:
                name = hk if by_hash else TOOLS[hk]
                if name == got:
                    conds.append(all_of(not_earlier + [c]))
                not_earlier.append(neg(c))
            if got == human:
                conds.append(all_of(not_earlier))
            h.require(any_of(conds) if conds else False, 'K3-line-is-ai-iff-note-lists-original-line',
                      'line reported as %r, which is not what the originating commit\'s note says for the original line number and path' % got, known)
    h.require(len(line_authors.ent) == sum(shape['sizes']), 'K3-no-extra-lines', 'authors reported for lines outside the hunks')
    h.sample = h.witness()


# how git prints the originating path on the `filename` line, and the path it means (git C-quotes unusual names)
FNAMES = [('f.rs', 'f.rs'), ('old.rs', 'old.rs'), ('"o\\303\\244 x.rs"', 'o\u00e4 x.rs'), ('dir/old name.rs', 'dir/old name.rs')]


def ob_porcelain(h, shape):
    """K4: blame_hunks_for_ranges parses `git blame --line-porcelain`: every final line keeps the commit and
    the ORIGINAL line number git reported for it (the overlay looks the original number up in the note)"""
    P = h.P
    M = P.M
    sizes = shape['sizes']
    shas = ['aaaa1111', 'bbbb2222', 'cccc3333']
    LIM = 999
    groups = []
    fstart = h.u32('f0', 1, 98)
    cur = fstart
    text = []
    for i, n in enumerate(sizes):
        sha = shas[shape['commits'][i]]
        ostart = h.u32('o%d' % i, 1, LIM)
        fprinted, fmeant = FNAMES[(shape.get('fnames') or [0] * len(sizes))[i]]
        groups.append((sha, ostart, cur, n, fmeant))
        for j in range(n):
            o = binop('Add', ostart, Sc(j, 32))
            f = binop('Add', cur, Sc(j, 32))
            hdr = list(sha.encode()) + [32] + int_digits(P, o) + [32] + int_digits(P, f) + ([32] + list(str(n).encode()) if j == 0 else []) + [10]
            text += hdr
            text += list(b'author A U Thor\nauthor-mail <a@u>\nauthor-time 1700000000\nauthor-tz +0000\ncommitter C\ncommitter-mail <c@u>\ncommitter-time 1700000001\ncommitter-tz +0000\nsummary 12 34 56\n')
            if shape.get('previous') and i == 0:
                text += list(b'previous dddd4444 f.rs\n')
            if shape.get('boundary') and i == len(sizes) - 1:
                text += list(b'boundary\n')
            text += list(b'filename ' + fprinted.encode() + b'\n\tcontent 1 2 3\n')
        cur = binop('Add', cur, Sc(n, 32))
    P.state['porcelain'] = text
    P.state['notes'] = {}
    h.inputs_struct = {'groups': [[g[0], g[1], g[2], g[3]] for g in groups], 'previous': bool(shape.get('previous')), 'boundary': bool(shape.get('boundary')),
                       'fnames': list(shape.get('fnames') or [0] * len(sizes))}
    repo = Agg('git::repository::Repository', [])
    opts = mk_options(M, False, False, False)
    total = sum(sizes)
    rng = VecV([tup(fstart, binop('Add', fstart, Sc(total - 1, 32)))])
    try:
        r = P.call_named('commands::blame::Repository::blame_hunks_for_ranges', [Ref(Cell(repo)), pystr('f.rs'), SliceRef(rng, 0, 1), Ref(Cell(opts))])
    except Panic as e:
        h.panic('K4-no-panic', e.msg)
        return
    h.require(r.var == 'Ok', 'K4-parse-ok', 'blame output of a healthy git was rejected')
    if r.var != 'Ok':
        return
    hunks = r.f[0].e
    # for every final line of every group: exactly one hunk covers it, with that commit and that original line
    has_path = 'orig_path' in (M.src.struct_fields(HUNK) or [])
    for (sha, ostart, fs, n, fmeant) in groups:
        for j in range(n):
            f = binop('Add', fs, Sc(j, 32))
            o = binop('Add', ostart, Sc(j, 32))
            cover = []
            right = []
            named = []
            for hk in hunks:
                rg = field(M, hk, HUNK, 'range')
                og = field(M, hk, HUNK, 'orig_range')
                inside = z3.And(binop('Le', rg.f[0], f).z(), binop('Le', f, rg.f[1]).z())
                cover.append(inside)
                same_sha = bytes(concrete_bytes(as_bytes(field(M, hk, HUNK, 'commit_sha')))).decode() == sha
                orig_of_f = binop('Add', og.f[0], binop('Sub', f, rg.f[0]))
                right.append(z3.And(inside, z3.BoolVal(same_sha), binop('Eq', orig_of_f, o).z()))
                if has_path:
                    op = field(M, hk, HUNK, 'orig_path')
                    same_path = op.var == 'Some' and bytes(concrete_bytes(as_bytes(op.f[0]))) == fmeant.encode()
                    named.append(z3.And(inside, z3.BoolVal(same_path)))
            h.require(z3.PbEq([(c, 1) for c in cover], 1) if cover else False, 'K4-each-line-in-exactly-one-hunk', 'a blamed line is covered by no hunk or by several')
            h.require(z3.Or(right) if right else False, 'K4-line-keeps-commit-and-original-number',
                      'final line (group %s) is not reported with the commit and original line number git gave' % sha)
            h.require((z3.Or(named) if named else False) if has_path else False, 'K4-line-keeps-the-path-git-reported',
                      'final line (group %s) is not reported with the path the file had in the originating commit (%r); the note of that commit lists the file under that path' % (sha, fmeant))
    h.sample = h.witness()


def ob_split(h, shape):
    """K6: populate_ai_human_authors (splitting hunks by the person behind each AI session) neither loses nor renumbers
    a line: every final line stays in exactly one hunk, with the commit, the originating path and the ORIGINAL line
    number git gave, and - when splitting is on - under the person its session names"""
    P = h.P
    M = P.M
    LIM = (1 << 20) - 1
    size = shape['size']
    kind = shape['note']
    fs = h.u32('fs', 1, LIM)
    os_ = h.u32('os', 1, LIM)
    fe = binop('Add', fs, Sc(size - 1, 32))
    oe = binop('Add', os_, Sc(size - 1, 32))
    path_then = 'old.rs' if kind == 'renamed' else 'new.rs'
    hunk = mk_hunk(M, fs, fe, os_, oe, 'c1c1', 'Alice', path_then)
    notes = {}
    desc = []
    if kind != 'none':
        log, desc = sym_note(h, 'nc1c1', [(path_then, 2, 1)], iter(shape.get('kinds', 'rr')), shape.get('hs', 0), humans=True)
        notes['c1c1'] = log
    else:
        notes['c1c1'] = None
    P.state['notes'] = notes
    P.state['notes_layout'] = {}
    split = bool(shape.get('split', True))
    opts = mk_options(M, False, False, False, split_hunks_by_ai_author=Sc(split, 0))
    h.inputs_struct = {'hunk': {'final_start': fs, 'orig_start': os_, 'size': size, 'orig_path': path_then}, 'note': desc_json(desc) if kind != 'none' else None,
                       'file': 'new.rs', 'split': split}
    try:
        r = P.call_named('commands::blame::Repository::populate_ai_human_authors',
                         [Ref(Cell(Opaque('Repository', None))), VecV([hunk]), pystr('new.rs'), Ref(Cell(opts))])
    except Panic as e:
        h.panic('K6-no-panic', e.msg)
        return
    if r.var != 'Ok':
        h.require(False, 'K6-ok', 'populate_ai_human_authors returned Err')
        return
    out = r.f[0].e
    h.cover('K6-split-into-%d' % min(len(out), 3))
    for k in range(size):
        L = binop('Add', fs, Sc(k, 32))
        O = binop('Add', os_, Sc(k, 32))
        cover = []
        right = []
        person_ok = []
        dl = expected_session(desc, path_then, O) if kind != 'none' else []
        for hk in out:
            rg = field(M, hk, HUNK, 'range')
            og = field(M, hk, HUNK, 'orig_range')
            inside = z3.And(binop('Le', rg.f[0], L).z(), binop('Le', L, rg.f[1]).z())
            cover.append(inside)
            same_sha = bytes(concrete_bytes(as_bytes(field(M, hk, HUNK, 'commit_sha')))).decode() == 'c1c1'
            op = field(M, hk, HUNK, 'orig_path')
            same_path = op.var == 'Some' and bytes(concrete_bytes(as_bytes(op.f[0]))).decode() == path_then
            orig_of = binop('Add', og.f[0], binop('Sub', L, rg.f[0]))
            right.append(z3.And(inside, z3.BoolVal(same_sha and same_path), binop('Eq', orig_of, O).z(), binop('Le', orig_of, og.f[1]).z()))
            if split:
                ha = field(M, hk, HUNK, 'ai_human_author')
                got = bytes(concrete_bytes(as_bytes(ha.f[0]))).decode() if ha.var == 'Some' else None
                conds = []
                not_earlier = []
                for c, hsh in dl:
                    if HUMANS[hsh] == got:
                        conds.append(all_of(not_earlier + [c]))
                    not_earlier.append(neg(c))
                if got is None:
                    conds.append(all_of(not_earlier))
                person_ok.append(z3.And(inside, (any_of(conds) if conds else z3.BoolVal(False))))
        h.require(z3.PbEq([(c, 1) for c in cover], 1) if cover else False, 'K6-each-line-in-exactly-one-hunk', 'after splitting, a blamed line is covered by no hunk or by several')
        h.require(z3.Or(right) if right else False, 'K6-line-keeps-commit-path-and-original-number',
                  'after splitting, final line %d of the hunk is not reported with the commit, path and original line number git gave' % (k + 1))
        if split:
            h.require(z3.Or(person_ok) if person_ok else False, 'K6-line-is-under-the-person-of-its-session',
                      'after splitting, final line %d of the hunk is grouped under a person who is not the one its session names' % (k + 1))
    h.sample = h.witness()


def int_digits(P, v):
    """decimal digits of a symbolic u32 as bytes (shares the formatter model's digit variables)"""
    from mirsym.models.fmt import int_digits as fmt_digits
    return list(fmt_digits(P, v, 32, False))


BL = 'commands::blame'
PRREC = 'authorship::authorship_log::PromptRecord'
AGENTID = 'authorship::working_log::AgentId'


def ob_json_lines(h, shape):
    """K5: the JSON output lists exactly the lines the per-line result attributes to each session
    (the human-readable output is written from the same per-line map)"""
    P = h.P
    M = P.M
    n = shape['n']
    l0 = h.u32('l0', 1, 90)
    lines = [l0]
    for i in range(1, n):
        gap = shape['gap'] if (i == 1 and shape.get('gap')) else 1 + h.choice(2)
        lines.append(binop('Add', lines[-1], Sc(gap, 32)))
    who = [['s1', 's2', 'Jane'][shape['first'] if (i == 0 and shape.get('first') is not None) else h.choice(3)] for i in range(n)]
    la = MapV('hash', [[ln, pystring(w)] for ln, w in zip(lines, who)], 'map')
    recs = []
    for sname in ('s1', 's2'):
        agent = mk_struct(M, AGENTID, tool=pystring('t'), id=pystring('id-' + sname), model=pystring('m'))
        recs.append([pystring(sname), mk_struct(M, PRREC, agent_id=agent, human_author=none(), messages=VecV([]), total_additions=Sc(0, 32), total_deletions=Sc(0, 32),
                                                accepted_lines=Sc(0, 32), overriden_lines=Sc(0, 32), messages_url=none())])
    prompts = MapV('hash', recs, 'map')
    h.inputs_struct = {'lines': lines, 'authors': who}
    repo = Agg('git::repository::Repository', [])
    P.state['json'] = []
    try:
        r = P.call_named(BL + '::output_json_format', [Ref(Cell(repo)), Ref(Cell(la)), Ref(Cell(prompts)), SliceRef(VecV([]), 0, 0), Ref(Cell(MapV('hash', [], 'map'))), pystr('f.rs')])
    except Panic as e:
        h.panic('K5-no-panic', e.msg)
        return
    h.require(r.var == 'Ok', 'K5-json-ok', 'JSON output failed')
    js = P.state.get('json', [])
    val = js[-1]['val'] if js else None
    if val is None:
        h.require(False, 'K5-json-serialized', 'nothing was serialized')
        return
    lm = tgt(val).f[0]          # JsonBlameOutput.lines : BTreeMap<String, String>
    # decode the keys  "a" | "a-b"  into z3 membership conditions over a fresh line l
    l = h.u32('l', 1, 200)
    per = {}
    for k_, v_ in lm.ent:
        kb = list(as_bytes(k_))
        sess = bytes(concrete_bytes(as_bytes(v_))).decode()
        dash = None
        for i_, b in enumerate(kb):
            if P.branch(byte_eq(b, 45)):
                dash = i_
                break
        from mirsym.models.strs import parse_int

        def parse_digits(P2, bs_):
            r_ = parse_int(P2, mk_str(list(bs_)), 32, False)
            if r_.var != 'Ok':
                raise Unsupported('JSON line key is not a number')
            return r_.f[0]
        if dash is None:
            a = parse_digits(P, kb)
            cond = binop('Eq', l, a).z()
        else:
            a = parse_digits(P, kb[:dash])
            b_ = parse_digits(P, kb[dash + 1:])
            cond = z3.And(binop('Ge', l, a).z(), binop('Le', l, b_).z())
        per.setdefault(sess, []).append(cond)
    for sname in ('s1', 's2'):
        want = z3.Or([binop('Eq', l, ln).z() for ln, w in zip(lines, who) if w == sname] + [z3.BoolVal(False)])
        got = z3.Or(per.get(sname, []) + [z3.BoolVal(False)])
        h.require(want == got, 'K5-json-lists-exactly-the-sessions-lines', 'the JSON `lines` map attributes a different set of lines to %s than the per-line result' % sname)
    h.require(set(per) <= {'s1', 's2'}, 'K5-json-names-only-sessions', 'the JSON `lines` map names %r' % sorted(per))
    h.sample = h.witness()


OBLIGATIONS = {'lookup': ob_lookup, 'overlay': ob_overlay, 'porcelain': ob_porcelain, 'json_lines': ob_json_lines, 'split': ob_split}


def _concrete_expected(desc, file, line):
    """last entry of `file` listing `line` -> hash or None"""
    got = None
    for d in desc:
        if d['file'] == file and any(a <= line <= b for a, b in d['ranges']):
            got = d['hash']
    return got


def _git(tmp, env, *a):
    import subprocess
    p = subprocess.run(['git'] + list(a), cwd=tmp, env=env, stdout=subprocess.PIPE, stderr=subprocess.PIPE)
    if p.returncode != 0:
        raise RuntimeError('git %r: %s' % (a, p.stderr.decode()))
    return p.stdout.decode()


def _replay_porcelain(v, native):
    """the real reader on a stand-in git that prints the counterexample's porcelain text for `blame`
    (every other git command is passed on to the real git)"""
    import json
    import os
    import shutil
    import subprocess
    import tempfile
    inp = v['inputs']
    groups = inp['groups']
    text = ''
    fn = inp.get('fnames') or [0] * len(groups)
    for gi, (sha, o, f, n) in enumerate(groups):
        sha40 = (sha * 5)[:40]
        for j in range(n):
            text += '%s %d %d%s\n' % (sha40, o + j, f + j, (' %d' % n) if j == 0 else '')
            text += 'author A U Thor\nauthor-mail <a@u>\nauthor-time 1700000000\nauthor-tz +0000\ncommitter C\ncommitter-mail <c@u>\ncommitter-time 1700000001\ncommitter-tz +0000\nsummary 12 34 56\n'
            if inp.get('previous') and gi == 0:
                text += 'previous %s f.rs\n' % ('dddd4444' * 5)
            if inp.get('boundary') and gi == len(groups) - 1:
                text += 'boundary\n'
            text += 'filename %s\n\tcontent 1 2 3\n' % FNAMES[fn[gi]][0]
    tmp = tempfile.mkdtemp(prefix='vc09p')
    try:
        repo = os.path.join(tmp, 'r')
        os.makedirs(repo)
        env = dict(os.environ, HOME=tmp, GIT_AUTHOR_NAME='v', GIT_AUTHOR_EMAIL='v@v', GIT_COMMITTER_NAME='v', GIT_COMMITTER_EMAIL='v@v')
        subprocess.run(['git', 'init', '-q', '.'], cwd=repo, env=env, check=True)
        open(os.path.join(repo, 'f.rs'), 'w').write('x\n')
        subprocess.run(['git', 'add', '-A'], cwd=repo, env=env, check=True)
        subprocess.run(['git', 'commit', '-q', '-m', 'c'], cwd=repo, env=env, check=True)
        out = os.path.join(tmp, 'porcelain.txt')
        open(out, 'w').write(text)
        real = shutil.which('git')
        stand = os.path.join(tmp, 'standin-git')
        with open(stand, 'w') as fh:
            fh.write('#!/bin/sh\nfor a in "$@"; do if [ "$a" = "blame" ]; then cat %s; exit 0; fi; done\nexec %s "$@"\n' % (out, real))
        os.chmod(stand, 0o755)
        os.makedirs(os.path.join(tmp, '.git-ai'))
        json.dump({'git_path': stand}, open(os.path.join(tmp, '.git-ai', 'config.json'), 'w'))
        exe = native.__globals__['replay_binary']()
        first = groups[0][2]
        total = sum(g[3] for g in groups)
        payload = {'repo': repo, 'file': 'f.rs', 'start': first, 'end': first + total - 1}
        p = subprocess.run([exe, 'c09_porcelain'], input=json.dumps(payload).encode(), stdout=subprocess.PIPE, stderr=subprocess.PIPE, env=env, timeout=60)
        if p.returncode == 101:
            return {'reproduced': v['kind'] == 'panic', 'stderr': p.stderr.decode('utf-8', 'replace')[-300:]}
        r = json.loads(p.stdout.decode().strip().split('\n')[-1])
        if not r.get('ok'):
            return {'reproduced': v['obligation'] == 'K4-parse-ok', 'native': r}
        bad_cover = False
        bad_line = False
        bad_path = False
        for gi, (sha, o, f, n) in enumerate(groups):
            sha40 = (sha * 5)[:40]
            for j in range(n):
                cov = [hk for hk in r['hunks'] if hk['range'][0] <= f + j <= hk['range'][1]]
                if len(cov) != 1:
                    bad_cover = True
                if not any(hk['sha'] == sha40 and hk['orig'][0] + (f + j - hk['range'][0]) == o + j for hk in cov):
                    bad_line = True
                if not any(hk.get('orig_path') == FNAMES[fn[gi]][1] for hk in cov):
                    bad_path = True
        bad = {'K4-each-line-in-exactly-one-hunk': bad_cover, 'K4-line-keeps-commit-and-original-number': bad_line, 'K4-line-keeps-the-path-git-reported': bad_path}
        return {'reproduced': bool(bad.get(v['obligation'])), 'native': r}
    finally:
        subprocess.call(['rm', '-rf', tmp])


def _replay_json(v, native):
    import json
    import os
    import subprocess
    import tempfile
    inp = v['inputs']
    tmp = tempfile.mkdtemp(prefix='vc09j')
    try:
        env = dict(os.environ, HOME=tmp)
        subprocess.run(['git', 'init', '-q', tmp], env=env, check=True, stdout=subprocess.PIPE, stderr=subprocess.PIPE)
        exe = native.__globals__['replay_binary']()
        p = subprocess.run([exe, 'c09_json_lines'], input=json.dumps({'repo': tmp, 'lines': inp['lines'], 'authors': inp['authors']}).encode(),
                           stdout=subprocess.PIPE, stderr=subprocess.PIPE, env=env, timeout=60)
        if p.returncode == 101:
            return {'reproduced': v['kind'] == 'panic', 'stderr': p.stderr.decode('utf-8', 'replace')[-300:]}
        out = p.stdout.decode('utf-8', 'replace').rstrip('\n').split('\n')
        doc = json.loads('\n'.join(out[:-1]))
        got = {}
        for k, sess in doc.get('lines', {}).items():
            if '-' in k:
                a, b = k.split('-')
                rng = range(int(a), int(b) + 1)
            else:
                rng = [int(k)]
            got.setdefault(sess, set()).update(rng)
        want = {}
        for l, a in zip(inp['lines'], inp['authors']):
            if a in ('s1', 's2'):
                want.setdefault(a, set()).add(l)
        bad = {'K5-json-lists-exactly-the-sessions-lines': got != want, 'K5-json-names-only-sessions': not set(got) <= {'s1', 's2'}}
        return {'reproduced': bool(bad.get(v['obligation'])), 'native': {k: sorted(x) for k, x in got.items()}, 'want': {k: sorted(x) for k, x in want.items()}}
    finally:
        subprocess.call(['rm', '-rf', tmp])


RENAME_CASES = [
    # (old path, new path, edit line 3 after the rename)
    ('old.rs', 'new.rs', False),
    ('old.rs', 'new.rs', True),
    ('old.rs', 'sub dir/n\u00e4w.rs', False),
    ('a/b/old.rs', 'old.rs', True),
]
H1 = 'h1h1h1h1h1h1h1h1'


def _rename_history(native, old, new, edit_after):
    """the real pipeline (real git blame, real porcelain reader, real overlay) on a history where an AI-written file
    is renamed without its AI lines being edited: renaming changes no line's attribution"""
    import os
    import subprocess
    import tempfile
    tmp = tempfile.mkdtemp(prefix='vc09r')
    env = dict(os.environ, GIT_AUTHOR_NAME='Alice', GIT_AUTHOR_EMAIL='a@b', GIT_COMMITTER_NAME='Alice', GIT_COMMITTER_EMAIL='a@b',
               HOME=tmp, GIT_CONFIG_NOSYSTEM='1')
    try:
        _git(tmp, env, 'init', '-q', '.')
        os.makedirs(os.path.dirname(os.path.join(tmp, old)), exist_ok=True)
        open(os.path.join(tmp, old), 'w').write('a1\na2\nh3\nh4\nh5\nh6\nh7\nh8\n')
        _git(tmp, env, 'add', '-A')
        _git(tmp, env, 'commit', '-q', '-m', 'A')
        sha = _git(tmp, env, 'rev-parse', 'HEAD').strip()
        txt = native('c09_note_text', {'note': [{'file': old, 'hash': H1, 'ranges': [[1, 2]]}], 'base': sha})['text']
        open(os.path.join(tmp, '.note'), 'w').write(txt)
        _git(tmp, env, 'notes', '--ref=ai', 'add', '-f', '-F', '.note', sha)
        os.unlink(os.path.join(tmp, '.note'))
        os.makedirs(os.path.dirname(os.path.join(tmp, new)), exist_ok=True)
        _git(tmp, env, 'mv', old, new)
        _git(tmp, env, 'commit', '-q', '-m', 'rename only')
        if edit_after:
            open(os.path.join(tmp, new), 'w').write('a1\na2\nH3 edited\nh4\nh5\nh6\nh7\nh8\n')
            _git(tmp, env, 'commit', '-q', '-a', '-m', 'human edit of line 3')
        r = native('c09_blame', {'repo': tmp, 'file': new})
        if 'panic' in r:
            return True, r
        authors = dict((a, b) for a, b in r.get('authors', []))
        bad = authors.get(1) != H1 or authors.get(2) != H1 or any(authors.get(k) == H1 for k in range(3, 9))
        return bad, r
    finally:
        subprocess.call(['rm', '-rf', tmp])


def extra_checks(tier, seed, native):
    """K3 takes the originating path from the hunk and K4 decides that the reader fills it in from git's `filename` line;
    that the two compose on what a real git prints for a renamed file is checked here on concrete histories"""
    import json
    import os
    from harness import driver
    out = {'validated': 0, 'inconclusive': [], 'violations': []}
    for n, (old, new, edit) in enumerate(RENAME_CASES):
        try:
            bad, r = _rename_history(native, old, new, edit)
        except Exception as e:
            out['inconclusive'].append('rename history %r -> %r could not be staged: %s: %s' % (old, new, type(e).__name__, e))
            continue
        if bad:
            path = os.path.join(driver.EVID, 'replay', 'C09-rename-%d.json' % n)
            os.makedirs(os.path.dirname(path), exist_ok=True)
            with open(path, 'w') as f:
                json.dump({'obligation': 'K3-line-is-ai-iff-note-lists-original-line', 'kind': 'property',
                           'scenario': '%s (lines 1-2 by session h1) committed, `git mv` to %s%s, then blame the new path: lines 1-2 must be session h1, no other line may be'
                                       % (old, new, ', a human edits line 3' if edit else ''), 'native': r}, f, indent=1)
            out['violations'].append('VIOLATION property=C09 replay=%s' % path)
        else:
            out['validated'] += 1
    return out


def _replay_split(v, native):
    """K6 natively: a real commit carrying the counterexample's note, the real populate_ai_human_authors on the hunk"""
    import os
    import subprocess
    import tempfile
    inp = v['inputs']
    ob = v['obligation']
    tmp = tempfile.mkdtemp(prefix='vc09s')
    env = dict(os.environ, GIT_AUTHOR_NAME='Alice', GIT_AUTHOR_EMAIL='a@b', GIT_COMMITTER_NAME='Alice', GIT_COMMITTER_EMAIL='a@b',
               HOME=tmp, GIT_CONFIG_NOSYSTEM='1')
    try:
        _git(tmp, env, 'init', '-q', '.')
        _git(tmp, env, 'commit', '-q', '--allow-empty', '-m', 'c1c1')
        sha = _git(tmp, env, 'rev-parse', 'HEAD').strip()
        if inp.get('note') is not None:
            txt = native('c09_note_text', {'note': inp['note'], 'base': sha, 'humans': True})['text']
            open(os.path.join(tmp, '.note'), 'w').write(txt)
            _git(tmp, env, 'notes', '--ref=ai', 'add', '-f', '-F', '.note', sha)
        hk = inp['hunk']
        r = native('c09_split', {'repo': tmp, 'file': inp['file'], 'split': inp['split'],
                                 'hunk': {'final_start': hk['final_start'], 'orig_start': hk['orig_start'], 'size': hk['size'], 'commit_sha': sha, 'orig_path': hk['orig_path']}})
        if 'panic' in r:
            return {'reproduced': v['kind'] == 'panic', 'native': r}
        if v['kind'] == 'panic':
            return {'reproduced': False, 'native': r}
        if not r.get('ok'):
            return {'reproduced': ob == 'K6-ok', 'native': r}
        bad = {'K6-each-line-in-exactly-one-hunk': False, 'K6-line-keeps-commit-path-and-original-number': False, 'K6-line-is-under-the-person-of-its-session': False}
        for k in range(hk['size']):
            L, O = hk['final_start'] + k, hk['orig_start'] + k
            cov = [x for x in r['hunks'] if x['range'][0] <= L <= x['range'][1]]
            if len(cov) != 1:
                bad['K6-each-line-in-exactly-one-hunk'] = True
            if not any(x['sha'] == sha and x.get('orig_path') == hk['orig_path'] and x['orig'][0] + (L - x['range'][0]) == O and O <= x['orig'][1] for x in cov):
                bad['K6-line-keeps-commit-path-and-original-number'] = True
            if inp['split']:
                hsh = _concrete_expected(inp['note'], hk['orig_path'], O) if inp.get('note') is not None else None
                want = HUMANS[hsh] if hsh is not None else None
                if not any(x.get('person') == want for x in cov):
                    bad['K6-line-is-under-the-person-of-its-session'] = True
        return {'reproduced': bool(bad.get(ob)), 'native': r}
    finally:
        subprocess.call(['rm', '-rf', tmp])


def replay(v, native):
    if v['obligation'].startswith('K6-'):
        return _replay_split(v, native)
    if v['obligation'].startswith('K4-'):
        return _replay_porcelain(v, native)
    if v['obligation'].startswith('K5-'):
        return _replay_json(v, native)
    import os
    import subprocess
    import tempfile
    inp = v['inputs']
    ob = v['obligation']
    tmp = tempfile.mkdtemp(prefix='vc09')
    env = dict(os.environ, GIT_AUTHOR_NAME='Alice', GIT_AUTHOR_EMAIL='a@b', GIT_COMMITTER_NAME='Alice', GIT_COMMITTER_EMAIL='a@b',
               HOME=tmp, GIT_CONFIG_NOSYSTEM='1')
    try:
        _git(tmp, env, 'init', '-q', '.')
        if ob.startswith('K1'):
            r = native('c09_lookup', dict(inp, repo=tmp))
            if 'panic' in r:
                return {'reproduced': v['kind'] == 'panic', 'native': r}
            if v['kind'] == 'panic':
                return {'reproduced': False, 'native': r}
            want = _concrete_expected(inp['note'], inp['file'], inp['line'])
            got = r.get('hash') if r.get('found') else None
            bad = {'K1-listed-line-is-found': want is not None and got is None,
                   'K1-last-listing-entry-wins': got is not None and got != want,
                   'K1-author-is-session-tool': got is not None and r.get('author') != TOOLS.get(got)}
            return {'reproduced': bool(bad.get(ob)), 'native': r, 'expected': want}
        # overlay on real commits carrying the counterexample's notes
        shas = {}
        for name in sorted({hk['commit'] for hk in inp['hunks']}):
            _git(tmp, env, 'commit', '-q', '--allow-empty', '-m', name)
            shas[name] = _git(tmp, env, 'rev-parse', 'HEAD').strip()
        for name, desc in inp['notes'].items():
            txt = native('c09_note_text', {'note': desc, 'base': shas[name]})['text']
            open(os.path.join(tmp, '.note'), 'w').write(txt)
            _git(tmp, env, 'notes', '--ref=ai', 'add', '-f', '-F', '.note', shas[name])
            lay = inp.get('layout', 'flat')
            if lay != 'flat':
                sha_ = shas[name]
                blob = _git(tmp, env, 'rev-parse', 'refs/notes/ai:' + sha_).strip()
                newp = (sha_[:2] + '/' + sha_[2:]) if lay == 'fanout' else (sha_[:2] + '/' + sha_[2:4] + '/' + sha_[4:])
                stream = 'commit refs/notes/ai\ncommitter v <v@v> 1700000000 +0000\ndata 0\nfrom refs/notes/ai^0\nD %s\nM 100644 %s %s\n\n' % (sha_, blob, newp)
                import subprocess as _sp
                _sp.run(['git', 'fast-import', '--quiet'], cwd=tmp, env=env, input=stream.encode(), check=True, stdout=_sp.PIPE, stderr=_sp.PIPE)
        hunks = [{'final_start': hk['final_start'], 'orig_start': hk['orig_start'], 'size': hk['size'], 'commit_sha': shas[hk['commit']], 'orig_path': hk.get('orig_path')} for hk in inp['hunks']]
        r = native('c09_overlay', {'repo': tmp, 'file': inp['file'], 'hunks': hunks, 'options': inp['options']})
        if 'panic' in r:
            return {'reproduced': v['kind'] == 'panic', 'native': r}
        if v['kind'] == 'panic':
            return {'reproduced': False, 'native': r}
        if not r.get('ok'):
            return {'reproduced': ob == 'K3-ok', 'native': r}
        authors = dict((a, b) for a, b in r['authors'])
        o = inp['options']
        bad = {k: False for k in ('K3-every-line-has-author', 'K3-no-note-means-human', 'K3-line-is-ai-iff-note-lists-original-line', 'K3-no-extra-lines')}
        total = 0
        for hk in inp['hunks']:
            for k in range(hk['size']):
                total += 1
                L, O = hk['final_start'] + k, hk['orig_start'] + k
                got = authors.get(L)
                if got is None:
                    bad['K3-every-line-has-author'] = True
                    continue
                if hk['note'] == 'none':
                    want = 'Unknown' if o['mark_unknown'] else ('human' if o['return_human_authors_as_human'] else 'Alice')
                    if got != want:
                        bad['K3-no-note-means-human'] = True
                    continue
                path_then = 'new.rs' if hk['note'] == 'note' else 'old.rs'
                hsh = _concrete_expected(inp['notes'][hk['commit']], path_then, O)
                if hsh is None:
                    want = 'human' if o['return_human_authors_as_human'] else 'Alice'
                else:
                    want = hsh if o['use_prompt_hashes_as_names'] else TOOLS[hsh]
                if got != want:
                    bad['K3-line-is-ai-iff-note-lists-original-line'] = True
        if len(authors) != total:
            bad['K3-no-extra-lines'] = True
        return {'reproduced': bool(bad.get(ob)), 'native': r}
    finally:
        subprocess.call(['rm', '-rf', tmp])
MUST_COVER = ['K6-split-into-1', 'K6-split-into-2', 'K6-split-into-3']
