"""C05 — every authorship note is well-formed, self-contained and matches its commit (kernels).

K1  produced ranges.  Encoded from MIR: rebase_authorship::{build_file_attestation_from_line_attributions,
    upsert_file_attestation, build_authorship_log_from_state}, VirtualAttributions::to_authorship_log,
    LineRange::compress_lines.
K2  the serialized form: decided by the C17 check (same serializer).
"""
import itertools
import z3
from harness.lib import *

ID = 'C05'
RA = 'authorship::rebase_authorship'
VA = 'authorship::virtual_attribution'
VAS = VA + '::VirtualAttributions'
LR = 'authorship::authorship_log::LineRange'
LATTR = 'authorship::attribution_tracker::LineAttribution'
SER = 'authorship::authorship_log_serialization'
LOG = SER + '::AuthorshipLog'
KANI = ['line_range_contains_is_interval_membership', 'line_range_overlaps_is_symmetric_and_exact', 'line_attribution_intersection_is_interval_intersection']
CFG = {'max_steps': 1000000}

BOUNDS = {
    'quick': 'K1: <=3 LineAttributions per file with arbitrary symbolic u32 start <= end (overlapping, unsorted, adjacent, line 0, u32::MAX), authors chosen from {human, s1, s2}; <=2 files; existing_files / file_exists symbolic; an existing attestation for the same file present or not; compress_lines on <=4 strictly increasing symbolic lines',
    'thorough': '<=4 LineAttributions',
}
OUTSIDE = 'K3 one-note-per-object under notes-tree fan-out (refs::notes_add_batch / note_blob_oids_for_commits drive git fast-import and cat-file: subprocess protocol, not encoded); "names only files present in its commit" and "line numbers exist in the file" for paths that consult the object database; prompt-record presence for foreign prompts'
ASSUMPTIONS = [
    'input LineAttributions satisfy start_line <= end_line (what the tracker and the parsers produce)',
    'HashMap iteration order is arbitrary (explored as a choice)',
]

AUTH = ['human', 's1', 's2']


def plan(tier, seed):
    tasks = []
    nmax = 3 if tier == 'quick' else 4
    for fn in ('build', 'va'):
        for n in range(0, nmax + 1):
            for combo in itertools.product(range(3), repeat=n):
                tasks.append(('ranges', {'fn': fn, 'authors': list(combo)}))
    for n in (1, 2):
        for combo in itertools.product(range(3), repeat=n):
            for exists in (True, False):
                for prior in (True, False):
                    tasks.append(('upsert', {'authors': list(combo), 'exists': exists, 'prior': prior}))
    for combo in ((1,), (1, 2), (0, 1)):
        tasks.append(('state', {'authors': list(combo)}))
    for n in range(0, 5):
        tasks.append(('compress', {'n': n}))
    for n in (1, 2, 3):
        tasks.append(('notes_batch', {'n': n}))
    return tasks


def sym_lattrs(h, authors, tag=''):
    P = h.P
    M = P.M
    out = []
    desc = []
    for i, ai in enumerate(authors):
        s = Sc(P.input_bv('%ss%d' % (tag, i), 32), 32)
        e = Sc(P.input_bv('%se%d' % (tag, i), 32), 32)
        P.assume(binop('Le', s, e))
        out.append(mk_struct(M, LATTR, start_line=s, end_line=e, author_id=pystring(AUTH[ai]), overrode=none()))
        desc.append([s, e, AUTH[ai]])
    return out, desc


def check_file_attestation(h, fa, desc, tag):
    """C05 obligations on one FileAttestation against the input line attributions"""
    P = h.P
    M = P.M
    entries = field(M, fa, SER + '::FileAttestation', 'entries').e
    seen = set()
    wf = []
    got = {}
    for en in entries:
        who = concrete_bytes(as_bytes(field(M, en, SER + '::AttestationEntry', 'hash'))).decode()
        if who == 'human' or who in seen:
            wf.append(False)
        seen.add(who)
        prev_end = None
        rs = []
        lrs = field(M, en, SER + '::AttestationEntry', 'line_ranges').e
        if not lrs:
            wf.append(False)
        for r_ in lrs:
            a = r_.f[0]
            b = r_.f[1] if r_.var == 'Range' else r_.f[0]
            if r_.var == 'Range':
                wf.append(binop('Lt', a, b))
            if prev_end is not None:
                # sorted, disjoint, non-adjacent; prev_end + 1 must not overflow for this to be meaningful
                wf.append(all_of([binop('Gt', a, prev_end), binop('Gt', binop('Sub', a, prev_end), Sc(1, 32))]))
            prev_end = b
            rs.append((a, b))
        got[who] = rs
    h.require(all_of(wf) if wf else True, tag + '-ranges-wellformed',
              'entries: human entry, duplicate session, empty entry, or ranges not sorted / disjoint / non-adjacent / Single-vs-Range')
    # semantic preservation: for every line l and session S:  l listed for S  <=>  some input of S covers l
    l = Sc(P.fresh(32, 'anyline'), 32)
    P.inputs['anyline'] = l.v
    conds = []
    for who in ('s1', 's2'):
        lhs = any_of([all_of([binop('Ge', l, a), binop('Le', l, b)]) for (a, b) in got.get(who, [])])
        rhs = any_of([all_of([binop('Ge', l, s), binop('Le', l, e)]) for (s, e, w) in desc if w == who])
        conds.append(zbool(lhs) == zbool(rhs))
    h.require(all_of(conds), tag + '-same-lines', 'the set of lines listed for a session differs from the union of its line attributions')
    # 1-based when the inputs are
    ones = all_of([binop('Ge', s, Sc(1, 32)) for (s, e, w) in desc])
    outs = all_of([binop('Ge', a, Sc(1, 32)) for rs in got.values() for (a, b) in rs])
    h.require(any_of([neg(ones), outs]), tag + '-one-based', 'a produced range starts below line 1 although every input is >= 1')


def ob_ranges(h, shape):
    P = h.P
    M = P.M
    lattrs, desc = sym_lattrs(h, shape['authors'])
    h.inputs_struct = {'fn': shape['fn'], 'line_attributions': desc}
    has_ai = any(w != 'human' for (s, e, w) in desc)
    try:
        if shape['fn'] == 'build':
            v = VecV(lattrs)
            r = P.call_named(RA + '::build_file_attestation_from_line_attributions', [pystr('f.txt'), SliceRef(v, 0, len(lattrs))])
            if r.var == 'None':
                h.require(not has_ai, 'K1-build-some-iff-ai', 'no attestation although a session has lines')
                h.sample = h.witness()
                return
            h.require(has_ai, 'K1-build-some-iff-ai', 'attestation produced without any AI line')
            fa = r.f[0]
        else:
            attributions = MapV('hash', [[pystring('f.txt'), tup(VecV([]), VecV(lattrs))]], 'map')
            va = mk_struct(M, VAS, repo=Opaque('Repository', None), base_commit=pystring('c0mmit'), attributions=attributions,
                           file_contents=MapV('hash', [], 'map'), prompts=MapV('btree', [], 'map'), ts=Sc(1, 128), blame_start_commit=none())
            r = P.call_named(VAS + '::to_authorship_log', [Ref(Cell(va))])
            if r.var != 'Ok':
                h.require(False, 'K1-va-ok', 'to_authorship_log failed')
                return
            log = r.f[0]
            base = field(M, field(M, log, LOG, 'metadata'), SER + '::AuthorshipMetadata', 'base_commit_sha')
            h.require(bytes_equal(as_bytes(base), list(b'c0mmit')), 'K1-base-is-argument', 'base_commit_sha is not the given commit')
            files = field(M, log, LOG, 'attestations').e
            if not files:
                h.require(not has_ai, 'K1-va-some-iff-ai', 'no attestation although a session has lines')
                h.sample = h.witness()
                return
            h.require(len(files) == 1, 'K1-one-attestation-per-file', '%d attestations for one file' % len(files))
            fa = files[0]
    except Panic as e:
        h.panic('K1-no-panic', e.msg)
        return
    name = field(M, fa, SER + '::FileAttestation', 'file_path')
    h.require(bytes_equal(as_bytes(name), list(b'f.txt')), 'K1-file-name', 'attestation names another file')
    check_file_attestation(h, fa, desc, 'K1')
    h.sample = h.witness()


def ob_upsert(h, shape):
    P = h.P
    M = P.M
    lattrs, desc = sym_lattrs(h, shape['authors'])
    h.inputs_struct = {'line_attributions': desc, 'file_exists': shape['exists'], 'prior': shape['prior']}
    meta = mk_struct(M, SER + '::AuthorshipMetadata', schema_version=pystring('authorship/3.0.0'), git_ai_version=none(),
                     base_commit_sha=pystring('b'), prompts=MapV('btree', [], 'map'))
    prior = []
    other = mk_struct(M, SER + '::FileAttestation', file_path=pystring('other.txt'),
                      entries=VecV([mk_struct(M, SER + '::AttestationEntry', hash=pystring('s1'), line_ranges=VecV([mk_enum(M, LR, 'Single', Sc(7, 32))]))]))
    prior.append(other)
    if shape['prior']:
        prior.append(mk_struct(M, SER + '::FileAttestation', file_path=pystring('f.txt'),
                               entries=VecV([mk_struct(M, SER + '::AttestationEntry', hash=pystring('s2'), line_ranges=VecV([mk_enum(M, LR, 'Range', Sc(1, 32), Sc(9, 32))]))])))
    log = mk_struct(M, LOG, attestations=VecV(prior), metadata=meta)
    cell = Cell(log)
    v = VecV(lattrs)
    try:
        P.call_named(RA + '::upsert_file_attestation', [Ref(cell), pystr('f.txt'), SliceRef(v, 0, len(lattrs)), Sc(shape['exists'], 0)])
    except Panic as e:
        h.panic('K1-upsert-no-panic', e.msg)
        return
    files = field(M, cell.v, LOG, 'attestations').e
    names = [concrete_bytes(as_bytes(field(M, f, SER + '::FileAttestation', 'file_path'))).decode() for f in files]
    has_ai = any(w != 'human' for (s, e, w) in desc)
    h.require(names.count('other.txt') == 1, 'K1-upsert-keeps-other-files', 'another file\'s attestation was lost or duplicated')
    want = 1 if (shape['exists'] and has_ai) else 0
    h.require(names.count('f.txt') == want, 'K1-upsert-one-attestation',
              '%d attestations for the file (exists=%s, has AI lines=%s)' % (names.count('f.txt'), shape['exists'], has_ai))
    for f in files:
        if concrete_bytes(as_bytes(field(M, f, SER + '::FileAttestation', 'file_path'))) == b'f.txt':
            check_file_attestation(h, f, desc, 'K1-upsert')
    h.sample = h.witness()


def ob_state(h, shape):
    P = h.P
    M = P.M
    la1, d1 = sym_lattrs(h, shape['authors'], 'a')
    la2, d2 = sym_lattrs(h, [1], 'b')
    attributions = MapV('hash', [[pystring('f.txt'), tup(VecV([]), VecV(la1))], [pystring('gone.txt'), tup(VecV([]), VecV(la2))]], 'map')
    existing = MapV('hash', [[pystring('f.txt'), None]], 'set')
    h.inputs_struct = {'f.txt': d1, 'gone.txt': d2}
    try:
        log = P.call_named(RA + '::build_authorship_log_from_state', [pystr('deadbeef'), Ref(Cell(MapV('btree', [], 'map'))),
                                                                    Ref(Cell(attributions)), Ref(Cell(existing))])
    except Panic as e:
        h.panic('K1-state-no-panic', e.msg)
        return
    base = field(M, field(M, log, LOG, 'metadata'), SER + '::AuthorshipMetadata', 'base_commit_sha')
    h.require(bytes_equal(as_bytes(base), list(b'deadbeef')), 'K1-base-is-argument', 'base_commit_sha is not the given commit')
    files = field(M, log, LOG, 'attestations').e
    names = [concrete_bytes(as_bytes(field(M, f, SER + '::FileAttestation', 'file_path'))).decode() for f in files]
    h.require('gone.txt' not in names, 'K1-only-existing-files', 'attestation for a file that does not exist in the commit')
    has_ai = any(w != 'human' for (s, e, w) in d1)
    h.require(names.count('f.txt') == (1 if has_ai else 0), 'K1-one-attestation-per-file', 'wrong number of attestations for f.txt')
    for f in files:
        if concrete_bytes(as_bytes(field(M, f, SER + '::FileAttestation', 'file_path'))) == b'f.txt':
            check_file_attestation(h, f, d1, 'K1-state')
    h.sample = h.witness()


def ob_compress(h, shape):
    P = h.P
    M = P.M
    n = shape['n']
    lines = []
    prev = None
    for i in range(n):
        l = Sc(P.input_bv('l%d' % i, 32), 32)
        if prev is not None:
            P.assume(binop('Lt', prev, l))
        prev = l
        lines.append(l)
    h.inputs_struct = {'lines': list(lines)}
    v = VecV(list(lines))
    try:
        r = P.call_named(LR + '::compress_lines', [SliceRef(v, 0, n)])
    except Panic as e:
        # current_end + 1 overflows only for u32::MAX followed by another line: impossible for increasing input
        h.panic('K1-compress-no-panic', e.msg)
        return
    rs = []
    wf = []
    prev_end = None
    for r_ in r.e:
        a = r_.f[0]
        b = r_.f[1] if r_.var == 'Range' else r_.f[0]
        if r_.var == 'Range':
            wf.append(binop('Lt', a, b))
        if prev_end is not None:
            wf.append(all_of([binop('Gt', a, prev_end), binop('Gt', binop('Sub', a, prev_end), Sc(1, 32))]))
        prev_end = b
        rs.append((a, b))
    h.require(all_of(wf) if wf else True, 'K1-compress-wellformed', 'compress_lines output not sorted / disjoint / non-adjacent')
    l = Sc(P.fresh(32, 'anyline'), 32)
    P.inputs['anyline'] = l.v
    lhs = any_of([all_of([binop('Ge', l, a), binop('Le', l, b)]) for (a, b) in rs])
    rhs = any_of([binop('Eq', l, x) for x in lines])
    h.require(zbool(lhs) == zbool(rhs), 'K1-compress-same-lines', 'compress_lines changed the set of lines')
    h.sample = h.witness()


# ---------------------------------------------------------------------------
# K3: one note per commit, however the notes tree is laid out

SHAS = ['aa11' + 'a' * 36, 'bb22' + 'b' * 36, 'cc33' + 'c' * 36]


def fanout(sha):
    return sha[:2] + '/' + sha[2:]


def apply_fast_import(script, tree):
    """model of `git fast-import` for the command subset git-ai emits; tree: path -> blob text"""
    marks = {}
    i = 0
    data = bytes(script)
    n = len(data)
    cur_mark = None
    in_commit = False

    def line():
        nonlocal i
        j = data.index(b'\n', i)
        l = data[i:j]
        i = j + 1
        return l
    while i < n:
        l = line()
        if l == b'':
            continue
        if l == b'blob':
            cur_mark = None
            continue
        if l.startswith(b'mark :'):
            cur_mark = int(l[6:])
            continue
        if l.startswith(b'data '):
            k = int(l[5:])
            payload = data[i:i + k]
            if len(payload) != k:
                raise Unsupported('fast-import stream: data length runs past the stream')
            i += k
            if not in_commit:
                marks[cur_mark] = payload
            continue
        if l.startswith(b'commit '):
            in_commit = True
            if l != b'commit refs/notes/ai':
                raise Unsupported('fast-import stream commits to %r' % l)
            continue
        if l.startswith(b'committer ') or l.startswith(b'from '):
            continue
        if l.startswith(b'D '):
            tree.pop(l[2:].decode(), None)
            continue
        if l.startswith(b'M 100644 :'):
            rest = l[len(b'M 100644 :'):]
            mk, path = rest.split(b' ', 1)
            if int(mk) not in marks:
                raise Unsupported('fast-import stream: unknown mark')
            tree[path.decode()] = marks[int(mk)]
            continue
        raise Unsupported('fast-import model: unexpected command %r' % l[:40])
    return tree


def ob_notes_batch(h, shape):
    P = h.P
    M = P.M
    n = shape['n']
    idx = [h.choice(len(SHAS)) for _ in range(n)]
    layout = [h.choice(3) for _ in SHAS]      # how git stored the existing note of each commit: none / flat / fan-out
    tree = {}
    for s_, l in zip(SHAS, layout):
        if l == 1:
            tree[s_] = b'old-' + s_[:4].encode()
        elif l == 2:
            tree[fanout(s_)] = b'old-' + s_[:4].encode()
    has_tip = any(layout)
    P.state['c05_notes'] = {'tree': tree, 'has_tip': has_tip, 'applied': 0}
    entries = [(SHAS[k], 'note %d' % j) for j, k in enumerate(idx)]
    h.inputs_struct = {'entries': [[k, 'note %d' % j] for j, k in enumerate(idx)], 'existing': [['none', 'flat', 'fanout'][l] for l in layout]}
    ev = VecV([tup(pystring(a), pystring(b)) for a, b in entries])
    repo = Agg('git::repository::Repository', [])
    try:
        r = P.call_named('git::refs::notes_add_batch', [Ref(Cell(repo)), SliceRef(ev, 0, n)])
    except Panic as e:
        h.panic('K3-no-panic', e.msg)
        return
    h.require(r.var == 'Ok', 'K3-batch-ok', 'notes_add_batch failed on a healthy repository')
    if r.var != 'Ok':
        return
    st = P.state['c05_notes']
    h.require(st['applied'] == (1 if n else 0), 'K3-one-transaction', '%d fast-import runs for one batch' % st['applied'])
    final = st['tree']
    last = {}
    for a, b in entries:
        last[a] = b.encode('utf-8')
    for s_ in SHAS:
        paths = [p for p in final if p.replace('/', '') == s_]
        if s_ in last:
            h.require(len(paths) == 1, 'K3-exactly-one-note-per-commit',
                      'commit %s has %d note paths after the batch: %r (existing layout %s)' % (s_[:4], len(paths), paths, ['none', 'flat', 'fanout'][layout[SHAS.index(s_)]]))
            if len(paths) == 1:
                h.require(final[paths[0]] == last[s_], 'K3-note-is-the-last-entry-for-the-commit', 'note text of %s is not the last entry given for it' % s_[:4])
        else:
            want = {p: v for p, v in tree.items() if p.replace('/', '') == s_}
            h.require({p: final[p] for p in paths} == want, 'K3-other-notes-untouched', 'the note of a commit outside the batch changed')
    h.sample = h.witness()


OBLIGATIONS = {'ranges': ob_ranges, 'upsert': ob_upsert, 'state': ob_state, 'compress': ob_compress, 'notes_batch': ob_notes_batch}


def replay(v, native):
    if 'existing' in v['inputs']:
        inp = v['inputs']
        r = native('c05_notes_batch', inp)
        if 'panic' in r:
            return {'reproduced': v['kind'] == 'panic', 'native': r}
        if v['kind'] == 'panic':
            return {'reproduced': False, 'native': r}
        last = {}
        for k, text in inp['entries']:
            last[k] = text
        bad = {'K3-batch-ok': not r.get('ok'), 'K3-exactly-one-note-per-commit': False, 'K3-note-is-the-last-entry-for-the-commit': False, 'K3-other-notes-untouched': False}
        for i, c in enumerate(r.get('commits', [])):
            if i in last:
                if len(c['paths']) != 1:
                    bad['K3-exactly-one-note-per-commit'] = True
                elif c['texts'][0] != last[i]:
                    bad['K3-note-is-the-last-entry-for-the-commit'] = True
            else:
                want = [] if inp['existing'][i] == 'none' else ['old-%d' % i]
                if c['texts'] != want:
                    bad['K3-other-notes-untouched'] = True
        return {'reproduced': bool(bad.get(v['obligation'])), 'native': r}
    inp = v['inputs']
    ob = v['obligation']
    if 'compress' in ob:
        r = native('c05_compress', {'lines': inp['lines']})
    elif 'line_attributions' in inp and 'file_exists' in inp:
        r = native('c05_upsert', inp)
    elif 'fn' in inp:
        if inp['fn'] == 'va':
            import subprocess
            import tempfile
            tmp = tempfile.mkdtemp(prefix='vc05')
            subprocess.run(['git', 'init', '-q', tmp], stdout=subprocess.PIPE, stderr=subprocess.PIPE)
            try:
                r = native('c05_ranges', dict(inp, repo=tmp))
            finally:
                subprocess.call(['rm', '-rf', tmp])
        else:
            r = native('c05_ranges', inp)
    else:
        r = native('c05_state', inp)
    if 'panic' in r:
        return {'reproduced': v['kind'] == 'panic', 'native': r}
    if v['kind'] == 'panic':
        return {'reproduced': False, 'native': r}
    return {'reproduced': any(ob.endswith(x) or ob == x for x in r.get('failed', [])), 'native': r}


def install(M):
    _install_notes(M)


def _install_notes(M):
    def global_args(P, c, args, dt):
        return VecV([])

    def exec_git(P, c, args, dt):
        st = P.state.get('c05_notes')
        if st is None:
            raise Unsupported('exec_git without a harness answer')
        argv = [bytes(concrete_bytes(as_bytes(a)) or b'?').decode() for a in elems_of(args[0])]
        if 'rev-parse' in argv:
            if st['has_tip']:
                return ok(Agg('std::process::Output', [Opaque('ExitStatus', 0), VecV([Sc(b, 8) for b in b'1234567890123456789012345678901234567890\n']), VecV([])]))
            return err(mk_enum(P.M, 'error::GitAiError', 'GitCliError', some(Sc(128, 32, True)), pystring('fatal: Needed a single revision'), VecV([])))
        raise Unsupported('exec_git %r' % argv)

    def exec_git_stdin(P, c, args, dt):
        st = P.state.get('c05_notes')
        argv = [bytes(concrete_bytes(as_bytes(a)) or b'?').decode() for a in elems_of(args[0])]
        if st is None or 'fast-import' not in argv:
            raise Unsupported('exec_git_stdin %r' % argv)
        raw = [(b.v if isinstance(b, Sc) and b.concrete else b) for b in elems_of(args[1])]
        if concrete_bytes(raw) is None:
            raise Unsupported('symbolic fast-import stream')
        apply_fast_import(concrete_bytes(raw), st['tree'])
        st['applied'] += 1
        return ok(Agg('std::process::Output', [Opaque('ExitStatus', 0), VecV([]), VecV([])]))
    M.env['git::repository::Repository::global_args_for_exec'] = global_args
    M.env['git::repository::exec_git'] = exec_git
    M.env['git::repository::exec_git_stdin'] = exec_git_stdin
