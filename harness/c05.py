"""C05 — every authorship note is well-formed, self-contained and matches its commit (kernels).

K1  produced ranges.  Encoded from MIR: rebase_authorship::{build_file_attestation_from_line_attributions,
    upsert_file_attestation, build_authorship_log_from_state}, VirtualAttributions::to_authorship_log,
    LineRange::compress_lines.
K2  the serialized form: decided by the C17 check (same serializer).
"""
import itertools
import z3
from harness.lib import *

ID = 'C05'
RA = 'authorship::rebase_authorship'
VA = 'authorship::virtual_attribution'
VAS = VA + '::VirtualAttributions'
LR = 'authorship::authorship_log::LineRange'
LATTR = 'authorship::attribution_tracker::LineAttribution'
SER = 'authorship::authorship_log_serialization'
LOG = SER + '::AuthorshipLog'
KANI = ['line_range_contains_is_interval_membership', 'line_range_overlaps_is_symmetric_and_exact', 'line_attribution_intersection_is_interval_intersection']
CFG = {'max_steps': 1000000}

BOUNDS = {
    'quick': 'K1: <=3 LineAttributions per file with arbitrary symbolic u32 start <= end (overlapping, unsorted, adjacent, line 0, u32::MAX), authors chosen from {human, s1, s2}; <=2 files; existing_files / file_exists symbolic; an existing attestation for the same file present or not; compress_lines on <=4 strictly increasing symbolic lines',
    'thorough': '<=4 LineAttributions',
}
OUTSIDE = 'K3 one-note-per-object under notes-tree fan-out (refs::notes_add_batch / note_blob_oids_for_commits drive git fast-import and cat-file: subprocess protocol, not encoded); "names only files present in its commit" and "line numbers exist in the file" for paths that consult the object database; prompt-record presence for foreign prompts'
ASSUMPTIONS = [
    'input LineAttributions satisfy start_line <= end_line (what the tracker and the parsers produce)',
    'HashMap iteration order is arbitrary (explored as a choice)',
]

AUTH = ['human', 's1', 's2']


def plan(tier, seed):
    tasks = []
    nmax = 3 if tier == 'quick' else 4
    for fn in ('build', 'va'):
        for n in range(0, nmax + 1):
            for combo in itertools.product(range(3), repeat=n):
                tasks.append(('ranges', {'fn': fn, 'authors': list(combo)}))
    for n in (1, 2):
        for combo in itertools.product(range(3), repeat=n):
            for exists in (True, False):
                for prior in (True, False):
                    tasks.append(('upsert', {'authors': list(combo), 'exists': exists, 'prior': prior}))
    for combo in ((1,), (1, 2), (0, 1)):
        tasks.append(('state', {'authors': list(combo)}))
    for n in range(0, 5):
        tasks.append(('compress', {'n': n}))
    for n in (1, 2, 3):
        tasks.append(('notes_batch', {'n': n}))
    for n in ((1, 2) if tier == 'quick' else (1, 2, 3)):
        tasks.append(('rebase_loop', {'commits': n}))
        tasks.append(('rebase_loop', {'commits': n, 'two': True}))
    tasks.append(('rebase_loop', {'commits': 2, 'with_notes': ['n1']}))
    return tasks


def sym_lattrs(h, authors, tag=''):
    P = h.P
    M = P.M
    out = []
    desc = []
    for i, ai in enumerate(authors):
        s = Sc(P.input_bv('%ss%d' % (tag, i), 32), 32)
        e = Sc(P.input_bv('%se%d' % (tag, i), 32), 32)
        P.assume(binop('Le', s, e))
        out.append(mk_struct(M, LATTR, start_line=s, end_line=e, author_id=pystring(AUTH[ai]), overrode=none()))
        desc.append([s, e, AUTH[ai]])
    return out, desc


def check_file_attestation(h, fa, desc, tag):
    """C05 obligations on one FileAttestation against the input line attributions"""
    P = h.P
    M = P.M
    entries = field(M, fa, SER + '::FileAttestation', 'entries').e
    seen = set()
    wf = []
    got = {}
    for en in entries:
        who = concrete_bytes(as_bytes(field(M, en, SER + '::AttestationEntry', 'hash'))).decode()
        if who == 'human' or who in seen:
            wf.append(False)
        seen.add(who)
        prev_end = None
        rs = []
        lrs = field(M, en, SER + '::AttestationEntry', 'line_ranges').e
        if not lrs:
            wf.append(False)
        for r_ in lrs:
            a = r_.f[0]
            b = r_.f[1] if r_.var == 'Range' else r_.f[0]
            if r_.var == 'Range':
                wf.append(binop('Lt', a, b))
            if prev_end is not None:
                # sorted, disjoint, non-adjacent; prev_end + 1 must not overflow for this to be meaningful
                wf.append(all_of([binop('Gt', a, prev_end), binop('Gt', binop('Sub', a, prev_end), Sc(1, 32))]))
            prev_end = b
            rs.append((a, b))
        got[who] = rs
    h.require(all_of(wf) if wf else True, tag + '-ranges-wellformed',
              'entries: human entry, duplicate session, empty entry, or ranges not sorted / disjoint / non-adjacent / Single-vs-Range')
    # semantic preservation: for every line l and session S:  l listed for S  <=>  some input of S covers l
    l = Sc(P.fresh(32, 'anyline'), 32)
    P.inputs['anyline'] = l.v
    conds = []
    for who in ('s1', 's2'):
        lhs = any_of([all_of([binop('Ge', l, a), binop('Le', l, b)]) for (a, b) in got.get(who, [])])
        rhs = any_of([all_of([binop('Ge', l, s), binop('Le', l, e)]) for (s, e, w) in desc if w == who])
        conds.append(zbool(lhs) == zbool(rhs))
    h.require(all_of(conds), tag + '-same-lines', 'the set of lines listed for a session differs from the union of its line attributions')
    # 1-based when the inputs are
    ones = all_of([binop('Ge', s, Sc(1, 32)) for (s, e, w) in desc])
    outs = all_of([binop('Ge', a, Sc(1, 32)) for rs in got.values() for (a, b) in rs])
    h.require(any_of([neg(ones), outs]), tag + '-one-based', 'a produced range starts below line 1 although every input is >= 1')


def ob_ranges(h, shape):
    P = h.P
    M = P.M
    lattrs, desc = sym_lattrs(h, shape['authors'])
    h.inputs_struct = {'fn': shape['fn'], 'line_attributions': desc}
    has_ai = any(w != 'human' for (s, e, w) in desc)
    try:
        if shape['fn'] == 'build':
            v = VecV(lattrs)
            r = P.call_named(RA + '::build_file_attestation_from_line_attributions', [pystr('f.txt'), SliceRef(v, 0, len(lattrs))])
            if r.var == 'None':
                h.require(not has_ai, 'K1-build-some-iff-ai', 'no attestation although a session has lines')
                h.sample = h.witness()
                return
            h.require(has_ai, 'K1-build-some-iff-ai', 'attestation produced without any AI line')
            fa = r.f[0]
        else:
            attributions = MapV('hash', [[pystring('f.txt'), tup(VecV([]), VecV(lattrs))]], 'map')
            va = mk_struct(M, VAS, repo=Opaque('Repository', None), base_commit=pystring('c0mmit'), attributions=attributions,
                           file_contents=MapV('hash', [], 'map'), prompts=MapV('btree', [], 'map'), ts=Sc(1, 128), blame_start_commit=none())
            r = P.call_named(VAS + '::to_authorship_log', [Ref(Cell(va))])
            if r.var != 'Ok':
                h.require(False, 'K1-va-ok', 'to_authorship_log failed')
                return
            log = r.f[0]
            base = field(M, field(M, log, LOG, 'metadata'), SER + '::AuthorshipMetadata', 'base_commit_sha')
            h.require(bytes_equal(as_bytes(base), list(b'c0mmit')), 'K1-base-is-argument', 'base_commit_sha is not the given commit')
            files = field(M, log, LOG, 'attestations').e
            if not files:
                h.require(not has_ai, 'K1-va-some-iff-ai', 'no attestation although a session has lines')
                h.sample = h.witness()
                return
            h.require(len(files) == 1, 'K1-one-attestation-per-file', '%d attestations for one file' % len(files))
            fa = files[0]
    except Panic as e:
        h.panic('K1-no-panic', e.msg)
        return
    name = field(M, fa, SER + '::FileAttestation', 'file_path')
    h.require(bytes_equal(as_bytes(name), list(b'f.txt')), 'K1-file-name', 'attestation names another file')
    check_file_attestation(h, fa, desc, 'K1')
    h.sample = h.witness()


def ob_upsert(h, shape):
    P = h.P
    M = P.M
    lattrs, desc = sym_lattrs(h, shape['authors'])
    h.inputs_struct = {'line_attributions': desc, 'file_exists': shape['exists'], 'prior': shape['prior']}
    meta = mk_struct(M, SER + '::AuthorshipMetadata', schema_version=pystring('authorship/3.0.0'), git_ai_version=none(),
                     base_commit_sha=pystring('b'), prompts=MapV('btree', [], 'map'))
    prior = []
    other = mk_struct(M, SER + '::FileAttestation', file_path=pystring('other.txt'),
                      entries=VecV([mk_struct(M, SER + '::AttestationEntry', hash=pystring('s1'), line_ranges=VecV([mk_enum(M, LR, 'Single', Sc(7, 32))]))]))
    prior.append(other)
    if shape['prior']:
        prior.append(mk_struct(M, SER + '::FileAttestation', file_path=pystring('f.txt'),
                               entries=VecV([mk_struct(M, SER + '::AttestationEntry', hash=pystring('s2'), line_ranges=VecV([mk_enum(M, LR, 'Range', Sc(1, 32), Sc(9, 32))]))])))
    log = mk_struct(M, LOG, attestations=VecV(prior), metadata=meta)
    cell = Cell(log)
    v = VecV(lattrs)
    try:
        P.call_named(RA + '::upsert_file_attestation', [Ref(cell), pystr('f.txt'), SliceRef(v, 0, len(lattrs)), Sc(shape['exists'], 0)])
    except Panic as e:
        h.panic('K1-upsert-no-panic', e.msg)
        return
    files = field(M, cell.v, LOG, 'attestations').e
    names = [concrete_bytes(as_bytes(field(M, f, SER + '::FileAttestation', 'file_path'))).decode() for f in files]
    has_ai = any(w != 'human' for (s, e, w) in desc)
    h.require(names.count('other.txt') == 1, 'K1-upsert-keeps-other-files', 'another file\'s attestation was lost or duplicated')
    want = 1 if (shape['exists'] and has_ai) else 0
    h.require(names.count('f.txt') == want, 'K1-upsert-one-attestation',
              '%d attestations for the file (exists=%s, has AI lines=%s)' % (names.count('f.txt'), shape['exists'], has_ai))
    for f in files:
        if concrete_bytes(as_bytes(field(M, f, SER + '::FileAttestation', 'file_path'))) == b'f.txt':
            check_file_attestation(h, f, desc, 'K1-upsert')
    h.sample = h.witness()


def ob_state(h, shape):
    P = h.P
    M = P.M
    la1, d1 = sym_lattrs(h, shape['authors'], 'a')
    la2, d2 = sym_lattrs(h, [1], 'b')
    attributions = MapV('hash', [[pystring('f.txt'), tup(VecV([]), VecV(la1))], [pystring('gone.txt'), tup(VecV([]), VecV(la2))]], 'map')
    existing = MapV('hash', [[pystring('f.txt'), None]], 'set')
    h.inputs_struct = {'f.txt': d1, 'gone.txt': d2}
    try:
        log = P.call_named(RA + '::build_authorship_log_from_state', [pystr('deadbeef'), Ref(Cell(MapV('btree', [], 'map'))),
                                                                    Ref(Cell(attributions)), Ref(Cell(existing))])
    except Panic as e:
        h.panic('K1-state-no-panic', e.msg)
        return
    base = field(M, field(M, log, LOG, 'metadata'), SER + '::AuthorshipMetadata', 'base_commit_sha')
    h.require(bytes_equal(as_bytes(base), list(b'deadbeef')), 'K1-base-is-argument', 'base_commit_sha is not the given commit')
    files = field(M, log, LOG, 'attestations').e
    names = [concrete_bytes(as_bytes(field(M, f, SER + '::FileAttestation', 'file_path'))).decode() for f in files]
    h.require('gone.txt' not in names, 'K1-only-existing-files', 'attestation for a file that does not exist in the commit')
    has_ai = any(w != 'human' for (s, e, w) in d1)
    h.require(names.count('f.txt') == (1 if has_ai else 0), 'K1-one-attestation-per-file', 'wrong number of attestations for f.txt')
    for f in files:
        if concrete_bytes(as_bytes(field(M, f, SER + '::FileAttestation', 'file_path'))) == b'f.txt':
            check_file_attestation(h, f, d1, 'K1-state')
    h.sample = h.witness()


def ob_compress(h, shape):
    P = h.P
    M = P.M
    n = shape['n']
    lines = []
    prev = None
    for i in range(n):
        l = Sc(P.input_bv('l%d' % i, 32), 32)
        if prev is not None:
            P.assume(binop('Lt', prev, l))
        prev = l
        lines.append(l)
    h.inputs_struct = {'lines': list(lines)}
    v = VecV(list(lines))
    try:
        r = P.call_named(LR + '::compress_lines', [SliceRef(v, 0, n)])
    except Panic as e:
        # current_end + 1 overflows only for u32::MAX followed by another line: impossible for increasing input
        h.panic('K1-compress-no-panic', e.msg)
        return
    rs = []
    wf = []
    prev_end = None
    for r_ in r.e:
        a = r_.f[0]
        b = r_.f[1] if r_.var == 'Range' else r_.f[0]
        if r_.var == 'Range':
            wf.append(binop('Lt', a, b))
        if prev_end is not None:
            wf.append(all_of([binop('Gt', a, prev_end), binop('Gt', binop('Sub', a, prev_end), Sc(1, 32))]))
        prev_end = b
        rs.append((a, b))
    h.require(all_of(wf) if wf else True, 'K1-compress-wellformed', 'compress_lines output not sorted / disjoint / non-adjacent')
    l = Sc(P.fresh(32, 'anyline'), 32)
    P.inputs['anyline'] = l.v
    lhs = any_of([all_of([binop('Ge', l, a), binop('Le', l, b)]) for (a, b) in rs])
    rhs = any_of([binop('Eq', l, x) for x in lines])
    h.require(zbool(lhs) == zbool(rhs), 'K1-compress-same-lines', 'compress_lines changed the set of lines')
    h.sample = h.witness()


# ---------------------------------------------------------------------------
# K3: one note per commit, however the notes tree is laid out

SHAS = ['aa11' + 'a' * 36, 'bb22' + 'b' * 36, 'cc33' + 'c' * 36]


def fanout(sha):
    return sha[:2] + '/' + sha[2:]


def apply_fast_import(script, tree):
    """model of `git fast-import` for the command subset git-ai emits; tree: path -> blob text"""
    marks = {}
    i = 0
    data = bytes(script)
    n = len(data)
    cur_mark = None
    in_commit = False

    def line():
        nonlocal i
        j = data.index(b'\n', i)
        l = data[i:j]
        i = j + 1
        return l
    while i < n:
        l = line()
        if l == b'':
            continue
        if l == b'blob':
            cur_mark = None
            continue
        if l.startswith(b'mark :'):
            cur_mark = int(l[6:])
            continue
        if l.startswith(b'data '):
            k = int(l[5:])
            payload = data[i:i + k]
            if len(payload) != k:
                raise Unsupported('fast-import stream: data length runs past the stream')
            i += k
            if not in_commit:
                marks[cur_mark] = payload
            continue
        if l.startswith(b'commit '):
            in_commit = True
            if l != b'commit refs/notes/ai':
                raise Unsupported('fast-import stream commits to %r' % l)
            continue
        if l.startswith(b'committer ') or l.startswith(b'from '):
            continue
        if l.startswith(b'D '):
            tree.pop(l[2:].decode(), None)
            continue
        if l.startswith(b'M 100644 :'):
            rest = l[len(b'M 100644 :'):]
            mk, path = rest.split(b' ', 1)
            if int(mk) not in marks:
                raise Unsupported('fast-import stream: unknown mark')
            tree[path.decode()] = marks[int(mk)]
            continue
        raise Unsupported('fast-import model: unexpected command %r' % l[:40])
    return tree


def ob_notes_batch(h, shape):
    P = h.P
    M = P.M
    n = shape['n']
    idx = [h.choice(len(SHAS)) for _ in range(n)]
    layout = [h.choice(3) for _ in SHAS]      # how git stored the existing note of each commit: none / flat / fan-out
    tree = {}
    for s_, l in zip(SHAS, layout):
        if l == 1:
            tree[s_] = b'old-' + s_[:4].encode()
        elif l == 2:
            tree[fanout(s_)] = b'old-' + s_[:4].encode()
    has_tip = any(layout)
    P.state['c05_notes'] = {'tree': tree, 'has_tip': has_tip, 'applied': 0}
    entries = [(SHAS[k], 'note %d' % j) for j, k in enumerate(idx)]
    h.inputs_struct = {'entries': [[k, 'note %d' % j] for j, k in enumerate(idx)], 'existing': [['none', 'flat', 'fanout'][l] for l in layout]}
    ev = VecV([tup(pystring(a), pystring(b)) for a, b in entries])
    repo = Agg('git::repository::Repository', [])
    try:
        r = P.call_named('git::refs::notes_add_batch', [Ref(Cell(repo)), SliceRef(ev, 0, n)])
    except Panic as e:
        h.panic('K3-no-panic', e.msg)
        return
    h.require(r.var == 'Ok', 'K3-batch-ok', 'notes_add_batch failed on a healthy repository')
    if r.var != 'Ok':
        return
    st = P.state['c05_notes']
    h.require(st['applied'] == (1 if n else 0), 'K3-one-transaction', '%d fast-import runs for one batch' % st['applied'])
    final = st['tree']
    last = {}
    for a, b in entries:
        last[a] = b.encode('utf-8')
    for s_ in SHAS:
        paths = [p for p in final if p.replace('/', '') == s_]
        if s_ in last:
            h.require(len(paths) == 1, 'K3-exactly-one-note-per-commit',
                      'commit %s has %d note paths after the batch: %r (existing layout %s)' % (s_[:4], len(paths), paths, ['none', 'flat', 'fanout'][layout[SHAS.index(s_)]]))
            if len(paths) == 1:
                h.require(final[paths[0]] == last[s_], 'K3-note-is-the-last-entry-for-the-commit', 'note text of %s is not the last entry given for it' % s_[:4])
        else:
            want = {p: v for p, v in tree.items() if p.replace('/', '') == s_}
            h.require({p: final[p] for p in paths} == want, 'K3-other-notes-untouched', 'the note of a commit outside the batch changed')
    h.sample = h.witness()


PR = 'authorship::authorship_log::PromptRecord'
AGENT = 'authorship::working_log::AgentId'


def _mk_prompt(M, tool):
    agent = mk_struct(M, AGENT, tool=pystring(tool), id=pystring('id-' + tool), model=pystring('m'))
    return mk_struct(M, PR, agent_id=agent, human_author=none(), messages=VecV([]), total_additions=Sc(0, 32),
                     total_deletions=Sc(0, 32), accepted_lines=Sc(0, 32), overriden_lines=Sc(0, 32), messages_url=none())


def parse_note(text):
    """the note format: attestation section, a `---` line, JSON metadata"""
    import json
    head, _, meta = text.partition('\n---\n')
    if not _ and text.startswith('---\n'):
        head, meta = '', text[4:]
    files = []
    for line in head.split('\n'):
        if not line.strip():
            continue
        if line.startswith('  '):
            hsh, _, rs = line.strip().partition(' ')
            lines = set()
            for r in rs.split(','):
                if '-' in r:
                    a, b = r.split('-')
                    lines |= set(range(int(a), int(b) + 1))
                elif r:
                    lines.add(int(r))
            files[-1][1].append((hsh, lines))
        else:
            files.append((line.strip().strip('"'), []))
    return files, json.loads(meta)


def ob_rebase_loop(h, shape):
    """K4: the per-commit loop of rewrite_authorship_after_rebase_v2 (content replay, the slow path).  Everything that
    asks git is environment (which commits already have notes, the tracked paths, the original head's attributions,
    the per-commit changed files and contents); the loop itself, the replay step, the attestation upkeep, the prompt
    metrics and the note assembly are the real code.  Each note handed to notes_add_batch must be well-formed for
    ITS commit: base_commit_sha names it, every session it attests has a prompt record, it lists only files that
    exist in that commit and only lines that exist in them - whether or not the commit touched a tracked file."""
    from harness import c02
    P = h.P
    M = P.M
    n = shape['commits']
    O = ['a', 'b', 'c']
    who = {'a': 's1', 'c': 's2'} if shape.get('two') else {'a': 's1'}
    oc, ol = c02._attrs(M, O, who)
    prompts = MapV('btree', [[pystring(k), MapV('btree', [[pystring('orig'), _mk_prompt(M, t)]], 'map')] for k, t in (('s1', 'cursor'), ('s2', 'claude'))[:2 if shape.get('two') else 1]], 'map')
    va = mk_struct(M, VAS, repo=Agg('git::repository::Repository', []), base_commit=pystring('orig'),
                   attributions=MapV('hash', [[pystring('f'), tup(oc, ol)]], 'map'),
                   file_contents=MapV('hash', [[pystring('f'), StringV(list(c02._text(O)))]], 'map'),
                   prompts=prompts, ts=Sc(1, 128), blame_start_commit=none())
    subs = [x for x in c02.subsets(O)]
    steps = []
    content = list(O)
    per_commit = {}
    state_lines = []
    for i in range(n):
        cm = 'n%d' % (i + 1)
        # a commit that already has a note is an upstream commit: it is skipped and, here, does not touch the tracked file
        k = 0 if cm in shape.get('with_notes', []) else h.choice(4)
        if k == 0:
            steps.append(None)                     # touches no tracked file
        elif k == 1:
            content = []                           # deletes the tracked file
            steps.append(content)
            per_commit[cm] = []
        else:
            content = subs[1 + h.choice(len(subs) - 1)] if k == 2 else list(O)
            steps.append(list(content))
            per_commit[cm] = list(content)
        state_lines.append(list(content))
    P.state['c05_rebase'] = {'va': va, 'commits': ['n%d' % (i + 1) for i in range(n)], 'changed': per_commit, 'written': [], 'with_notes': shape.get('with_notes', [])}
    P.state['c02_open'] = True
    h.inputs_struct = {'original': O, 'authors': who, 'steps': steps, 'with_notes': shape.get('with_notes', [])}
    repo = Agg('git::repository::Repository', [])
    origs = VecV([pystring('o%d' % (i + 1)) for i in range(n)])
    news = VecV([pystring('n%d' % (i + 1)) for i in range(n)])
    try:
        r = P.call_named(RA + '::rewrite_authorship_after_rebase_v2', [Ref(Cell(repo)), pystr('orig'), SliceRef(origs, 0, n), SliceRef(news, 0, n), pystr('Human')])
    except Panic as e:
        h.panic('K4-no-panic', e.msg)
        return
    h.require(r.var == 'Ok', 'K4-rebase-rewrite-ok', 'the rewrite failed')
    if r.var != 'Ok':
        return
    written = P.state['c05_rebase']['written']
    to_process = [c for c in P.state['c05_rebase']['commits'] if c not in shape.get('with_notes', [])]
    got = [c for c, _ in written]
    h.require(len(set(got)) == len(got) and set(got) <= set(to_process), 'K4-notes-only-for-rewritten-commits-once', 'notes written for %r, commits to process %r' % (got, to_process))
    h.cover('K4-a-commit-without-tracked-change-got-a-note', any(steps[int(c[1:]) - 1] is None for c in got))
    h.cover('K4-a-commit-with-tracked-change-got-a-note', any(steps[int(c[1:]) - 1] is not None for c in got))
    for cm, text in written:
        i = int(cm[1:]) - 1
        try:
            files, meta = parse_note(text)
        except Exception as e:
            h.require(False, 'K4-note-parses', 'note of %s does not parse: %s' % (cm, e))
            continue
        h.require(meta.get('base_commit_sha') == cm, 'K4-note-names-its-own-commit', 'note written for %s says base_commit_sha=%r' % (cm, meta.get('base_commit_sha')))
        named = {hsh for _, ents in files for hsh, _ in ents}
        h.require(named <= set(meta.get('prompts', {})), 'K4-every-attested-session-has-a-record', 'note of %s attests sessions %r but has records for %r' % (cm, sorted(named), sorted(meta.get('prompts', {}))))
        nlines = len(state_lines[i])
        for fname, ents in files:
            h.require(fname == 'f' and nlines > 0, 'K4-only-files-of-the-commit', 'note of %s lists %r, which does not exist in that commit' % (cm, fname))
            for hsh, ls in ents:
                h.require(all(1 <= l <= nlines for l in ls), 'K4-only-lines-of-the-file', 'note of %s lists lines %r of a %d-line file' % (cm, sorted(ls), nlines))
                want = {j + 1 for j, x in enumerate(state_lines[i]) if who.get(x) == hsh}
                h.require(ls == want, 'K4-lines-are-the-sessions-surviving-lines', 'note of %s gives session %s lines %r; its surviving lines are %r' % (cm, hsh, sorted(ls), sorted(want)))
    h.sample = h.witness()


OBLIGATIONS = {'rebase_loop': ob_rebase_loop, 'ranges': ob_ranges, 'upsert': ob_upsert, 'state': ob_state, 'compress': ob_compress, 'notes_batch': ob_notes_batch}


def _replay_rebase_loop(v, native):
    """K4 natively: originals and rewritten commits built with git plumbing (upstream carries the tracked file with the
    original head's content, so that a rewritten commit may leave it untouched), the original's note written with
    git notes, then the real rewrite_authorship_after_rebase_v2; the notes are read back with git"""
    import os
    import subprocess
    import tempfile
    from harness import c02
    inp = v['inputs']
    ob = v['obligation']
    if inp.get('with_notes'):
        return {'reproduced': False, 'note': 'rewritten commits that already carry a note are not staged natively'}
    tmp = tempfile.mkdtemp(prefix='vc05r')
    env = dict(os.environ, GIT_AUTHOR_NAME='v', GIT_AUTHOR_EMAIL='v@v', GIT_COMMITTER_NAME='v', GIT_COMMITTER_EMAIL='v@v',
               HOME=tmp, GIT_CONFIG_NOSYSTEM='1', GIT_AUTHOR_DATE='1790000000 +0000', GIT_COMMITTER_DATE='1790000000 +0000')

    clock = [1790000000]      # git-ai does not blame commits older than 2025-07-04

    def git(*a, **kw):
        if a and a[0] == 'commit-tree':
            # later commits are younger (blame is bounded by commit dates)
            clock[0] += 60
            env['GIT_AUTHOR_DATE'] = env['GIT_COMMITTER_DATE'] = '%d +0000' % clock[0]
        p = subprocess.run(['git'] + list(a), cwd=tmp, env=env, stdout=subprocess.PIPE, stderr=subprocess.PIPE, input=kw.get('input'))
        if p.returncode != 0:
            raise RuntimeError('git %r: %s' % (a, p.stderr.decode()))
        return p.stdout.decode().strip()

    def tree(files):
        lines = b''
        for name, content in sorted(files.items()):
            blob = git('hash-object', '-w', '--stdin', input=content)
            lines += ('100644 blob %s\t%s' % (blob, name)).encode() + b'\0'
        return git('mktree', '-z', input=lines)
    try:
        git('init', '-q', '.')
        O = inp['original']
        # real session ids are 16 hex digits
        REAL = {'s1': 'a1a1a1a1a1a1a1a1', 's2': 'b2b2b2b2b2b2b2b2'}
        who = {k: REAL[x] for k, x in inp['authors'].items()}
        otext = c02._text(O)
        base = git('commit-tree', '-m', 'base', tree({'base.txt': b'base\n'}))
        upstream = git('commit-tree', '-m', 'upstream', '-p', base, tree({'base.txt': b'base\n', 'f': otext, 'up.txt': b'u\n'}))
        steps = inp['steps']
        n = len(steps)
        originals = []
        parent = base
        for i in range(n):
            files = {'base.txt': b'base\n', 'f': otext}
            for j in range(1, i + 1):
                files['other%d.txt' % j] = b'x\n'
            parent = git('commit-tree', '-m', 'o%d' % (i + 1), '-p', parent, tree(files))
            originals.append(parent)
        # the note of the original that added the file
        ranges = {}
        for j, x in enumerate(O):
            if who.get(x):
                ranges.setdefault(who[x], []).append(j + 1)
        txt = native('c05_note_text', {'file': 'f', 'sessions': [[k, ls] for k, ls in sorted(ranges.items())], 'base': originals[0],
                                       'records': [REAL['s1'], REAL['s2']][:2 if REAL['s2'] in who.values() else 1]})['text']
        git('notes', '--ref=ai', 'add', '-f', '-F', '-', originals[0], input=txt.encode())
        news = []
        parent = upstream
        cur = otext
        state = []
        for i, st in enumerate(steps):
            if st is not None:
                cur = c02._text(st)
            files = {'base.txt': b'base\n', 'up.txt': b'u\n'}
            if cur:
                files['f'] = cur
            for j in range(1, i + 1):
                files['other%d.txt' % j] = b'x\n'
            files['n%d.txt' % (i + 1)] = b'n\n'
            parent = git('commit-tree', '-m', 'n%d' % (i + 1), '-p', parent, tree(files))
            news.append(parent)
            state.append(cur)
        git('update-ref', 'refs/heads/main', news[-1])
        git('symbolic-ref', 'HEAD', 'refs/heads/main')
        git('reset', '-q', '--hard')
        r = native('c05_rebase_loop', {'repo': tmp, 'original_head': originals[-1], 'originals': originals, 'news': news})
        if 'panic' in r:
            return {'reproduced': v['kind'] == 'panic', 'native': r}
        if v['kind'] == 'panic':
            return {'reproduced': False, 'native': r}
        if not r.get('ok'):
            return {'reproduced': ob == 'K4-rebase-rewrite-ok', 'native': r}
        bad = {k: False for k in ('K4-note-parses', 'K4-note-names-its-own-commit', 'K4-every-attested-session-has-a-record', 'K4-only-files-of-the-commit',
                                  'K4-only-lines-of-the-file', 'K4-lines-are-the-sessions-surviving-lines')}
        notes = {}
        for i, cm in enumerate(news):
            p = subprocess.run(['git', 'notes', '--ref=ai', 'show', cm], cwd=tmp, env=env, stdout=subprocess.PIPE, stderr=subprocess.PIPE)
            if p.returncode != 0:
                continue
            text = p.stdout.decode()
            notes[i] = text
            try:
                files, meta = parse_note(text.rstrip('\n'))
            except Exception:
                bad['K4-note-parses'] = True
                continue
            if meta.get('base_commit_sha') != cm:
                bad['K4-note-names-its-own-commit'] = True
            named = {hsh for _, ents in files for hsh, _ in ents}
            if not named <= set(meta.get('prompts', {})):
                bad['K4-every-attested-session-has-a-record'] = True
            lines_now = [ln for ln in state[i].decode().split('\n') if ln]
            text_of = {c02.LINES[x].decode().rstrip('\n'): x for x in O}
            for fname, ents in files:
                if fname != 'f' or not lines_now:
                    bad['K4-only-files-of-the-commit'] = True
                    continue
                for hsh, ls in ents:
                    if not all(1 <= l <= len(lines_now) for l in ls):
                        bad['K4-only-lines-of-the-file'] = True
                    want = {j + 1 for j, ln in enumerate(lines_now) if who.get(text_of.get(ln)) == hsh}
                    if ls != want:
                        bad['K4-lines-are-the-sessions-surviving-lines'] = True
        return {'reproduced': bool(bad.get(ob)), 'native': r, 'notes': notes}
    finally:
        subprocess.call(['rm', '-rf', tmp])


def replay(v, native):
    if 'steps' in v['inputs']:
        return _replay_rebase_loop(v, native)
    if 'existing' in v['inputs']:
        inp = v['inputs']
        r = native('c05_notes_batch', inp)
        if 'panic' in r:
            return {'reproduced': v['kind'] == 'panic', 'native': r}
        if v['kind'] == 'panic':
            return {'reproduced': False, 'native': r}
        last = {}
        for k, text in inp['entries']:
            last[k] = text
        bad = {'K3-batch-ok': not r.get('ok'), 'K3-exactly-one-note-per-commit': False, 'K3-note-is-the-last-entry-for-the-commit': False, 'K3-other-notes-untouched': False}
        for i, c in enumerate(r.get('commits', [])):
            if i in last:
                if len(c['paths']) != 1:
                    bad['K3-exactly-one-note-per-commit'] = True
                elif c['texts'][0] != last[i]:
                    bad['K3-note-is-the-last-entry-for-the-commit'] = True
            else:
                want = [] if inp['existing'][i] == 'none' else ['old-%d' % i]
                if c['texts'] != want:
                    bad['K3-other-notes-untouched'] = True
        return {'reproduced': bool(bad.get(v['obligation'])), 'native': r}
    inp = v['inputs']
    ob = v['obligation']
    if 'compress' in ob:
        r = native('c05_compress', {'lines': inp['lines']})
    elif 'line_attributions' in inp and 'file_exists' in inp:
        r = native('c05_upsert', inp)
    elif 'fn' in inp:
        if inp['fn'] == 'va':
            import subprocess
            import tempfile
            tmp = tempfile.mkdtemp(prefix='vc05')
            subprocess.run(['git', 'init', '-q', tmp], stdout=subprocess.PIPE, stderr=subprocess.PIPE)
            try:
                r = native('c05_ranges', dict(inp, repo=tmp))
            finally:
                subprocess.call(['rm', '-rf', tmp])
        else:
            r = native('c05_ranges', inp)
    else:
        r = native('c05_state', inp)
    if 'panic' in r:
        return {'reproduced': v['kind'] == 'panic', 'native': r}
    if v['kind'] == 'panic':
        return {'reproduced': False, 'native': r}
    return {'reproduced': any(ob.endswith(x) or ob == x for x in r.get('failed', [])), 'native': r}


def install(M):
    _install_notes(M)
    _install_rebase(M)


def _install_rebase(M):
    def st_(P):
        st = P.state.get('c05_rebase')
        if st is None:
            raise Unsupported('rebase environment outside the rebase-loop obligation')
        return st

    def with_notes(P, c, args, dt):
        return ok(MapV('hash', [[pystring(x), None] for x in st_(P)['with_notes']], 'set'))

    def pathspecs(P, c, args, dt):
        st_(P)
        return ok(VecV([pystring('f')]))

    def fast_path(P, c, args, dt):
        st_(P)
        return ok(FALSE)

    def merge_base(P, c, args, dt):
        return err(Opaque('GitAiError', 'no merge base'))

    def block_on(P, c, args, dt):
        return ok(clone_val(P, st_(P)['va']))

    def tree_pairs(P, c, args, dt):
        return ok(VecV([tup(pystring(bytes(concrete_bytes(as_bytes(x))).decode()), pystring('tp'), pystring('tc')) for x in elems_of(args[1])]))

    def changed(P, c, args, dt):
        st = st_(P)
        from harness import c02
        ent = []
        for cm, lines in st['changed'].items():
            ent.append([pystring(cm), tup(MapV('hash', [[pystring('f'), None]], 'set'), MapV('hash', [[pystring('f'), StringV(list(c02._text(lines)))]], 'map'))])
        return ok(MapV('hash', ent, 'map'))

    def load_notes(P, c, args, dt):
        return ok(MapV('hash', [], 'map'))

    def add_batch(P, c, args, dt):
        st = st_(P)
        for e in elems_of(args[1]):
            st['written'].append((bytes(concrete_bytes(as_bytes(e.f[0]))).decode(), bytes(concrete_bytes(as_bytes(e.f[1]))).decode()))
        return ok(unit())
    RAx = RA
    M.env['git::refs::commits_with_authorship_notes'] = with_notes
    M.env[RAx + '::get_pathspecs_from_commits'] = pathspecs
    M.env[RAx + '::filter_pathspecs_to_ai_touched_files'] = pathspecs
    M.env[RAx + '::try_fast_path_rebase_note_remap'] = fast_path
    M.env['git::repository::Repository::merge_base'] = merge_base
    M.env['smol::block_on'] = block_on
    M.env[RAx + '::build_first_parent_tree_pairs'] = tree_pairs
    M.env[RAx + '::collect_changed_file_contents_for_commit_pairs'] = changed
    M.env[RAx + '::load_note_contents_for_commit_pairs'] = load_notes
    M.env['git::refs::notes_add_batch'] = add_batch


def _install_notes(M):
    def global_args(P, c, args, dt):
        return VecV([])

    def exec_git(P, c, args, dt):
        st = P.state.get('c05_notes')
        if st is None:
            raise Unsupported('exec_git without a harness answer')
        argv = [bytes(concrete_bytes(as_bytes(a)) or b'?').decode() for a in elems_of(args[0])]
        if 'rev-parse' in argv:
            if st['has_tip']:
                return ok(Agg('std::process::Output', [Opaque('ExitStatus', 0), VecV([Sc(b, 8) for b in b'1234567890123456789012345678901234567890\n']), VecV([])]))
            return err(mk_enum(P.M, 'error::GitAiError', 'GitCliError', some(Sc(128, 32, True)), pystring('fatal: Needed a single revision'), VecV([])))
        raise Unsupported('exec_git %r' % argv)

    def exec_git_stdin(P, c, args, dt):
        st = P.state.get('c05_notes')
        argv = [bytes(concrete_bytes(as_bytes(a)) or b'?').decode() for a in elems_of(args[0])]
        if st is None or 'fast-import' not in argv:
            raise Unsupported('exec_git_stdin %r' % argv)
        raw = [(b.v if isinstance(b, Sc) and b.concrete else b) for b in elems_of(args[1])]
        if concrete_bytes(raw) is None:
            raise Unsupported('symbolic fast-import stream')
        apply_fast_import(concrete_bytes(raw), st['tree'])
        st['applied'] += 1
        return ok(Agg('std::process::Output', [Opaque('ExitStatus', 0), VecV([]), VecV([])]))
    M.env['git::repository::Repository::global_args_for_exec'] = global_args
    M.env['git::repository::exec_git'] = exec_git
    M.env['git::repository::exec_git_stdin'] = exec_git_stdin
MUST_COVER = ['K4-a-commit-without-tracked-change-got-a-note', 'K4-a-commit-with-tracked-change-got-a-note']
