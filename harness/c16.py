"""C16 — the attribution tracker is total, bounded and conservative.

Encoded from MIR: authorship::attribution_tracker::{AttributionTracker::update_attributions
(compute_diffs, process_changed_hunk, build_token_aligned_diffs, append_range_diffs,
build_diff_catalog, detect_moves, transform_attributions, merge_attributions ...),
attribute_unattributed_ranges, attributions_to_line_attributions, line_attributions_to_attributions,
tokenize_non_whitespace, collect_line_metadata, LineBoundaries, floor/ceil_char_boundary}
and authorship::imara_diff_utils::{capture_diff_slices, hunks_to_diff_ops}.
imara-diff itself is replaced at its API by a reference LCS (mirsym/models/imara.py).
"""
import itertools
import z3
from harness.lib import *
from mirsym.models.strs import WS_CP, char_start

ID = 'C16'
AT = 'authorship::attribution_tracker'
ATTR = AT + '::Attribution'
LATTR = AT + '::LineAttribution'
CFG = {'max_steps': 3000000, 'max_depth': 80}

ALPHA_TEXT = [97, 98, 32, 10, 61]            # a b SP LF =
ALPHA_TOK = [97, 32, 10, 61, 34, 48, 46, 92, 120, 13, 43, 45]   # a SP LF = " 0 . \ x CR + -
E_ACUTE = [0xC3, 0xA9]
HAN = [0xE6, 0xBC, 0xA2]

BOUNDS = {
    'quick': 'L2 update_attributions: old text of <=3 symbolic bytes over {a b SP LF =} (plus templates with é / 漢 / CRLF), new text = old with one edit (insert / delete / replace of 1-2 symbolic bytes at a fixed position, or identical, or unrelated 3-byte text), <=2 previous attributions chosen from 10 layouts (covering, partial, zero-length, out of range, overlapping, unsorted, nested with equal author and timestamp), authors {human, s1, s2}; L3 line projection: content <=5 symbolic bytes over {a SP LF} (+ multi-byte templates), <=2 attributions from the layouts; round trip lines->chars->lines on the same contents; L4 tokenizer: every string of <=3 bytes over {a SP LF = " 0 . \\ x CR} and templates with é/漢, every sub-range on char boundaries',
    'thorough': 'as quick with old texts of <=4 symbolic bytes (2-byte edits and all ten layouts up to 3 bytes; 1-byte edits and the quick layouts at 4 bytes), tokenizer and line projection up to 5-6 bytes',
}
OUTSIDE = 'lines longer than a few bytes and the 32 KiB / 256-line fast paths (thresholds are constants far above the bound); move detection beyond what 4-byte texts allow (needs >=3 equal lines); which minimal edit script imara-diff picks when several exist (one valid script per equality pattern is explored)'
ASSUMPTIONS = [
    'imara_diff::Diff::compute is replaced by a reference LCS producing a valid minimal edit script (common prefix/suffix stripped first, as Myers implementations do)',
    'symbolic bytes are ASCII from the stated alphabets; multi-byte characters are concrete bytes of a template',
    'debug_log / timing calls have empty bodies',
]

# attribution layouts over a text of length n: list of (start, end, author, ts) with n substituted
def layouts(n):
    h = max(n // 2, 1)
    return [
        [],
        [(0, n, 's1', 5)],
        [(0, n, 'human', 5)],
        [(0, h, 's1', 5), (h, n, 'human', 7)],
        [(h, n, 's2', 9), (0, h, 's1', 5)],                 # unsorted
        [(0, n, 's1', 5), (0, h, 'human', 8)],              # overlapping, later human
        [(h, h, 's1', 6), (0, n, 'human', 3)],              # zero-length marker
        [(0, n + 3, 's1', 5)],                              # beyond the text
        [(n + 1, n + 2, 's2', 5), (1, n, 's1', 4)],         # out of range + partial
        [(0, n, 's1', 5), (min(1, n), max(min(2, n), min(1, n)), 's1', 5)],   # nested, same author and timestamp
    ]


def plan(tier, seed):
    tasks = []
    nmax = 4 if tier == 'quick' else 5
    # L4 tokenizer
    for n in range(0, (3 if tier == 'quick' else nmax) + 1):
        tasks.append(('tokenize', {'n': n, 'tpl': None}))
    for tpl in ('acute_mid', 'han_lead', 'acute_tail', 'quote_han'):
        tasks.append(('tokenize', {'n': 2, 'tpl': tpl}))
    tasks.append(('tokenize', {'n': 2, 'tpl': 'sci'}))
    tasks.append(('tokenize', {'n': 2, 'tpl': 'hex'}))
    # L2 moved blocks and whitespace-only reformats
    for pre in (0, 1, 2):
        for tail in (False, True):
            for mid in ('s1', 's2'):
                tasks.append(('update_special', {'family': 'move', 'pre': pre, 'tail': tail, 'mid': mid}))
    for ded in (4, 12):
        for tail in (False, True):
            tasks.append(('update_special', {'family': 'move', 'pre': 0, 'tail': tail, 'mid': 's1', 'dedent': ded}))
    for w1 in WS_FORMS:
        for w2 in WS_FORMS:
            if w1 == w2:
                continue
            tasks.append(('update_special', {'family': 'ws', 'w1': w1, 'w2': w2, 'trail': None, 'indent': False}))
    for tr in WS_FORMS:
        tasks.append(('update_special', {'family': 'ws', 'w1': 'sp', 'w2': 'sp', 'trail': tr, 'indent': tr in ('sp', 'nbsp')}))
    # L3 line projection + round trip
    for n in range(0, nmax + 2):
        for lay in range(10):
            tasks.append(('lines', {'n': n, 'tpl': None, 'layout': lay}))
    for lay in range(10):
        tasks.append(('lines', {'n': 4, 'tpl': 'crlf3', 'layout': lay}))
    for tpl in ('acute_mid', 'crlf', 'han_lead'):
        for lay in (1, 3, 5, 6, 7):
            tasks.append(('lines', {'n': 3, 'tpl': tpl, 'layout': lay}))
    # L2 update
    edits = [('same', 0, 0), ('ins', 0, 1), ('ins', 1, 1), ('ins', 'end', 1), ('del', 0, 1), ('del', 'last', 1), ('rep', 1, 1), ('fresh', 0, 1)]
    lays = [1, 3, 4, 5, 6, 7, 9]
    n_upd = 3
    if tier != 'quick':
        edits += [('fresh', 0, 2), ('ins', 'end', 2), ('del', 1, 1), ('rep', 0, 1), ('ins', 2, 1), ('ins', 1, 2), ('rep', 'last', 2), ('del', 0, 2), ('ins', 3, 1), ('rep', 2, 2), ('fresh', 0, 3)]
        lays = list(range(10))
        n_upd = 4
    for n in range(0, n_upd + 1):
        for e in edits:
            if e[0] in ('del', 'rep') and n == 0:
                continue
            if isinstance(e[1], int) and e[1] > n:
                continue
            for lay in lays:
                if n == 0 and lay > 1:
                    continue
                if tier == 'quick' and n == 3 and lay in (4, 6) and e[0] not in ('same', 'ins'):
                    continue
                # thorough: 4-byte old texts only with the 1-byte edits and the quick layouts (625 x 5 byte patterns per shape)
                if n == 4 and (e[2] > 1 or lay not in (1, 3, 4, 5, 6, 7, 9)):
                    continue
                tasks.append(('update', {'n': n, 'tpl': None, 'edit': list(e), 'layout': lay}))
    for lay in (1, 2):
        tasks.append(('update', {'n': 0, 'tpl': 'sci_fixed', 'edit': ['ins', 2, 1], 'layout': lay}))
        tasks.append(('update', {'n': 0, 'tpl': 'sci_fixed', 'edit': ['rep', 2, 1], 'layout': lay}))
    for tpl in ('acute_mid', 'crlf', 'han_lead'):
        for e in (('same', 0, 0), ('ins', 1, 1), ('del', 0, 1), ('rep', 'last', 1), ('ins', 'end', 1)):
            for lay in ((1, 5, 7) if tier == 'quick' else (1, 3, 5, 7)):
                tasks.append(('update', {'n': 2 if tier == 'quick' else 3, 'tpl': tpl, 'edit': list(e), 'layout': lay}))
    return tasks


def text_bytes(h, name, n, tpl, alphabet):
    sym = [h.byte_in('%s%d' % (name, i), alphabet) for i in range(n)]
    if tpl is None:
        return sym
    if tpl == 'acute_mid':
        return sym[:1] + E_ACUTE + sym[1:]
    if tpl == 'acute_tail':
        return sym + E_ACUTE
    if tpl == 'han_lead':
        return HAN + sym
    if tpl == 'crlf':
        return sym[:1] + [13, 10] + sym[1:]
    if tpl == 'crlf3':
        out = []
        for i, b in enumerate(sym):
            out.append(b)
            if i < 3:
                out += [13, 10]
        return out
    if tpl == 'quote_han':
        return [34] + HAN + sym
    if tpl == 'sci_fixed':
        return [49, 101, 53, 10] + sym
    if tpl == 'sci':
        return [49, 101] + sym[:1] + [53] + sym[1:]        # 1e?5?
    if tpl == 'hex':
        return [48] + sym[:1] + [102] + sym[1:]          # 0?f?
    raise ValueError(tpl)


def mk_attr(M, a, b, who, ts):
    return mk_struct(M, ATTR, start=usize(a), end=usize(b), author_id=pystring(who), ts=Sc(ts, 128))


def attrs_of_layout(M, lay, n):
    return [mk_attr(M, a, b, w, t) for (a, b, w, t) in layouts(n)[lay]]


# ---------------------------------------------------------------------------
# L4 tokenizer

def ob_tokenize(h, shape):
    P = h.P
    bs = text_bytes(h, 't', shape['n'], shape['tpl'], ALPHA_TOK)
    L = len(bs)
    # every sub-range on char boundaries
    bounds = [i for i in range(L + 1) if char_start(bs, i)]
    pairs = [(a, b) for a in bounds for b in bounds if a <= b]
    a, b = pairs[h.choice(len(pairs))]
    h.inputs_struct = {'content': ByteStr(bs), 'range': [a, b]}
    try:
        r = P.call_named(AT + '::tokenize_non_whitespace', [mk_str(bs), tup(usize(a), usize(b)), usize(1)])
    except Panic as e:
        h.panic('L4-no-panic', e.msg)
        return
    toks = r.e
    prev_end = a
    okk = True
    conds = []
    for t in toks:
        # Token { lexeme, start, end, line }
        names = P.M.src.struct_fields(AT + '::Token')
        st = t.f[names.index('start')]
        en = t.f[names.index('end')]
        if not (st.concrete and en.concrete):
            raise Unsupported('symbolic token bounds')
        s_, e_ = st.v, en.v
        if not (prev_end <= s_ < e_ and char_start(bs, s_) and (e_ >= L or char_start(bs, e_))):
            okk = False
        if s_ < L:
            # first character of a token is not whitespace
            b0 = bs[s_]
            if isinstance(b0, int):
                if b0 in (32, 9, 10, 11, 12, 13):
                    okk = False
            else:
                conds.append(neg(any_of([byte_eq(b0, w) for w in (32, 9, 10, 11, 12, 13)])))
        prev_end = e_
        # the lexeme is the text of the token
        lex = as_bytes(t.f[names.index('lexeme')])
        if okk and e_ <= L:
            conds.append(bytes_equal(list(lex), list(bs[s_:e_])))
        # a token may run past `end` only inside a string literal (documented behaviour: never past the text)
        if e_ > L:
            okk = False
    h.require(okk, 'L4-token-structure', 'tokens not ordered / disjoint / on char boundaries / inside the text')
    h.require(all_of(conds) if conds else True, 'L4-token-nonblank', 'a token starts with whitespace or its lexeme is not the text it spans')
    # every non-whitespace byte of the range is inside some token
    cover = []
    for i in range(a, b):
        inside = any(t.f[1].v <= i < t.f[2].v for t in toks) if toks else False
        if not inside:
            bi = bs[i]
            if isinstance(bi, int):
                if bi < 0x80 and bi not in (32, 9, 10, 11, 12, 13):
                    cover.append(False)
                elif bi >= 0x80 and not is_cont_ws(bs, i):
                    cover.append(False)
            else:
                cover.append(any_of([byte_eq(bi, w) for w in (32, 9, 10, 11, 12, 13)]))
    h.require(all_of(cover) if cover else True, 'L4-covers-nonblank', 'a non-whitespace byte of the range belongs to no token')
    h.sample = h.witness()


def is_cont_ws(bs, i):
    return False


# ---------------------------------------------------------------------------
# L3 line projection: reference model, evaluated along the path

def ref_lines(P, bs):
    """line ranges (start, end) with end exclusive incl. newline — LineBoundaries"""
    out = []
    start = 0
    for i, b in enumerate(bs):
        if P.branch(byte_eq(b, 10)):
            out.append((start, i + 1))
            start = i + 1
    if start < len(bs):
        out.append((start, len(bs)))
    return out


def is_ws_at(P, bs, i):
    """(is whitespace char starting at i, width)"""
    b = bs[i]
    if isinstance(b, int):
        if b < 0x80:
            return b in (9, 10, 11, 12, 13, 32), 1
        w = 2 if b < 0xE0 else (3 if b < 0xF0 else 4)
        cp = ord(bytes(bs[i:i + w]).decode('utf-8'))
        return cp in WS_CP, w
    return P.branch(mk_bool(z3.Or([b == x for x in (9, 10, 11, 12, 13, 32)]))), 1


def reference_line_authors(P, bs, attrs):
    """the property's own words: per line, among attributions that cover a non-whitespace
    character of the line (any overlapping attribution when the line is blank; zero-length
    markers inside the line always count) the one with the latest timestamp decides (first
    in (start, end, index) order on ties); -> list of author names (or 'human')"""
    lines = ref_lines(P, bs)
    order = sorted(range(len(attrs)), key=lambda k: (attrs[k][0], attrs[k][1], k))
    res = []
    for (ls, le) in lines:
        blank = True
        i = ls
        nonws = []
        while i < le:
            ws, w = is_ws_at(P, bs, i)
            if not ws:
                blank = False
                nonws.append((i, i + w))
            i += w
        cands = []
        for k in order:
            a, b, who, ts = attrs[k]
            if not (a < le and b > ls):
                # Attribution::overlaps(start, end): self.start < end && self.end > start
                continue
            covers = any(a < e and b > s for (s, e) in nonws)
            marker = a == b
            if covers or blank or marker:
                cands.append(k)
        if not cands:
            res.append('human')
            continue
        best = cands[0]
        for k in cands[1:]:
            if attrs[k][3] > attrs[best][3]:
                best = k
        res.append(attrs[best][2])
    return res


def expand_line_attrs(P, la_vec, M):
    """Vec<LineAttribution> -> {line: author} ; also structural validity"""
    names = M.src.struct_fields(LATTR)
    out = {}
    ok_struct = True
    prev_end = 0
    for la in la_vec.e:
        s = la.f[names.index('start_line')]
        e = la.f[names.index('end_line')]
        who = concrete_bytes(as_bytes(la.f[names.index('author_id')])).decode()
        if not (s.concrete and e.concrete):
            raise Unsupported('symbolic line numbers in projection')
        if not (1 <= s.v <= e.v and s.v > prev_end):
            ok_struct = False
        prev_end = e.v
        for l in range(s.v, e.v + 1):
            if l in out:
                ok_struct = False
            out[l] = who
    return out, ok_struct


def ob_lines(h, shape):
    P = h.P
    M = P.M
    bs = text_bytes(h, 'c', shape['n'], shape['tpl'], [97, 32, 10])
    n = len(bs)
    lay = layouts(n)[shape['layout']]
    attrs = [mk_attr(M, a, b, w, t) for (a, b, w, t) in lay]
    h.inputs_struct = {'content': ByteStr(bs), 'attributions': [list(x) for x in lay]}
    av = VecV(attrs)
    try:
        r = P.call_named(AT + '::attributions_to_line_attributions', [SliceRef(av, 0, len(attrs)), mk_str(bs)])
    except Panic as e:
        h.panic('L3-no-panic', e.msg)
        return
    got, ok_struct = expand_line_attrs(P, r, M)
    ref = reference_line_authors(P, bs, lay)
    nlines = len(ref)
    h.require(ok_struct and all(1 <= l <= nlines for l in got), 'L3-lines-wellformed',
              'line attributions not sorted / disjoint / within 1..=line_count')
    want = {i + 1: a for i, a in enumerate(ref) if a != 'human'}
    got_ai = {l: a for l, a in got.items() if a != 'human'}
    h.require(got_ai == want, 'L3-dominant-author', 'line authors %r differ from the latest substantive attribution %r' % (got_ai, want))
    # round trip: lines -> chars -> lines gives the same AI lines
    try:
        back = P.call_named(AT + '::line_attributions_to_attributions', [Ref(Cell(r)), mk_str(bs), Sc(42, 128)])
        again = P.call_named(AT + '::attributions_to_line_attributions', [SliceRef(back, 0, len(back.e)), mk_str(bs)])
    except Panic as e:
        h.panic('L3-roundtrip-no-panic', e.msg)
        return
    got2, ok2 = expand_line_attrs(P, again, M)
    g2 = {l: a for l, a in got2.items() if a != 'human'}
    h.require(g2 == got_ai, 'L3-lines-chars-lines', 'lines->chars->lines changed the AI lines: %r -> %r' % (got_ai, g2))
    h.sample = h.witness()


# ---------------------------------------------------------------------------
# L2 whole update

def apply_edit(h, old, edit):
    kind, pos, k = edit
    ALPHA_TEXT = globals()['ALPHA_TEXT'] + ([43, 45] if (h.shape or {}).get('tpl') == 'sci_fixed' else [])
    n = len(old)
    if pos == 'end':
        pos = n
    if pos == 'last':
        pos = max(n - k, 0)
    if kind == 'same':
        return list(old)
    if kind == 'fresh':
        return [h.byte_in('f%d' % i, ALPHA_TEXT) for i in range(k)]
    if kind == 'ins':
        ins = [h.byte_in('i%d' % i, ALPHA_TEXT) for i in range(k)]
        return old[:pos] + ins + old[pos:]
    if kind == 'del':
        return old[:pos] + old[pos + k:]
    if kind == 'rep':
        rep = [h.byte_in('r%d' % i, ALPHA_TEXT) for i in range(k)]
        return old[:pos] + rep + old[pos + k:]
    raise ValueError(edit)


def snap_pos(bs, pos):
    while pos < len(bs) and not char_start(bs, pos):
        pos += 1
    return pos


def ob_update(h, shape):
    P = h.P
    M = P.M
    old = text_bytes(h, 'o', shape['n'], shape['tpl'], ALPHA_TEXT)
    edit = list(shape['edit'])
    if isinstance(edit[1], int):
        edit[1] = snap_pos(old, edit[1])
        if edit[0] in ('del', 'rep'):
            # remove whole characters only
            end = snap_pos(old, min(edit[1] + edit[2], len(old)))
            edit[2] = end - edit[1]
    elif edit[1] == 'last' and edit[0] in ('del', 'rep'):
        p = max(len(old) - edit[2], 0)
        while p > 0 and not char_start(old, p):
            p -= 1
        edit[1] = p
        edit[2] = len(old) - p
    new = apply_edit(h, old, edit)
    n = len(old)
    lay = layouts(n)[shape['layout']]
    # previous attributions lie on character boundaries of the old text (or beyond it)
    lay = [(snap_pos(old, a) if a <= n else a, snap_pos(old, b) if b <= n else b, w, t) for (a, b, w, t) in lay]
    who = ['s1', 's2', 'human'][h.choice(3)]
    attrs = [mk_attr(M, a, b, w, t) for (a, b, w, t) in lay]
    h.inputs_struct = {'old': ByteStr(old), 'new': ByteStr(new), 'attributions': [list(x) for x in lay], 'author': who, 'ts': 20}
    av = VecV(attrs)
    try:
        tr = P.call_named(AT + '::AttributionTracker::new', [])
        r = P.call_named(AT + '::AttributionTracker::update_attributions',
                         [Ref(Cell(tr)), mk_str(old), mk_str(new), SliceRef(av, 0, len(attrs)), pystr(who), Sc(20, 128)])
    except Panic as e:
        h.panic('L2-no-panic', e.msg)
        return
    if r.var != 'Ok':
        h.require(False, 'L2-ok', 'update_attributions returned Err')
        return
    out = r.f[0]
    names = M.src.struct_fields(ATTR)
    L = len(new)
    okb = True
    res = []
    for at in out.e:
        s = at.f[names.index('start')]
        e = at.f[names.index('end')]
        if not (s.concrete and e.concrete):
            raise Unsupported('symbolic output range')
        if not (s.v <= e.v <= L and char_start(new, s.v) and char_start(new, e.v)):
            okb = False
        res.append((s.v, e.v, concrete_bytes(as_bytes(at.f[names.index('author_id')])).decode(), at.f[names.index('ts')].v))
    h.require(okb, 'L2-ranges-inside-new-text', 'an output range is inverted, beyond the new text or off a char boundary: %r' % (res,))
    # line projections before / after
    try:
        lb = P.call_named(AT + '::attributions_to_line_attributions', [SliceRef(av, 0, len(attrs)), mk_str(old)])
        la = P.call_named(AT + '::attributions_to_line_attributions', [SliceRef(out, 0, len(out.e)), mk_str(new)])
    except Panic as e:
        h.panic('L2-projection-no-panic', e.msg)
        return
    before, _ = expand_line_attrs(P, lb, M)
    after, ok_struct = expand_line_attrs(P, la, M)
    before = {l: a for l, a in before.items() if a != 'human'}
    after = {l: a for l, a in after.items() if a != 'human'}
    old_lines = ref_lines(P, old)
    new_lines = ref_lines(P, new)
    h.require(ok_struct and all(1 <= l <= len(new_lines) for l in after), 'L2-lines-wellformed', 'projection of the result is malformed')
    in_range_layout = all(0 <= a <= b <= n for (a, b, w, t) in lay)
    known = [('zero-length-marker-dropped-by-update', z3.BoolVal(any(a == b for (a, b, w, t) in lay)))]
    if edit[0] == 'same':
        if in_range_layout:
            h.require(after == before, 'L2-identical-text-keeps-lines', 'identical text changed line attribution %r -> %r' % (before, after), known)
    else:
        # common prefix / suffix lines (byte-identical, same index from the start / from the end) keep their author
        k = 0
        while k < len(old_lines) and k < len(new_lines):
            (a0, a1), (b0, b1) = old_lines[k], new_lines[k]
            if a1 - a0 != b1 - b0 or not P.branch(bytes_eq(old[a0:a1], new[b0:b1])):
                break
            k += 1
        pre = k
        if in_range_layout:
            for l in range(1, pre + 1):
                h.require(after.get(l) == before.get(l), 'L2-unchanged-prefix-line-keeps-author',
                          'line %d is unchanged but its author went %r -> %r' % (l, before.get(l), after.get(l)), known)
        s = 0
        while s < len(old_lines) - pre and s < len(new_lines) - pre:
            (a0, a1), (b0, b1) = old_lines[len(old_lines) - 1 - s], new_lines[len(new_lines) - 1 - s]
            if a1 - a0 != b1 - b0 or not P.branch(bytes_eq(old[a0:a1], new[b0:b1])):
                break
            s += 1
        if in_range_layout:
            for j in range(s):
                lo, ln = len(old_lines) - j, len(new_lines) - j
                h.require(after.get(ln) == before.get(lo), 'L2-unchanged-suffix-line-keeps-author',
                          'trailing line %d is unchanged but its author went %r -> %r' % (ln, before.get(lo), after.get(ln)), known)
        # text that is new (other than pure whitespace) belongs to the reporting author: at least as many
        # non-blank bytes carry the reporter's fresh attribution as were inserted (equal neighbours make it
        # ambiguous WHICH byte is the new one, never how many)
        if edit[0] == 'ins':
            pos = edit[1] if isinstance(edit[1], int) else len(old)
            ins_nonblank = 0
            for i in range(pos, pos + edit[2]):
                ws, w = is_ws_at(P, new, i)
                if not ws:
                    ins_nonblank += 1
            credited = 0
            for i in range(len(new)):
                if isinstance(new[i], int) and new[i] >= 0x80:
                    continue
                ws, w = is_ws_at(P, new, i)
                if ws:
                    continue
                if any(a <= i < b and w_ == who and t_ == 20 for (a, b, w_, t_) in res):
                    credited += 1
            h.require(credited >= ins_nonblank, 'L2-inserted-text-belongs-to-reporter',
                      '%d non-blank bytes were inserted but only %d carry the reporting author\'s new attribution' % (ins_nonblank, credited))
        # text that is new belongs to the reporting author: when the old text is empty, or nothing of it survives
        if n == 0 or edit[0] == 'fresh' and False:
            for li, (b0, b1) in enumerate(new_lines):
                nonblank = False
                i = b0
                while i < b1:
                    ws, w = is_ws_at(P, new, i)
                    if not ws:
                        nonblank = True
                    i += w
                if nonblank:
                    want = None if who == 'human' else who
                    h.require(after.get(li + 1) == want, 'L2-new-text-belongs-to-author',
                              'new line %d is attributed to %r, reporting author is %r' % (li + 1, after.get(li + 1), who))
    h.sample = h.witness()


WS_FORMS = {'sp': [32], 'tab': [9], 'vt': [11], 'nbsp': [0xC2, 0xA0], 'ideo': [0xE3, 0x80, 0x80], 'em': [0xE2, 0x80, 0x83]}


def _run_update(h, old, new, lay, who):
    P = h.P
    M = P.M
    attrs = [mk_attr(M, a, b, w, t) for (a, b, w, t) in lay]
    av = VecV(attrs)
    tr = P.call_named(AT + '::AttributionTracker::new', [])
    r = P.call_named(AT + '::AttributionTracker::update_attributions',
                     [Ref(Cell(tr)), mk_str(old), mk_str(new), SliceRef(av, 0, len(attrs)), pystr(who), Sc(20, 128)])
    if r.var != 'Ok':
        return None, None, None, None
    out = r.f[0]
    names = M.src.struct_fields(ATTR)
    res = []
    for at in out.e:
        s_ = at.f[names.index('start')]
        e_ = at.f[names.index('end')]
        if not (s_.concrete and e_.concrete):
            raise Unsupported('symbolic output range')
        res.append((s_.v, e_.v, concrete_bytes(as_bytes(at.f[names.index('author_id')])).decode(), at.f[names.index('ts')].v))
    lb = P.call_named(AT + '::attributions_to_line_attributions', [SliceRef(av, 0, len(attrs)), mk_str(old)])
    la = P.call_named(AT + '::attributions_to_line_attributions', [SliceRef(out, 0, len(out.e)), mk_str(new)])
    before, _ = expand_line_attrs(P, lb, M)
    after, ok_struct = expand_line_attrs(P, la, M)
    return res, {l: a for l, a in before.items() if a != 'human'}, {l: a for l, a in after.items() if a != 'human'}, ok_struct


def ob_update_special(h, shape):
    """moved blocks and whitespace-only reformats (texts are templates; the symbolic part is small)"""
    P = h.P
    M = P.M
    who = ['human', 's2'][h.choice(2)]
    if shape['family'] == 'move':
        npre = shape['pre']
        pre = []
        for i in range(npre):
            pre += [120, h.byte_in('x%d' % i, [97, 98, 61])] + [10]
        block = [list(b'A1 = 1\n'), list(b'B2 = 2\n'), list(b'C3 = 3\n')]
        if shape.get('dedent'):
            # the block is moved AND re-indented (moves are matched on trimmed lines); one line has a multi-byte character
            block = [list('h\u00e9_1();\n'.encode()), list(b'B2 = 2;\n'), list(b'C3 = 3;\n')]
        # the stationary part is longer than the block, so the diff keeps it and the block is what moves
        anchor = list(b'm1()\nm2()\nm3()\nm4()\n')
        tail = list(b'zz\n') if shape.get('tail') else []
        ind = [32] * shape.get('dedent', 0)
        old = pre + sum([ind + ln for ln in block], []) + anchor + tail
        new = anchor + sum(block, []) + tail
        b0 = len(pre)
        authors = ['s1', shape.get('mid', 's1'), 's1']
        lay = []
        pos = b0
        if shape.get('dedent'):
            # a person wrote the indentation and the first bytes, a session the rest of the block
            cut = b0 + len(ind) + 1 + h.choice(3)
            cut = cut if char_start(old, cut) else cut + 1
            endb = b0 + sum(len(ind) + len(ln) for ln in block)
            lay = [(b0, cut, 'human', 5), (cut, endb, 's1', 5)]
            keep = {}
        else:
            for ln, a in zip(block, authors):
                lay.append((pos, pos + len(ln), a, 5))
                pos += len(ln)
            keep = {npre + 1 + i: (5 + i, authors[i]) for i in range(3)}     # old line -> (new line, session)
    else:
        w1 = WS_FORMS[shape['w1']]
        w2 = WS_FORMS[shape['w2']]
        trail = WS_FORMS[shape['trail']] if shape.get('trail') else []
        t0 = h.byte_in('t0', [97, 98])
        old = [t0] + w1 + list(b'b') + trail + [10] + list(b'  c\n')
        new = [t0] + w2 + list(b'b') + [10] + (list(b'\tc\n') if shape.get('indent') else list(b'  c\n'))
        lay = [(0, len(old), 's1', 5)]
        keep = {1: (1, 's1'), 2: (2, 's1')}
    h.inputs_struct = {'old': ByteStr(old), 'new': ByteStr(new), 'attributions': [list(x) for x in lay], 'author': who, 'ts': 20, 'keep': {str(k): list(v) for k, v in keep.items()}}
    try:
        res, before, after, ok_struct = _run_update(h, old, new, lay, who)
    except Panic as e:
        h.panic('L2-no-panic', e.msg)
        return
    if res is None:
        h.require(False, 'L2-ok', 'update_attributions returned Err')
        return
    L = len(new)
    okb = all(s_ <= e_ <= L and char_start(new, s_) and char_start(new, e_) for (s_, e_, w_, t_) in res)
    h.require(okb, 'L2-ranges-inside-new-text', 'an output range is inverted, beyond the new text or off a char boundary: %r' % (res,))
    nl = len(ref_lines(P, new))
    h.require(ok_struct and all(1 <= l <= nl for l in after), 'L2-lines-wellformed', 'projection of the result is malformed')
    wrong = [(ol, nl_, a, after.get(nl_)) for ol, (nl_, a) in keep.items() if after.get(nl_) != a]
    if shape['family'] == 'move':
        h.require(not wrong, 'L2-moved-block-keeps-its-authors', 'moved lines (old line, new line, session before, session after): %r' % wrong)
    else:
        h.require(not wrong, 'L2-whitespace-only-reformat-keeps-line-authors', 'lines whose only change is whitespace changed author (old line, new line, before, after): %r' % wrong)
    h.sample = h.witness()


OBLIGATIONS = {'tokenize': ob_tokenize, 'lines': ob_lines, 'update': ob_update, 'update_special': ob_update_special}


# ---------------------------------------------------------------------------

def _lines_map(lst):
    out = {}
    okk = True
    prev = 0
    for s_, e_, who, over in lst:
        if not (1 <= s_ <= e_ and s_ > prev):
            okk = False
        prev = e_
        for l in range(s_, e_ + 1):
            if who != 'human':
                out[l] = who
    return out, okk


def _lex_bytes(lex):
    if isinstance(lex, str):
        return lex.encode('utf-8')
    return bytes_of_json(lex)


def replay(v, native):
    ob = v['obligation']
    inp = v['inputs']
    CP = ConcreteP()
    if ob.startswith('L4'):
        r = native('c16_tokenize', inp)
        if 'panic' in r:
            return {'reproduced': v['kind'] == 'panic', 'native': r}
        if v['kind'] == 'panic':
            return {'reproduced': False, 'native': r}
        bs = list(bytes_of_json(inp['content']))
        a, b = inp['range']
        toks = r['tokens']
        prev = a
        bad_struct = False
        for lex, s_, e_, ln in toks:
            if not (prev <= s_ < e_ <= len(bs) and char_start(bs, s_) and char_start(bs, e_)):
                bad_struct = True
            prev = e_
        bad_blank = any(s_ < len(bs) and bs[s_] in (32, 9, 10, 11, 12, 13) for lex, s_, e_, ln in toks)
        # ... or whose lexeme is not the text it spans
        bad_blank = bad_blank or any(e_ <= len(bs) and list(_lex_bytes(lex)) != bs[s_:e_] for lex, s_, e_, ln in toks)
        bad_cover = False
        for i in range(a, b):
            if not any(s_ <= i < e_ for lex, s_, e_, ln in toks):
                if bs[i] < 0x80 and bs[i] not in (32, 9, 10, 11, 12, 13):
                    bad_cover = True
                if bs[i] >= 0x80 and char_start(bs, i):
                    ws, w = is_ws_at(CP, bs, i)
                    if not ws:
                        bad_cover = True
        bad = {'L4-token-structure': bad_struct, 'L4-token-nonblank': bad_blank, 'L4-covers-nonblank': bad_cover}
        return {'reproduced': bool(bad.get(ob)), 'native': r}
    if ob.startswith('L3'):
        r = native('c16_lines', inp)
        if 'panic' in r:
            return {'reproduced': v['kind'] == 'panic', 'native': r}
        if v['kind'] == 'panic':
            return {'reproduced': False, 'native': r}
        bs = list(bytes_of_json(inp['content']))
        lay = [tuple(x) for x in inp['attributions']]
        ref = reference_line_authors(CP, bs, lay)
        want = {i + 1: a for i, a in enumerate(ref) if a != 'human'}
        got, okk = _lines_map(r['lines'])
        again, ok2 = _lines_map(r['again'])
        bad = {'L3-lines-wellformed': not okk or any(not (1 <= l <= len(ref)) for l in got),
               'L3-dominant-author': got != want, 'L3-lines-chars-lines': again != got}
        return {'reproduced': bool(bad.get(ob)), 'native': r, 'reference': want}
    r = native('c16_update', inp)
    if 'panic' in r:
        return {'reproduced': v['kind'] == 'panic', 'native': r}
    if v['kind'] == 'panic':
        return {'reproduced': False, 'native': r}
    if not r.get('ok'):
        return {'reproduced': ob == 'L2-ok', 'native': r}
    old = list(bytes_of_json(inp['old']))
    new = list(bytes_of_json(inp['new']))
    lay = [tuple(x) for x in inp['attributions']]
    bad = {}
    bad['L2-ranges-inside-new-text'] = any(not (s_ <= e_ <= len(new) and char_start(new, s_) and char_start(new, e_)) for s_, e_, w, t in r['out'])
    before, _ = _lines_map(r['before'])
    after, okk = _lines_map(r['after'])
    ol = ref_lines(CP, old)
    nl = ref_lines(CP, new)
    bad['L2-lines-wellformed'] = not okk or any(not (1 <= l <= len(nl)) for l in after)
    inr = all(0 <= a <= b <= len(old) for (a, b, w, t) in lay)
    bad['L2-identical-text-keeps-lines'] = old == new and inr and after != before
    k = 0
    while k < len(ol) and k < len(nl) and old[ol[k][0]:ol[k][1]] == new[nl[k][0]:nl[k][1]]:
        k += 1
    bad['L2-unchanged-prefix-line-keeps-author'] = inr and old != new and any(after.get(l) != before.get(l) for l in range(1, k + 1))
    s_ = 0
    while s_ < len(ol) - k and s_ < len(nl) - k and old[ol[len(ol) - 1 - s_][0]:ol[len(ol) - 1 - s_][1]] == new[nl[len(nl) - 1 - s_][0]:nl[len(nl) - 1 - s_][1]]:
        s_ += 1
    bad['L2-unchanged-suffix-line-keeps-author'] = inr and old != new and any(after.get(len(nl) - j) != before.get(len(ol) - j) for j in range(s_))
    if len(old) == 0:
        who = inp['author']
        wrong = False
        for li, (b0, b1) in enumerate(nl):
            i = b0
            nonblank = False
            while i < b1:
                ws, w = is_ws_at(CP, new, i)
                nonblank = nonblank or not ws
                i += w
            if nonblank and after.get(li + 1) != (None if who == 'human' else who):
                wrong = True
        bad['L2-new-text-belongs-to-author'] = wrong
    if 'keep' in inp:
        wrong = [(k, nl_, a, after.get(nl_)) for k, (nl_, a) in inp['keep'].items() if after.get(nl_) != a]
        bad['L2-moved-block-keeps-its-authors'] = bool(wrong)
        bad['L2-whitespace-only-reformat-keeps-line-authors'] = bool(wrong)
    edit = (v.get('shape') or {}).get('edit')
    if edit and edit[0] == 'ins':
        who = inp['author']
        pos = edit[1] if isinstance(edit[1], int) else len(old)
        blank = (32, 9, 10, 11, 12, 13)
        ins_nonblank = sum(1 for i in range(pos, min(pos + edit[2], len(new))) if new[i] < 0x80 and new[i] not in blank)
        credited = sum(1 for i in range(len(new)) if new[i] < 0x80 and new[i] not in blank and
                       any(a <= i < b and w_ == who and t_ == inp.get('ts', 20) for (a, b, w_, t_) in r['out']))
        bad['L2-inserted-text-belongs-to-reporter'] = credited < ins_nonblank
    return {'reproduced': bool(bad.get(ob)), 'native': r}
