"""C19 — commit statistics add up and agree with the note and the diff.

Encoded from MIR: authorship::stats::{accepted_lines_from_attestations,
line_range_overlap_len, stats_from_authorship_log, get_git_diff_stats,
calculate_waiting_time}.
"""
import itertools
import z3
from harness.lib import *
from mirsym.models.fmt import int_digits

ID = 'C19'
ST = 'authorship::stats'
SER = 'authorship::authorship_log_serialization'
LOG = SER + '::AuthorshipLog'
META = SER + '::AuthorshipMetadata'
FILE = SER + '::FileAttestation'
ENTRY = SER + '::AttestationEntry'
LR = 'authorship::authorship_log::LineRange'
PR = 'authorship::authorship_log::PromptRecord'
AGENT = 'authorship::working_log::AgentId'
CS = ST + '::CommitStats'
TS = ST + '::ToolModelHeadlineStats'

CFG = {'max_steps': 400000}

BOUNDS = {
    'quick': 'S1: note with <=2 files x <=2 entries x <=2 ranges (Single/Range, arbitrary u32 incl. start>end), <=3 added lines per file (any strictly increasing u32), 2 session hashes with/without prompt record, same or different tool; S2: <=2 prompt records with symbolic counters < 2^20, symbolic diff totals < 2^20, accepted split over <=2 tools; S3: numstat of <=3 rows (text rows with 1-2 digit symbolic counts, binary rows, ignored rows)',
    'thorough': 'as quick with <=4 added lines, 3 ranges per entry, 4 numstat rows and 3-digit counts',
}
OUTSIDE = 'counters >= 2^20 (u32 sums may overflow; overflow is a panic in the dev profile and is not part of C19); time_waiting_for_ai (chrono timestamp parsing); that added_lines_by_file equals git\'s view of the commit (C01); more than 2 files / sessions'
ASSUMPTIONS = [
    'exec_git_with_profile is an environment model returning the numstat text built by the harness grammar (rows `<added>TAB<deleted>TAB<path>LF`, binary rows `-TAB-TAB<path>`)',
    'the ignore matcher is an arbitrary predicate on the path (symbolic boolean per row)',
    'prompt transcripts are empty, so calculate_waiting_time returns 0',
]


def plan(tier, seed):
    tasks = []
    maxr = 2 if tier == 'quick' else 3
    maxa = 3 if tier == 'quick' else 4
    # S1a: the count (all entries belong to one session); range kinds are part of the shape
    for nf in (1, 2):
        for ne in (1, 2):
            for nr in range(1, maxr + 1):
                if nf == 2 and (ne > 1 or nr > 1):
                    continue
                if ne * nr > (3 if tier == 'quick' else 4):
                    continue
                for na in range(0, maxa + 1):
                    if nf == 2 and na > 2:
                        continue
                    for kinds in itertools.product('sr', repeat=nf * ne * nr):
                        tasks.append(('accepted', {'files': nf, 'entries': ne, 'ranges': nr, 'added': na, 'kinds': ''.join(kinds)}))
    tasks.append(('accepted', {'files': 1, 'entries': 1, 'ranges': 1, 'added': 2, 'merge': True, 'kinds': 'r'}))
    tasks.append(('accepted', {'files': 1, 'entries': 1, 'ranges': 1, 'added': 2, 'nolog': True, 'kinds': 'r'}))
    # S1b: attribution of the count to tools (two sessions, prompt record present or not, same or different tool)
    for na in (1, 2):
        tasks.append(('accepted', {'files': 1, 'entries': 2, 'ranges': 1, 'added': na, 'kinds': 'sr', 'sessions': True}))
    # S2
    for npr in (0, 1, 2):
        for nt in (0, 1, 2):
            tasks.append(('totals', {'prompts': npr, 'tools': nt}))
    tasks.append(('totals', {'prompts': 0, 'tools': 0, 'nolog': True}))
    # S3
    maxrows = 3 if tier == 'quick' else 4
    kinds = ['text', 'binary']
    for n in range(0, maxrows + 1):
        for combo in itertools.product(kinds, repeat=n):
            tasks.append(('numstat', {'rows': list(combo)}))
    return tasks


def install(M):
    def global_args_for_exec(P, c, args, dt):
        return VecV([])

    def exec_git_with_profile(P, c, args, dt):
        out = P.state.get('git_stdout')
        if out is None:
            raise Unsupported('exec_git_with_profile without a harness answer')
        P.events.append(('exec_git', [bytes(concrete_bytes(as_bytes(a)) or b'?').decode('utf-8', 'replace') for a in elems_of(args[0])]))
        return ok(Agg('std::process::Output', [Opaque('ExitStatus', 0), VecV([Sc(b, 8) for b in out]), VecV([])]))

    def build_ignore_matcher(P, c, args, dt):
        return Opaque('IgnoreMatcher', None)

    def should_ignore(P, c, args, dt):
        name = concrete_bytes(as_bytes(args[0]))
        table = P.state.get('ignored', {})
        if name is None:
            raise Unsupported('ignore predicate asked about a symbolic path')
        if name not in table:
            # the matcher is an arbitrary predicate on the path string: a path the harness did not
            # put into the numstat text gets its own unconstrained answer
            table[name] = mk_bool(P.fresh_bool('ign_other'))
            P.state['ignored'] = table
        return table[name]
    M.env['authorship::ignore::build_ignore_matcher'] = build_ignore_matcher
    M.env['authorship::ignore::should_ignore_file_with_matcher'] = should_ignore
    M.env['git::repository::Repository::global_args_for_exec'] = global_args_for_exec
    M.env['git::repository::exec_git_with_profile'] = exec_git_with_profile


# ---------------------------------------------------------------------------

def mk_prompt(M, tool, model, adds=0, dels=0, over=0, acc=0):
    agent = mk_struct(M, AGENT, tool=pystring(tool), id=pystring('id-' + tool), model=pystring(model))
    z = lambda v: v if isinstance(v, Sc) else Sc(v, 32)
    return mk_struct(M, PR, agent_id=agent, human_author=none(), messages=VecV([]), total_additions=z(adds),
                     total_deletions=z(dels), accepted_lines=z(acc), overriden_lines=z(over), messages_url=none())


def mk_log(M, files, prompts):
    meta = mk_struct(M, META, schema_version=pystring('authorship/3.0.0'), git_ai_version=none(),
                     base_commit_sha=pystring('c0'), prompts=MapV('btree', [[pystring(k), v] for k, v in prompts], 'map'))
    return mk_struct(M, LOG, attestations=VecV(files), metadata=meta)


def in_range(r, l):
    """z3: line l (Sc) inside LineRange r"""
    if r.var == 'Single':
        return binop('Eq', r.f[0], l).z()
    return z3.And(binop('Ge', l, r.f[0]).z(), binop('Le', l, r.f[1]).z())


def ob_accepted(h, shape):
    P = h.P
    M = P.M
    names = ['f', 'g']
    hashes = ['aaaaaaaaaaaaaaaa', 'bbbbbbbbbbbbbbbb']
    # prompts: h0 always; h1 present or absent; same or different tool
    sessions = bool(shape.get('sessions'))
    h1_present = (h.choice(2) == 0) if sessions else True
    same_tool = (h.choice(2) == 0) if sessions else True
    kinds = shape['kinds']
    kpos = [0]
    prompts = [(hashes[0], mk_prompt(M, 'cursor', 'm1'))]
    if h1_present:
        prompts.append((hashes[1], mk_prompt(M, 'cursor' if same_tool else 'claude', 'm1')))
    files = []
    added = MapV('hash', [], 'map')
    desc = {'files': [], 'prompt_for_second_hash': h1_present, 'same_tool': same_tool}
    expected = z3.BitVecVal(0, 32)
    expected_by_hash = {hashes[0]: z3.BitVecVal(0, 32), hashes[1]: z3.BitVecVal(0, 32)}
    overlap_alts = []
    for fi in range(shape['files']):
        lines = []
        prev = None
        for k in range(shape['added']):
            l = Sc(P.input_bv('l%d_%d' % (fi, k), 32), 32)
            if prev is not None:
                P.assume(binop('Lt', prev, l))
            prev = l
            lines.append(l)
        has_added = True
        if shape['added'] == 0:
            has_added = h.choice(2) == 0      # file absent from the map vs present with no lines
        entries = []
        dentries = []
        allranges = []
        for ei in range(shape['entries']):
            hk = h.choice(2) if sessions else 0
            rs = []
            drs = []
            for ri in range(shape['ranges']):
                a = Sc(P.input_bv('r%d_%d_%d_a' % (fi, ei, ri), 32), 32)
                kd = kinds[kpos[0] % len(kinds)]
                kpos[0] += 1
                if kd == 's':
                    rs.append(mk_enum(M, LR, 'Single', a))
                    drs.append({'s': a})
                else:
                    b = Sc(P.input_bv('r%d_%d_%d_b' % (fi, ei, ri), 32), 32)
                    rs.append(mk_enum(M, LR, 'Range', a, b))
                    drs.append({'r': [a, b]})
            entries.append(mk_struct(M, ENTRY, hash=pystring(hashes[hk]), line_ranges=VecV(rs)))
            dentries.append({'hash': hashes[hk], 'ranges': drs})
            allranges.append((hk, rs))
        files.append(mk_struct(M, FILE, file_path=pystring(names[fi]), entries=VecV(entries)))
        if has_added:
            added.ent.append([pystring(names[fi]), VecV(list(lines))])
        desc['files'].append({'path': names[fi], 'added': list(lines) if has_added else None, 'entries': dentries})
        if has_added:
            for l in lines:
                cover = [in_range(r, l) for hk, rs in allranges for r in rs]
                expected = expected + z3.If(z3.Or(cover) if cover else z3.BoolVal(False), z3.BitVecVal(1, 32), z3.BitVecVal(0, 32))
                for i in range(len(cover)):
                    for j in range(i + 1, len(cover)):
                        overlap_alts.append(z3.And(cover[i], cover[j]))
                # the line counts for the session blame reports for it: the last entry of the file that lists it
                ecov = [(hk, z3.Or([in_range(r, l) for r in rs]) if rs else z3.BoolVal(False)) for hk, rs in allranges]
                for i, (hk, c) in enumerate(ecov):
                    owns = z3.And([c] + [z3.Not(c2) for _, c2 in ecov[i + 1:]])
                    expected_by_hash[hashes[hk]] = expected_by_hash[hashes[hk]] + z3.If(owns, z3.BitVecVal(1, 32), z3.BitVecVal(0, 32))
    log = mk_log(M, files, prompts)
    h.inputs_struct = desc
    is_merge = bool(shape.get('merge'))
    logarg = none() if shape.get('nolog') else some(Ref(Cell(log)))
    try:
        r = P.call_named(ST + '::accepted_lines_from_attestations', [logarg, Ref(Cell(added)), Sc(is_merge, 0)])
    except Panic as e:
        h.panic('S1-no-panic', e.msg)
        return
    total = r.f[0]
    per_tool = r.f[1]
    if is_merge or shape.get('nolog'):
        h.require(binop('Eq', total, Sc(0, 32)), 'S1-merge-or-no-note-is-zero', 'accepted must be 0')
        h.require(len(per_tool.ent) == 0, 'S1-merge-or-no-note-is-zero', 'per-tool map must be empty')
        h.sample = h.witness()
        return
    known = [('accepted-double-counts-overlapping-ranges', z3.Or(overlap_alts) if overlap_alts else z3.BoolVal(False))]
    h.require(total.z() == expected, 'S1-accepted-is-set-count',
              'ai_accepted differs from |{added lines listed by the note}|', known)
    # per-tool breakdown sums to the total when every hash has a prompt record
    if h1_present:
        s = z3.BitVecVal(0, 32)
        for k, v in per_tool.ent:
            s = s + tgt(v).z()
        h.require(s == total.z(), 'S1-per-tool-sums-to-total', 'per-tool accepted does not sum to the total', [])
    # each tool is credited with the lines of its sessions (a line listed by two sessions counts for the later entry)
    want_tool = {'cursor::m1': expected_by_hash[hashes[0]]}
    if h1_present:
        k = 'cursor::m1' if same_tool else 'claude::m1'
        want_tool[k] = want_tool.get(k, z3.BitVecVal(0, 32)) + expected_by_hash[hashes[1]]
    got_tool = {bytes(concrete_bytes(as_bytes(k))).decode(): tgt(v).z() for k, v in per_tool.ent}
    ok_tools = [got_tool.get(k, z3.BitVecVal(0, 32)) == w for k, w in want_tool.items()] + [z3.BoolVal(k in want_tool) for k in got_tool]
    h.require(z3.And(ok_tools), 'S1-tool-is-credited-with-its-sessions-lines',
              'the per-tool accepted counts are not the lines whose (last listing) session belongs to that tool')
    h.sample = h.witness()


def ob_totals(h, shape):
    P = h.P
    M = P.M
    LIM = (1 << 20) - 1
    added = h.u32('git_added', 0, LIM)
    deleted = h.u32('git_deleted', 0, LIM)
    accepted = h.u32('ai_accepted', 0, LIM)
    P.assume(binop('Le', accepted, added))      # S1: accepted counts lines the commit added
    prompts = []
    dprompts = []
    tools = ['cursor::m1', 'claude::m2']
    over_sum = z3.BitVecVal(0, 32)
    for i in range(shape['prompts']):
        t = h.choice(2)
        adds = h.u32('p%d_add' % i, 0, LIM)
        dels = h.u32('p%d_del' % i, 0, LIM)
        over = h.u32('p%d_over' % i, 0, LIM)
        tool, model = tools[t].split('::')
        prompts.append(('%016x' % (i + 1), mk_prompt(M, tool, model, adds, dels, over)))
        dprompts.append({'tool': tools[t], 'total_additions': adds, 'total_deletions': dels, 'overriden_lines': over})
        over_sum = over_sum + over.z()
    by_tool = MapV('btree', [], 'map')
    dby = []
    rest = accepted
    nt = shape['tools']
    parts = []
    for i in range(nt):
        if i == nt - 1:
            v = rest
        else:
            v = h.u32('acc_%d' % i, 0, LIM)
            P.assume(binop('Le', v, rest))
            rest = binop('Sub', rest, v)
        parts.append(v)
        by_tool.ent.append([pystring(tools[i]), v])
        dby.append([tools[i], v])
    if nt == 0:
        P.assume(binop('Eq', accepted, Sc(0, 32)))
    log = mk_log(M, [], prompts)
    h.inputs_struct = {'git_added': added, 'git_deleted': deleted, 'ai_accepted': accepted, 'prompts': dprompts, 'by_tool': dby}
    logarg = none() if shape.get('nolog') else some(Ref(Cell(log)))
    try:
        r = P.call_named(ST + '::stats_from_authorship_log', [logarg, added, deleted, accepted, Ref(Cell(by_tool))])
    except Panic as e:
        h.panic('S2-no-panic', e.msg)
        return
    g = lambda name: field(M, r, CS, name)
    h.require(binop('Eq', g('git_diff_added_lines'), added), 'S2-diff-totals', 'added total not carried')
    h.require(binop('Eq', g('git_diff_deleted_lines'), deleted), 'S2-diff-totals', 'deleted total not carried')
    h.require(binop('Eq', g('ai_accepted'), accepted), 'S2-accepted', 'ai_accepted not carried')
    h.require(binop('Eq', binop('Add', g('human_additions'), g('ai_accepted')), added), 'S2-human-plus-accepted',
              'human_additions + ai_accepted != added lines')
    h.require(binop('Eq', g('ai_additions'), binop('Add', g('ai_accepted'), g('mixed_additions'))), 'S2-ai-additions',
              'ai_additions != accepted + mixed')
    h.require(binop('Le', g('ai_additions'), added), 'S2-ai-additions-bounded', 'ai_additions exceeds added lines')
    # per-tool breakdown sums to the totals
    bd = g('tool_model_breakdown')
    cap_engaged = z3.UGT(over_sum, (added.z() - accepted.z()))
    for fname in ('ai_accepted', 'mixed_additions', 'ai_additions', 'total_ai_additions', 'total_ai_deletions'):
        s = z3.BitVecVal(0, 32)
        for k, v in bd.ent:
            s = s + field(M, v, TS, fname).z()
        known = []
        if fname in ('mixed_additions', 'ai_additions'):
            known = [('mixed-cap-not-applied-per-tool', cap_engaged)]
        h.require(s == g(fname).z(), 'S2-breakdown-sums-' + fname, 'per-tool %s does not sum to the total' % fname, known)
    for k, v in bd.ent:
        h.require(binop('Eq', field(M, v, TS, 'ai_additions'), binop('Add', field(M, v, TS, 'ai_accepted'), field(M, v, TS, 'mixed_additions'))),
                  'S2-tool-ai-additions', 'per-tool ai_additions != accepted + mixed')
    h.sample = h.witness()


def ob_numstat(h, shape):
    P = h.P
    M = P.M
    out = []
    rows = []
    ignored = {}
    exp_add = z3.BitVecVal(0, 32)
    exp_del = z3.BitVecVal(0, 32)
    fnames = [b'a.rs', b'dir/b b.txt', b'c', b'"q\\tq"']
    for i, kind in enumerate(shape['rows']):
        name = fnames[i]
        ign = P.fresh_bool('ign%d' % i)
        P.inputs['ign%d' % i] = ign
        ignored[name] = mk_bool(ign)
        if kind == 'text':
            a = h.u32('a%d' % i, 0, 99)
            d = h.u32('d%d' % i, 0, 99)
            out += int_digits(P, a, 32, False) + [9] + int_digits(P, d, 32, False) + [9] + list(name) + [10]
            exp_add = exp_add + z3.If(ign, z3.BitVecVal(0, 32), a.z())
            exp_del = exp_del + z3.If(ign, z3.BitVecVal(0, 32), d.z())
            rows.append({'kind': 'text', 'added': a, 'deleted': d, 'path': name.decode(), 'ignored': Sc(ign, 0)})
        else:
            out += [45, 9, 45, 9] + list(name) + [10]
            rows.append({'kind': 'binary', 'path': name.decode(), 'ignored': Sc(ign, 0)})
    P.state['git_stdout'] = out
    P.state['ignored'] = ignored
    h.inputs_struct = {'rows': rows}
    repo = Opaque('Repository', None)
    try:
        r = P.call_named(ST + '::get_git_diff_stats', [Ref(Cell(repo)), pystr('c0ffee'), SliceRef(VecV([]), 0, 0)])
    except Panic as e:
        h.panic('S3-no-panic', e.msg)
        return
    if r.var != 'Ok':
        h.require(False, 'S3-ok', 'get_git_diff_stats failed on well-formed numstat')
        return
    ev = [e for e in P.events if e[0] == 'exec_git']
    h.require(len(ev) == 1 and '--numstat' in ev[0][1], 'S3-uses-numstat', 'numstat was not requested')
    h.require(r.f[0].f[0].z() == exp_add, 'S3-added-total', 'added != sum of non-ignored numstat rows')
    h.require(r.f[0].f[1].z() == exp_del, 'S3-deleted-total', 'deleted != sum of non-ignored numstat rows')
    h.sample = h.witness()


OBLIGATIONS = {'accepted': ob_accepted, 'totals': ob_totals, 'numstat': ob_numstat}


def replay(v, native):
    ob = v['obligation']
    inp = v['inputs']
    if ob.startswith('S1'):
        r = native('c19_accepted', inp)
    elif ob.startswith('S2'):
        r = native('c19_totals', inp)
    else:
        return replay_numstat(v, native)
    if 'panic' in r:
        return {'reproduced': v['kind'] == 'panic', 'native': r}
    if v['kind'] == 'panic':
        return {'reproduced': False, 'native': r}
    return {'reproduced': ob in r.get('failed', []), 'native': r}


def replay_numstat(v, native):
    """build a real commit whose `git show --numstat` is the counterexample's text"""
    import os
    import subprocess
    import tempfile
    inp = v['inputs']
    tmp = tempfile.mkdtemp(prefix='vnumstat')
    env = dict(os.environ, GIT_AUTHOR_NAME='v', GIT_AUTHOR_EMAIL='v@v', GIT_COMMITTER_NAME='v', GIT_COMMITTER_EMAIL='v@v',
               HOME=tmp, GIT_CONFIG_NOSYSTEM='1')

    def git(*a):
        p = subprocess.run(['git'] + list(a), cwd=tmp, env=env, stdout=subprocess.PIPE, stderr=subprocess.PIPE)
        if p.returncode != 0:
            raise RuntimeError('git %r: %s' % (a, p.stderr.decode()))
        return p.stdout.decode()
    try:
        git('init', '-q', '.')
        real = {'a.rs': 'a.rs', 'dir/b b.txt': 'dir/b b.txt', 'c': 'c', '"q\\tq"': 'q\tq'}
        exp_a = exp_d = 0
        pats = []
        usable = True
        for i, row in enumerate(inp['rows']):
            fn = os.path.join(tmp, real[row['path']])
            os.makedirs(os.path.dirname(fn), exist_ok=True)
            if row['kind'] == 'text':
                if row['added'] == 0 and row['deleted'] == 0:
                    usable = False
                with open(fn, 'w') as f:
                    f.write(''.join('old %d %d\n' % (i, k) for k in range(row['deleted'])))
            else:
                with open(fn, 'wb') as f:
                    f.write(b'\0old')
            if row['ignored']:
                pats.append(row['path'])
        if not usable:
            return {'reproduced': False, 'note': 'a 0/0 text row cannot occur in real numstat output'}
        with open(os.path.join(tmp, 'keep'), 'w') as f:
            f.write('k\n')
        git('add', '-A')
        git('commit', '-q', '-m', 'parent')
        for i, row in enumerate(inp['rows']):
            fn = os.path.join(tmp, real[row['path']])
            if row['kind'] == 'text':
                with open(fn, 'w') as f:
                    f.write(''.join('new %d %d\n' % (i, k) for k in range(row['added'])))
                if not row['ignored']:
                    exp_a += row['added']
                    exp_d += row['deleted']
            else:
                with open(fn, 'wb') as f:
                    f.write(b'\0new!')
        git('add', '-A')
        git('commit', '-q', '-m', 'child', '--allow-empty')
        sha = git('rev-parse', 'HEAD').strip()
        r = native('c19_numstat', {'repo': tmp, 'sha': sha, 'ignore': pats, 'expect_added': exp_a, 'expect_deleted': exp_d})
        if 'panic' in r:
            return {'reproduced': v['kind'] == 'panic', 'native': r}
        return {'reproduced': v['obligation'] in r.get('failed', []), 'native': r, 'numstat': git('show', '--numstat', '--format=', sha)}
    finally:
        subprocess.call(['rm', '-rf', tmp])
