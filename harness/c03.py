"""C03 — nothing a person wrote is ever attributed to an AI session (kernels).

K1  only session-reported lines the commit added reach a note: decided by the C04 check
    (same method, soundness half of the same oracle).
K3  the newest statement about a file wins when the working log is folded into the attribution state
    of a commit.  Encoded from MIR: authorship::virtual_attribution::VirtualAttributions::
    from_just_working_log (INITIAL + every checkpoint entry, over the model file system, with the real
    line<->char converters).  Obligation: after a person's checkpoint that leaves no AI line in a file,
    no earlier AI entry or INITIAL claim for that file survives; otherwise the newest entry carrying
    attribution decides.
K2  pending attribution is discarded when the work is discarded.  Encoded from MIR:
    checkout_hooks::{remove_attributions_for_pathspecs, matches_any_pathspec},
    repo_storage::PersistedWorkingLog::{write_initial_attributions, read_initial_attributions,
    write_all_checkpoints, read_all_checkpoints, reset_working_log} over the model file system;
    INITIAL / checkpoints.jsonl are texts of the serde_json codec model.
"""
import itertools
import z3
from harness.lib import *

ID = 'C03'
CK = 'commands::hooks::checkout_hooks'
PWL = 'git::repo_storage::PersistedWorkingLog'
INIT = 'git::repo_storage::InitialAttributions'
LATTR = 'authorship::attribution_tracker::LineAttribution'
CKPT = 'authorship::working_log::Checkpoint'
WLE = 'authorship::working_log::WorkingLogEntry'
KIND = 'authorship::working_log::CheckpointKind'
STATS = 'authorship::working_log::CheckpointLineStats'
CFG = {'max_steps': 1500000}

FILES = ['f', 'd/g', 'd', 'dx', 'd/e/h']
SPECS = ['f', 'd', 'd/', 'd/g', 'x', '.']

BOUNDS = {
    'quick': 'K2: INITIAL naming a subset of the files {f, d/g, d, dx, d/e/h} (each with an arbitrary symbolic line attribution), <=2 checkpoints x <=2 entries over the same names, <=2 pathspecs from {f, d, d/, d/g, x, .}; reset_working_log on the same pre-states',
    'thorough': 'all subsets, 3 pathspecs',
}
OUTSIDE = 'arbitrary porcelain sequences (histories over git itself); which hook calls which helper for which command line (is_force_checkout etc. are exercised only through the two entry points encoded here); blob files under blobs/ (content snapshots, carry no attribution)'
ASSUMPTIONS = [
    'file system = model map path -> content; serde_json = injective codec (from_str(to_string(x)) == x)',
    'Repository::storage.working_log_for_base_commit is an environment model returning the working-log handle of the model directory',
]


def plan(tier, seed):
    tasks = []
    subsets = [(), ('f',), ('d/g',), ('f', 'd/g'), ('d', 'dx'), ('f', 'd/g', 'dx'), ('d/e/h', 'f')]
    ckpts = [[], [['f']], [['f', 'd/g']], [['d/g'], ['f', 'dx']], [['d/e/h']]]
    specs = [[s] for s in SPECS] + [['f', 'd'], ['d/', 'x'], ['d/g', 'f']]
    for init in subsets:
        for ck in ckpts:
            for sp in specs:
                if tier == 'quick' and len(ck) == 2 and len(sp) == 2 and len(init) > 1:
                    continue
                tasks.append(('checkout_paths', {'initial': list(init), 'ckpts': ck, 'specs': sp}))
    for init in subsets:
        for ck in ckpts[:3]:
            tasks.append(('reset', {'initial': list(init), 'ckpts': ck}))
    out = []
    B = 8
    cp = [t for t in tasks if t[0] == 'checkout_paths']
    for i in range(0, len(cp), B):
        out.append(('batch', {'shapes': [['checkout_paths', t[1]] for t in cp[i:i + B]]}))
    rs = [t for t in tasks if t[0] == 'reset']
    for i in range(0, len(rs), B):
        out.append(('batch', {'shapes': [['reset', t[1]] for t in rs[i:i + B]]}))
    for li in range(len(RESET_LINES)):
        for same in (True, False):
            for pre in (True, False):
                out.append(('reset_hard', {'line': li, 'same': same, 'pre_resolved': pre}))
    for files, ne in ((['a.txt'], 1), (['a.txt'], 2), (['a b.txt'], 1), (['a.txt', 'dir/c.txt'], 1)):
        out.append(('stash_restore', {'files': files, 'entries': ne}))
    out.append(('stash_restore', {'files': ['a.txt'], 'has_note': False}))
    for spec in ({'spec': 'none'}, {'spec': 'file'}, {'spec': 'dir'}, {'spec': 'dir', 'slash': True}, {'spec': 'glob'}):
        out.append(('stash_scope', spec))
    for li in range(len(PRE_RESET_LINES)):
        out.append(('pre_reset', {'line': li}))
    for cmd, lines in MERGE_LINES.items():
        for li in range(len(lines)):
            for dirty in (True, False):
                out.append(('merge_checkout', {'cmd': cmd, 'line': li, 'dirty': dirty}))
    for cmd, lines in FORCE_LINES.items():
        for li in range(len(lines)):
            for same in (True, False):
                if not same and 'main' not in lines[li]:
                    continue      # without a branch name HEAD cannot move
                out.append(('force_checkout', {'cmd': cmd, 'line': li, 'same': same}))
    nent = 2 if tier == 'quick' else 3
    for init in (False, True):
        for n in range(0, nent + 1):
            for combo in itertools.product(ENTRY_KINDS, repeat=n):
                if n == 0 and not init:
                    continue
                out.append(('fold', {'initial': init, 'entries': list(combo)}))
    return out


def install(M):
    def working_log_for_base_commit(P, c, args, dt):
        return clone_val(P, P.state['wl'])
    M.env['git::repo_storage::RepoStorage::working_log_for_base_commit'] = working_log_for_base_commit

    def head(P, c, args, dt):
        if 'c03_head' not in P.state:
            return err(Opaque('GitAiError', 'nohead'))
        return ok(Opaque('Reference', P.state['c03_head']))

    def ref_target(P, c, args, dt):
        return ok(pystring(tgt(args[0]).p))

    def resolve_tree_ish(P, c, args, dt):
        return ok(pystring(P.state['c03_resolve']))

    def default_author(P, c, args, dt):
        return pystring('A U Thor <a@u>')
    M.env['git::repository::Repository::head'] = head
    M.env['git::repository::Reference::target'] = ref_target
    M.env['commands::hooks::reset_hooks::resolve_tree_ish_to_commit'] = resolve_tree_ish
    M.env['commands::hooks::commit_hooks::get_commit_default_author'] = default_author

    # the --merge checkout / switch obligation watches the order of two effects; everywhere else the real code runs
    def real(P, c, args):
        cand = P.M.candidate(c.raw)
        if cand is None:
            raise Unsupported('no MIR for %s' % c.raw)
        fn = P.M.mir.get(cand)
        return P.run_fn(fn, P._untuple(fn, args, c))

    def checkpoint_run(P, c, args, dt):
        if not P.state.get('c03_merge'):
            return real(P, c, args)
        kind = args[2]
        P.events.append(('checkpoint_run', getattr(kind, 'var', None)))
        return ok(tup(usize(0), usize(0), usize(0)))

    def va_from_log(P, c, args, dt):
        if not P.state.get('c03_merge'):
            return real(P, c, args)
        P.events.append(('va_capture',))
        ent = []
        for f_ in P.state['c03_merge'].get('va_files', ['f']):
            la = mk_struct(P.M, LATTR, start_line=Sc(1, 32), end_line=Sc(2, 32), author_id=pystring('s1'), overrode=none())
            ent.append([pystring(f_), tup(VecV([]), VecV([la] if P.state['c03_merge'].get('va_files') else []))])
        return ok(mk_struct(P.M, 'authorship::virtual_attribution::VirtualAttributions', repo=Agg(REPO, []), base_commit=pystring('oldhead'),
                            attributions=MapV('hash', ent, 'map'), file_contents=MapV('hash', [], 'map'),
                            prompts=MapV('btree', [], 'map'), ts=Sc(1, 128), blame_start_commit=none()))

    def dirty_names(P, c, args, dt):
        if not P.state.get('c03_merge'):
            return real(P, c, args)
        return ok(MapV('hash', [[pystring('f'), None]] if P.state['c03_merge'].get('dirty') else [], 'set'))

    def require_head(P, c, args, dt):
        if not P.state.get('c03_merge'):
            return real(P, c, args)
        return unit()
    def stash_sha(P, c, args, dt):
        return ok(pystring('stashsha'))

    def stash_note(P, c, args, dt):
        P.events.append(('stash_note', list(as_bytes(args[2]))))
        return ok(unit())

    def stash_delete(P, c, args, dt):
        P.events.append(('stash_delete', [list(as_bytes(x)) for x in elems_of(args[2])]))
        return ok(unit())
    M.env['commands::hooks::stash_hooks::resolve_stash_to_sha'] = stash_sha

    def read_stash_note(P, c, args, dt):
        v = P.state.get('c03_stash_note')
        if v is None:
            return err(Opaque('GitAiError', 'no stash note'))
        return ok(clone_val(P, v))
    M.env['commands::hooks::stash_hooks::read_stash_note'] = read_stash_note
    M.env['commands::hooks::stash_hooks::save_stash_note'] = stash_note
    M.env['commands::hooks::stash_hooks::delete_working_log_for_files'] = stash_delete
    M.env['commands::checkpoint::run'] = checkpoint_run
    M.env['authorship::virtual_attribution::VirtualAttributions::from_just_working_log'] = va_from_log
    M.env['git::status::Repository::get_staged_and_unstaged_filenames'] = dirty_names
    M.env['git::repository::Repository::require_pre_command_head'] = require_head


def mk_wl(M):
    from mirsym.models.paths import mk_pathbuf
    return mk_struct(M, PWL, dir=mk_pathbuf(list(b'/wl')), base_commit=pystring('head'), repo_workdir=mk_pathbuf(list(b'/w')),
                     canonical_workdir=mk_pathbuf(list(b'/w')), dirty_files=none(), initial_file=mk_pathbuf(list(b'/wl/INITIAL')))


def mk_ckpt(h, M, files, idx):
    entries = []
    for j, f in enumerate(files):
        s = h.u32('ck%d_%d_s' % (idx, j), 1, 1000)
        la = mk_struct(M, LATTR, start_line=s, end_line=s, author_id=pystring('s1'), overrode=none())
        entries.append(mk_struct(M, WLE, file=pystring(f), blob_sha=pystring('b%d%d' % (idx, j)), attributions=VecV([]), line_attributions=VecV([la])))
    stats_fields = M.src.struct_fields(STATS)
    stats = Agg(STATS, [Sc(0, 32) for _ in stats_fields])
    return mk_struct(M, CKPT, kind=mk_enum(M, KIND, 'AiAgent'), diff=pystring('d'), author=pystring('ai'), entries=VecV(entries),
                     timestamp=Sc(1, 64), transcript=none(), agent_id=none(), agent_metadata=none(), line_stats=stats,
                     api_version=pystring('checkpoint/1.0.0'), git_ai_version=none())


def seed_state(h, shape):
    """write the pre-state through the real writers"""
    P = h.P
    M = P.M
    wl = mk_wl(M)
    P.state['wl'] = wl
    P.state['fs'] = {'/wl': 'DIR'}
    files = MapV('hash', [], 'map')
    lines = {}
    for i, f in enumerate(shape['initial']):
        s = h.u32('i%d_s' % i, 1, 1000)
        e = h.u32('i%d_e' % i, 1, 1000)
        P.assume(binop('Le', s, e))
        lines[f] = (s, e)
        files.ent.append([pystring(f), VecV([mk_struct(M, LATTR, start_line=s, end_line=e, author_id=pystring('s1'), overrode=none())])])
    if shape['initial']:
        r = P.call_named(PWL + '::write_initial_attributions', [Ref(Cell(wl)), files, MapV('hash', [], 'map')])
        if r.var != 'Ok':
            raise Unsupported('seeding INITIAL failed')
    cks = [mk_ckpt(h, M, fl, i) for i, fl in enumerate(shape['ckpts'])]
    v = VecV(cks)
    r = P.call_named(PWL + '::write_all_checkpoints', [Ref(Cell(wl)), SliceRef(v, 0, len(cks))])
    if r.var != 'Ok':
        raise Unsupported('seeding checkpoints failed')
    return wl, lines


def matches(file, specs):
    for p in specs:
        if file == p or (p.endswith('/') and file.startswith(p)) or file.startswith(p + '/'):
            return True
    return False


def read_back(h, wl):
    P = h.P
    M = P.M
    init = P.call_named(PWL + '::read_initial_attributions', [Ref(Cell(wl))])
    named = {}
    for ent in field(M, init, INIT, 'files').ent:
        nm = concrete_bytes(as_bytes(ent[0])).decode()
        named[nm] = [(field(M, la, LATTR, 'start_line'), field(M, la, LATTR, 'end_line')) for la in ent[1].e]
    cks = P.call_named(PWL + '::read_all_checkpoints', [Ref(Cell(wl))])
    ck_files = None
    if cks.var == 'Ok':
        ck_files = [[concrete_bytes(as_bytes(field(M, e, WLE, 'file'))).decode() for e in field(M, c, CKPT, 'entries').e] for c in cks.f[0].e]
    return named, ck_files


def ob_checkout_paths(h, shape):
    P = h.P
    M = P.M
    wl, lines = seed_state(h, shape)
    specs = shape['specs']
    h.inputs_struct = {'initial': {f: list(lines[f]) for f in lines}, 'checkpoints': shape['ckpts'], 'pathspecs': specs}
    repo = Agg('git::repository::Repository', [])
    sv = VecV([pystring(s) for s in specs])
    try:
        P.call_named(CK + '::remove_attributions_for_pathspecs', [Ref(Cell(repo)), pystr('head'), SliceRef(sv, 0, len(specs))])
    except Panic as e:
        h.panic('K2-no-panic', e.msg)
        return
    named, ck_files = read_back(h, wl)
    # '.' is git's "everything" pathspec; the helper treats pathspecs as literal prefixes (documented) — outside
    if '.' in specs:
        h.require(True, 'K2-skip-dot')
        h.sample = h.witness()
        return
    known = []
    gone = [f for f in shape['initial'] if matches(f, specs)]
    kept = [f for f in shape['initial'] if not matches(f, specs)]
    h.require(not any(f in named for f in gone), 'K2-checked-out-paths-leave-INITIAL',
              'INITIAL still names %r after `checkout -- %s`' % ([f for f in gone if f in named], ' '.join(specs)), known)
    okk = all(f in named for f in kept)
    conds = []
    for f in kept:
        if f in named:
            if len(named[f]) != 1:
                okk = False
            else:
                conds += [binop('Eq', named[f][0][0], lines[f][0]), binop('Eq', named[f][0][1], lines[f][1])]
    h.require(okk and all_of(conds), 'K2-other-paths-untouched-in-INITIAL', 'pending attribution of a path that was not checked out changed')
    if ck_files is None:
        h.require(False, 'K2-checkpoints-readable', 'checkpoints.jsonl unreadable after the hook')
    else:
        flat = [f for c in ck_files for f in c]
        h.require(not any(matches(f, specs) for f in flat), 'K2-checked-out-paths-leave-checkpoints', 'a checkpoint entry for a checked-out path survived')
        want = [f for c in shape['ckpts'] for f in c if not matches(f, specs)]
        h.require(flat == want, 'K2-other-checkpoint-entries-untouched', 'checkpoint entries %r, expected %r' % (flat, want))
    h.sample = h.witness()


def ob_reset(h, shape):
    P = h.P
    wl, lines = seed_state(h, shape)
    h.inputs_struct = {'initial': {f: list(lines[f]) for f in lines}, 'checkpoints': shape['ckpts']}
    try:
        r = P.call_named(PWL + '::reset_working_log', [Ref(Cell(wl))])
    except Panic as e:
        h.panic('K2-reset-no-panic', e.msg)
        return
    h.require(r.var == 'Ok', 'K2-reset-ok', 'reset_working_log failed on a healthy file system')
    named, ck_files = read_back(h, wl)
    h.require(not named, 'K2-reset-clears-INITIAL', 'INITIAL still names %r after a reset' % sorted(named))
    h.require(ck_files == [], 'K2-reset-clears-checkpoints', 'checkpoints survive a reset: %r' % (ck_files,))
    h.sample = h.witness()


def ob_batch(h, shape):
    k = h.choice(len(shape['shapes']))
    name, sh = shape['shapes'][k]
    h.shape = {'ob': name, 'shape': sh}
    (ob_checkout_paths if name == 'checkout_paths' else ob_reset)(h, sh)


VAS = 'authorship::virtual_attribution::VirtualAttributions'
ATTR = 'authorship::attribution_tracker::Attribution'
REPO = 'git::repository::Repository'


def mk_repo(M, workdir='/w'):
    from mirsym.models.paths import mk_pathbuf
    pb = lambda x: mk_pathbuf(list(x.encode()))
    st = mk_struct(M, 'git::repo_storage::RepoStorage', ai_dir=pb(workdir + '/.git/ai'), repo_workdir=pb(workdir), working_logs=pb(workdir + '/.git/ai/working_logs'),
                   rewrite_log=pb(workdir + '/.git/ai/rewrite_log'), logs=pb(workdir + '/.git/ai/logs'))
    return mk_struct(M, REPO, global_args=VecV([]), git_dir=pb(workdir + '/.git'), git_common_dir=pb(workdir + '/.git'),
                     storage=st, pre_command_base_commit=none(), pre_command_refname=none(), pre_reset_target_commit=none(),
                     workdir=pb(workdir), canonical_workdir=pb(workdir))


ENTRY_KINDS = ['ai', 'human_all', 'no_data', 'ai_chars_only']


def ob_fold(h, shape):
    """shape: {'initial': bool, 'entries': [kind, ...]} for one file f of 3 lines"""
    P = h.P
    M = P.M
    wl = mk_wl(M)
    P.state['wl'] = wl
    content = list(b'l1\nl2\nl3\n')
    P.state['fs'] = {'/wl': 'DIR', '/w/f': StringV(list(content))}
    stats = Agg(STATS, [Sc(0, 32) for _ in M.src.struct_fields(STATS)])
    lines = {}
    if shape['initial']:
        s0 = h.u32('i_s', 1, 3)
        e0 = h.u32('i_e', 1, 3)
        P.assume(binop('Le', s0, e0))
        lines['initial'] = (s0, e0)
        files = MapV('hash', [[pystring('f'), VecV([mk_struct(M, LATTR, start_line=s0, end_line=e0, author_id=pystring('s0'), overrode=none())])]], 'map')
        r = P.call_named(PWL + '::write_initial_attributions', [Ref(Cell(wl)), files, MapV('hash', [], 'map')])
        if r.var != 'Ok':
            raise Unsupported('seeding INITIAL failed')
    cks = []
    for i, kind in enumerate(shape['entries']):
        la = []
        at = []
        if kind in ('ai', 'ai_chars_only'):
            s_ = h.u32('e%d_s' % i, 1, 3)
            e_ = h.u32('e%d_e' % i, 1, 3)
            P.assume(binop('Le', s_, e_))
            lines[i] = (s_, e_)
            if kind == 'ai':
                la = [mk_struct(M, LATTR, start_line=s_, end_line=e_, author_id=pystring('s%d' % (i + 1)), overrode=none())]
                at = [mk_struct(M, ATTR, start=usize(0), end=usize(len(content)), author_id=pystring('s%d' % (i + 1)), ts=Sc(i, 128))]
            else:
                # older checkpoint data: character ranges only (whole lines s_..e_)
                cs = Sc(z3.ZeroExt(32, (s_.v - 1) * 3), 64)
                ce = Sc(z3.ZeroExt(32, e_.v * 3), 64)
                at = [mk_struct(M, ATTR, start=cs, end=ce, author_id=pystring('s%d' % (i + 1)), ts=Sc(i, 128))]
        elif kind == 'human_all':
            at = [mk_struct(M, ATTR, start=usize(0), end=usize(len(content)), author_id=pystring('human'), ts=Sc(i, 128))]
        entry = mk_struct(M, WLE, file=pystring('f'), blob_sha=pystring('b%d' % i), attributions=VecV(at), line_attributions=VecV(la))
        ck_kind = 'Human' if kind in ('human_all', 'no_data') else 'AiAgent'
        cks.append(mk_struct(M, CKPT, kind=mk_enum(M, KIND, ck_kind), diff=pystring('d'), author=pystring('x'), entries=VecV([entry]),
                             timestamp=Sc(i, 64), transcript=none(), agent_id=none(), agent_metadata=none(), line_stats=stats,
                             api_version=pystring('checkpoint/1.0.0'), git_ai_version=none()))
    v = VecV(cks)
    r = P.call_named(PWL + '::write_all_checkpoints', [Ref(Cell(wl)), SliceRef(v, 0, len(cks))])
    if r.var != 'Ok':
        raise Unsupported('seeding checkpoints failed')
    h.inputs_struct = {'initial': list(lines['initial']) if 'initial' in lines else None,
                       'entries': [{'kind': k, 'lines': list(lines[i]) if i in lines else None} for i, k in enumerate(shape['entries'])]}
    repo = mk_repo(M)
    try:
        r = P.call_named(VAS + '::from_just_working_log', [repo, pystring('head'), none()])
    except Panic as e:
        h.panic('K3-no-panic', e.msg)
        return
    h.require(r.var == 'Ok', 'K3-fold-ok', 'from_just_working_log failed on a healthy working log')
    if r.var != 'Ok':
        return
    va = r.f[0]
    got = None
    for ent in field(M, va, VAS, 'attributions').ent:
        if bytes(concrete_bytes(as_bytes(ent[0]))) == b'f':
            got = [(bytes(concrete_bytes(as_bytes(field(M, la, LATTR, 'author_id')))).decode(), field(M, la, LATTR, 'start_line'), field(M, la, LATTR, 'end_line')) for la in ent[1].f[1].e]
    # reference: the newest statement wins
    want = None
    if 'initial' in lines:
        want = ('s0',) + lines['initial']
    for i, kind in enumerate(shape['entries']):
        if kind in ('ai', 'ai_chars_only'):
            want = ('s%d' % (i + 1),) + lines[i]
        elif kind == 'human_all':
            want = None
    if want is None:
        ai = [g for g in (got or []) if g[0] != 'human']
        h.require(not ai, 'K3-human-rewrite-clears-earlier-AI-claims',
                  'the newest entry for the file leaves no AI line, yet the folded state attributes lines to %r' % sorted({g[0] for g in ai}))
    else:
        okk = got is not None and len(got) >= 1 and all(g[0] == want[0] for g in got)
        h.require(okk, 'K3-newest-entry-decides-the-session', 'folded state %r, newest statement is by %s' % ([g[0] for g in (got or [])], want[0]))
        if okk:
            # the lines covered are exactly want's lines
            l = h.u32('l', 1, 3)
            inw = z3.And(z3.UGE(l.v, want[1].v), z3.ULE(l.v, want[2].v))
            ing = z3.Or([z3.And(z3.UGE(l.v, g[1].v), z3.ULE(l.v, g[2].v)) for g in got])
            h.require(inw == ing, 'K3-newest-entry-decides-the-lines', 'a line is attributed differently from the newest statement')
    h.sample = h.witness()


RESET_LINES = [['--hard'], ['--hard', 'HEAD'], ['--hard', 'HEAD~1'], ['--hard', 'abc123'], ['-q', '--hard'], ['--hard', '-q', 'HEAD']]


def ob_reset_hard(h, shape):
    """`git reset --hard [<target>]` succeeded: the working log of the old HEAD is gone, whatever the
    target resolves to (HEAD itself included: the work is discarded all the same)"""
    P = h.P
    M = P.M
    argv = ['reset'] + RESET_LINES[shape['line']]
    old = 'oldhead'
    target = old if shape['same'] else 'other'
    repo = mk_repo(M)
    fields = M.src.struct_fields(REPO)
    repo.f[fields.index('pre_command_base_commit')] = some(pystring(old))
    repo.f[fields.index('pre_reset_target_commit')] = some(pystring(target)) if shape['pre_resolved'] else none()
    wl_dir = '/w/.git/ai/working_logs/' + old
    other_dir = '/w/.git/ai/working_logs/unrelated'
    P.state['fs'] = {wl_dir + '/INITIAL': pystring('{"files":{},"prompts":{}}'), wl_dir + '/checkpoints.jsonl': pystring('x'),
                     wl_dir + '/blobs/b0': pystring('y'), other_dir + '/checkpoints.jsonl': pystring('z')}
    P.state['c03_head'] = target
    P.state['c03_resolve'] = target
    h.inputs_struct = {'argv': argv, 'same': shape['same'], 'pre_resolved': shape['pre_resolved']}
    parsed = P.call_named('git::cli_parser::parse_git_cli_args', [SliceRef(VecV([pystring(x) for x in argv]), 0, len(argv))])
    status = Opaque('ExitStatus', {'code': some(Sc(0, 32, True)), 'signal': none()})
    try:
        P.call_named('commands::hooks::reset_hooks::post_reset_hook', [Ref(Cell(parsed)), Ref(Cell(repo)), status])
    except Panic as e:
        h.panic('K2-reset-hard-no-panic', e.msg)
        return
    fs = P.state['fs']
    left = sorted(k for k in fs if k == wl_dir or k.startswith(wl_dir + '/'))
    h.require(not left, 'K2-hard-reset-discards-pending-attribution', 'after `git %s` the working log of the old HEAD still holds %r' % (' '.join(argv), left))
    h.require(any(k.startswith(other_dir + '/') for k in fs), 'K2-hard-reset-leaves-other-working-logs', 'another base commit\'s working log was removed')
    h.sample = h.witness()


FORCE_LINES = {
    'checkout': [['-f'], ['--force'], ['-f', 'main'], ['--force', 'main'], ['-f', 'HEAD']],
    'switch': [['--discard-changes', 'main'], ['-f', 'main'], ['--force', 'main']],
}


def ob_force_checkout(h, shape):
    """`git checkout -f [<branch>]` / `git switch --discard-changes <branch>` succeeded: the uncommitted work is gone,
    and so must be the pending attribution of the commit that was checked out before - also when the command stays
    on the same commit (otherwise whatever a person types next at those line numbers is claimed for the session)"""
    P = h.P
    M = P.M
    cmd = shape['cmd']
    argv = [cmd] + FORCE_LINES[cmd][shape['line']]
    old = 'oldhead'
    new = old if shape['same'] else 'other'
    repo = mk_repo(M)
    fields = M.src.struct_fields(REPO)
    repo.f[fields.index('pre_command_base_commit')] = some(pystring(old))
    wl_dir = '/w/.git/ai/working_logs/' + old
    other_dir = '/w/.git/ai/working_logs/unrelated'
    P.state['fs'] = {wl_dir + '/INITIAL': pystring('{"files":{},"prompts":{}}'), wl_dir + '/checkpoints.jsonl': pystring('x'),
                     wl_dir + '/blobs/b0': pystring('y'), other_dir + '/checkpoints.jsonl': pystring('z')}
    P.state['c03_head'] = new
    P.state['c03_resolve'] = new
    h.inputs_struct = {'force_argv': argv, 'same': shape['same']}
    parsed = P.call_named('git::cli_parser::parse_git_cli_args', [SliceRef(VecV([pystring(x) for x in argv]), 0, len(argv))])
    status = Opaque('ExitStatus', {'code': some(Sc(0, 32, True)), 'signal': none()})
    CTX = 'commands::git_handlers::CommandHooksContext'
    ctx = Agg(CTX, [none() for _ in M.src.struct_fields(CTX)])
    fn = 'commands::hooks::checkout_hooks::post_checkout_hook' if cmd == 'checkout' else 'commands::hooks::switch_hooks::post_switch_hook'
    try:
        P.call_named(fn, [Ref(Cell(parsed)), Ref(Cell(repo)), status, Ref(Cell(ctx))])
    except Panic as e:
        h.panic('K2-force-checkout-no-panic', e.msg)
        return
    fs = P.state['fs']
    left = sorted(k for k in fs if k == wl_dir or k.startswith(wl_dir + '/'))
    moved = sorted(k for k in fs if k.startswith('/w/.git/ai/working_logs/' + new + '/')) if new != old else []
    h.require(not left and not moved, 'K2-forced-checkout-discards-pending-attribution',
              'after `git %s` (HEAD %s) the pending attribution of the old HEAD is still there: %r' % (' '.join(argv), 'unchanged' if shape['same'] else 'moved', left + moved))
    h.require(any(k.startswith(other_dir + '/') for k in fs), 'K2-forced-checkout-leaves-other-working-logs', 'another base commit\'s working log was removed')
    h.sample = h.witness()


MERGE_LINES = {'checkout': [['-m', 'main'], ['--merge', 'main'], ['main']], 'switch': [['-m', 'main'], ['--merge', 'main'], ['main']]}


def ob_merge_checkout(h, shape):
    """`git checkout --merge` / `git switch --merge` carries the uncommitted work to another commit and git-ai carries
    the pending attribution along by line number, captured before git runs.  What a person typed since the last
    checkpoint is only known to a checkpoint: a Human checkpoint must be taken before the capture (a necessary
    condition: without it the captured numbers describe an older text and the person's lines are claimed for a session)"""
    P = h.P
    M = P.M
    cmd = shape['cmd']
    argv = [cmd] + MERGE_LINES[cmd][shape['line']]
    P.state['c03_merge'] = {'dirty': shape['dirty']}
    P.state['c03_head'] = 'oldhead'
    repo = mk_repo(M)
    h.inputs_struct = {'merge_argv': argv, 'dirty': shape['dirty']}
    parsed = P.call_named('git::cli_parser::parse_git_cli_args', [SliceRef(VecV([pystring(x) for x in argv]), 0, len(argv))])
    CTX = 'commands::git_handlers::CommandHooksContext'
    ctx = Agg(CTX, [none() for _ in M.src.struct_fields(CTX)])
    fn = 'commands::hooks::checkout_hooks::pre_checkout_hook' if cmd == 'checkout' else 'commands::hooks::switch_hooks::pre_switch_hook'
    try:
        P.call_named(fn, [Ref(Cell(parsed)), Ref(Cell(repo)), Ref(Cell(ctx))])
    except Panic as e:
        h.panic('K2-merge-checkout-no-panic', e.msg)
        return
    ev = [e for e in P.events if e[0] in ('checkpoint_run', 'va_capture')]
    cap = [i for i, e in enumerate(ev) if e[0] == 'va_capture']
    is_merge = MERGE_LINES[cmd][shape['line']][0] in ('-m', '--merge')
    if is_merge and shape['dirty']:
        h.require(len(cap) == 1, 'K2-merge-checkout-captures-pending-attribution', 'pending attribution was not captured before `git %s`' % ' '.join(argv))
    if cap:
        before = [e for e in ev[:cap[0]] if e[0] == 'checkpoint_run' and e[1] == 'Human']
        h.require(bool(before), 'K2-merge-checkout-records-the-persons-edits-first',
                  '`git %s`: the pending attribution is captured without a Human checkpoint first, so what a person typed since the last checkpoint keeps the line numbers of the session' % ' '.join(argv))
    else:
        h.require(True, 'K2-merge-checkout-nothing-to-capture')
    h.sample = h.witness()


PRE_RESET_LINES = [['--soft', 'HEAD~1'], ['--mixed', 'HEAD~1'], ['HEAD~1'], ['--hard', 'HEAD~1'], ['--keep', 'HEAD~1'], ['--merge', 'HEAD~1'], ['--soft'], ['HEAD', '--', 'f']]


def ob_pre_reset(h, shape):
    """every reset rewrites the pending attribution from the line numbers the working log holds; what a person typed
    since the last checkpoint is only known to a checkpoint, so the pre-reset hook takes a Human one whatever the mode
    (a necessary condition, as for --merge checkouts)"""
    P = h.P
    M = P.M
    argv = ['reset'] + PRE_RESET_LINES[shape['line']]
    P.state['c03_merge'] = {'dirty': True}
    P.state['c03_head'] = 'oldhead'
    P.state['c03_resolve'] = 'other'
    repo = mk_repo(M)
    h.inputs_struct = {'pre_reset_argv': argv}
    parsed = P.call_named('git::cli_parser::parse_git_cli_args', [SliceRef(VecV([pystring(x) for x in argv]), 0, len(argv))])
    try:
        P.call_named('commands::hooks::reset_hooks::pre_reset_hook', [Ref(Cell(parsed)), Ref(Cell(repo))])
    except Panic as e:
        h.panic('K2-pre-reset-no-panic', e.msg)
        return
    took = [e for e in P.events if e[0] == 'checkpoint_run' and e[1] == 'Human']
    h.require(bool(took), 'K2-reset-records-the-persons-edits-first', '`git %s`: no Human checkpoint is taken before the reset' % ' '.join(argv))
    h.sample = h.witness()


def ob_stash_scope(h, shape):
    """`git stash push -- <pathspec>` takes some files out of the work tree; the note kept for the stash (and written back
    to INITIAL by `stash pop`, at whatever commit is checked out then) must carry the pending attribution of exactly the
    stashed files - a claim for a file that stayed behind would come back later over whatever a person wrote there"""
    P = h.P
    M = P.M
    files = ['a.txt', 'b.txt', 'dir/c.txt']
    P.state['c03_merge'] = {'dirty': True, 'va_files': files}
    P.state['c03_head'] = 'oldhead'
    kind = shape['spec']
    if kind == 'file':
        spec = [h.byte_in('p0', [97, 98, 122])] + list(b'.txt')
    elif kind == 'dir':
        spec = list(b'di') + [h.byte_in('p0', [114, 120])] + ([47] if shape.get('slash') else [])
    elif kind == 'glob':
        spec = [h.byte_in('p0', [97, 98, 100])] + list(b'*')
    else:
        spec = None
    specs = VecV([StringV(list(spec))] if spec is not None else [])
    h.inputs_struct = {'files': files, 'stash_pathspec': ByteStr(spec) if spec is not None else None}
    repo = mk_repo(M)
    try:
        r = P.call_named('commands::hooks::stash_hooks::save_stash_authorship_log', [Ref(Cell(repo)), SliceRef(specs, 0, len(specs.e))])
    except Panic as e:
        h.panic('K2-stash-no-panic', e.msg)
        return
    h.require(r.var == 'Ok', 'K2-stash-save-ok', 'saving the stash attribution failed')

    def stashed(f):
        fb = list(f.encode())
        if spec is None:
            return True
        conds = []
        if len(fb) == len(spec):
            conds.append(bytes_eq(fb, list(spec)))
        if kind == 'dir':
            pre = list(spec) if shape.get('slash') else list(spec) + [47]
            if len(fb) >= len(pre):
                conds.append(bytes_eq(fb[:len(pre)], pre))
        if kind == 'glob':
            pre = list(spec[:-1])
            conds.append(bytes_eq(fb[:len(pre)], pre))
        return any(P.branch(c) if not isinstance(c, bool) else c for c in conds)
    want = [f for f in files if stashed(f)]
    notes = [e[1] for e in P.events if e[0] == 'stash_note']
    if not want:
        h.require(not notes, 'K2-stash-note-carries-exactly-the-stashed-files', 'a note was written although no file with pending attribution was stashed')
    else:
        h.require(len(notes) == 1, 'K2-stash-note-written', '%d stash notes written' % len(notes))
        if len(notes) == 1:
            text = bytes(concrete_bytes(notes[0])).decode()
            listed = [ln for ln in text.split('\n---')[0].split('\n') if ln and not ln.startswith(' ')]
            h.require(sorted(listed) == sorted(want), 'K2-stash-note-carries-exactly-the-stashed-files',
                      'stash pathspec %r: the note lists %r, the stashed files with pending attribution are %r' % (bytes(concrete_bytes(spec) or b'?').decode() if spec is not None else None, listed, want))
    h.sample = h.witness()


def ob_stash_restore(h, shape):
    """`git stash pop` / `apply`: the note kept for the stash comes back as pending attribution of the commit that is
    checked out: every line range of every session the note lists, under the same file and session, and nothing else;
    the sessions' records come along (the note is produced by the real serializer from symbolic ranges and read by the
    real parser)"""
    from harness import c09
    P = h.P
    M = P.M
    wl = mk_wl(M)
    P.state['wl'] = wl
    P.state['fs'] = {'/wl': 'DIR'}
    P.state['c03_head'] = 'head'
    P.state['c03_merge'] = {'dirty': True}
    files = [(f, shape.get('entries', 1), 1) for f in shape['files']]
    log, desc = c09.sym_note(h, 'st', files, iter('sr' * 8))
    # line numbers below 1000 (three digit-length classes per number keep the path count small)
    for _f, _hk, rs in desc:
        for a, b in rs:
            P.assume(binop('Le', a, Sc(999, 32)))
            P.assume(binop('Le', b, Sc(999, 32)))
    h.inputs_struct = {'note': c09.desc_json(desc), 'has_note': shape.get('has_note', True)}
    if shape.get('has_note', True):
        txt = P.call_named(c09.LOG + '::serialize_to_string', [Ref(Cell(log))])
        if txt.var != 'Ok':
            raise Unsupported('serializing the stash note failed')
        P.state['c03_stash_note'] = txt.f[0]
    repo = mk_repo(M)
    try:
        r = P.call_named('commands::hooks::stash_hooks::restore_stash_attributions', [Ref(Cell(repo)), pystr('stashsha'), pystr('A U Thor')])
    except Panic as e:
        h.panic('K2-stash-restore-no-panic', e.msg)
        return
    h.require(r.var == 'Ok', 'K2-stash-restore-ok', 'restoring the stash attribution failed')
    init = P.call_named(PWL + '::read_initial_attributions', [Ref(Cell(wl))])
    got = {}
    for ent in field(M, init, INIT, 'files').ent:
        nm = concrete_bytes(as_bytes(ent[0])).decode()
        got[nm] = [(field(M, la, LATTR, 'start_line'), field(M, la, LATTR, 'end_line'), bytes(concrete_bytes(as_bytes(field(M, la, LATTR, 'author_id')))).decode()) for la in ent[1].e]
    want = {}
    if shape.get('has_note', True):
        for f, hk, rs in desc:
            for a, b in rs:
                want.setdefault(f, []).append((a, b, hk))
    h.require(sorted(got) == sorted(want), 'K2-stash-pop-restores-the-files-of-the-note', 'INITIAL names %r, the stash note %r' % (sorted(got), sorted(want)))
    for f in want:
        if f not in got:
            continue
        g = got[f]
        okk = len(g) == len(want[f])
        conds = []
        for (a, b, hk) in want[f]:
            conds.append(any_of([all_of([binop('Eq', ga, a), binop('Eq', gb, b)]) for (ga, gb, gh) in g if gh == hk]))
        h.require(okk and all_of(conds), 'K2-stash-pop-restores-every-range-under-its-session',
                  'file %s: INITIAL holds %d ranges, the note %d; or a range / session differs' % (f, len(g), len(want[f])))
    if shape.get('has_note', True):
        prom = field(M, init, INIT, 'prompts')
        keys = sorted(bytes(concrete_bytes(as_bytes(k))).decode() for k, _ in prom.ent)
        h.require(keys == sorted(c09.TOOLS), 'K2-stash-pop-restores-the-session-records', 'records restored for %r' % keys)
    h.sample = h.witness()


OBLIGATIONS = {'stash_restore': ob_stash_restore, 'stash_scope': ob_stash_scope, 'pre_reset': ob_pre_reset, 'merge_checkout': ob_merge_checkout, 'force_checkout': ob_force_checkout, 'batch': ob_batch, 'checkout_paths': ob_checkout_paths, 'reset': ob_reset, 'fold': ob_fold, 'reset_hard': ob_reset_hard}


def extra_checks(tier, seed, native):
    """a recorded finding that lives in a concrete history rather than in one function: a person stages a line, an agent
    rewrites it in the work tree (reported, not staged), the index is committed - the committed line is the person's"""
    out = {'validated': 0, 'inconclusive': [], 'violations': [], 'known_seen': []}
    try:
        r = native('c03_staged_then_rewritten', {})
    except Exception as e:
        out['inconclusive'].append('the staged-then-rewritten history could not be staged: %s: %s' % (type(e).__name__, e))
        return out
    if 'panic' in r or not r.get('ok'):
        out['inconclusive'].append('the staged-then-rewritten history could not be staged: %r' % (r,))
    elif r.get('sessions_claiming_line_3'):
        out['known_seen'].append(('staged-human-line-rewritten-unstaged-by-agent', r))
    else:
        out['validated'] += 1
    return out


def replay(v, native):
    inp = v['inputs']
    if 'has_note' in inp:
        return {'reproduced': False, 'note': 'the pop side is replayed through c03_stash_scope only for the save side; not staged natively'}
    if 'stash_pathspec' in inp:
        r = native('c03_stash_scope', inp)
        if 'panic' in r:
            return {'reproduced': v['kind'] == 'panic', 'native': r}
        if v['kind'] == 'panic' or not r.get('stashed'):
            return {'reproduced': False, 'native': r}
        bad = {'K2-stash-note-carries-exactly-the-stashed-files': sorted(r['listed']) != sorted(r['stashed_files']),
               'K2-stash-note-written': bool(r['stashed_files']) and not r['listed']}
        return {'reproduced': bool(bad.get(v['obligation'])), 'native': r}
    if 'pre_reset_argv' in inp:
        r = native('c03_pre_reset', inp)
    elif 'merge_argv' in inp:
        r = native('c03_merge_checkout', inp)
    elif 'force_argv' in inp:
        r = native('c03_force_checkout', inp)
    elif 'argv' in inp:
        r = native('c03_reset_hard', inp)
    elif 'entries' in inp:
        r = native('c03_fold', inp)
    elif 'pathspecs' in inp:
        r = native('c03_checkout_paths', inp)
    else:
        r = native('c03_reset', inp)
    if 'panic' in r:
        return {'reproduced': v['kind'] == 'panic', 'native': r}
    if v['kind'] == 'panic':
        return {'reproduced': False, 'native': r}
    return {'reproduced': v['obligation'] in r.get('failed', []), 'native': r}
