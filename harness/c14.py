"""C14 — attribution does not depend on how often or how finely checkpoints are taken (kernels).

K1  a repeated checkpoint adds nothing: commands::checkpoint::get_checkpoint_entry_for_file with the file's
    latest entry present and the snapshot equal to the current content (same symbolic string) returns
    Ok(None) for every kind / pre-commit flag / INITIAL presence / AI-touched membership; and the
    converse witness: a changed content under an AI checkpoint does produce an entry for that file.
K2  pruning and selection agree: PersistedWorkingLog::prune_old_char_attributions followed by
    checkpoint::build_previous_file_state_maps select, per file, the newest entry, and that is the entry
    whose character ranges were kept; ai_touched_files ignores human-only checkpoints.
K4  the pre-commit checkpoint is skipped only when no AI state exists.  Encoded from MIR:
    PersistedWorkingLog::all_ai_touched_files and the head of commands::checkpoint::run with is_pre_commit = true
    (up to file discovery) over working logs written by the real writer: the early exit is taken iff no AI
    checkpoint ever recorded a file, INITIAL names no file and the inter-commit-move flag is off — an extra human
    checkpoint on an AI-touched file must not change that.
K3  tracker no-ops (identical text keeps every line's author): decided by the C16 check.
"""
import itertools
import z3
from harness.lib import *
from harness import c03

ID = 'C14'
CP = 'commands::checkpoint'
PWL = 'git::repo_storage::PersistedWorkingLog'
LATTR = 'authorship::attribution_tracker::LineAttribution'
ATTR = 'authorship::attribution_tracker::Attribution'
CKPT = 'authorship::working_log::Checkpoint'
WLE = 'authorship::working_log::WorkingLogEntry'
KIND = 'authorship::working_log::CheckpointKind'
PFS = CP + '::PreviousFileState'
CFG = {'max_steps': 3000000, 'max_depth': 90}

BOUNDS = {
    'quick': 'K1: file content of 3 symbolic bytes over {a b SP LF}, previous entry with one symbolic attribution; kind in {Human, AiAgent, AiTab} x pre-commit flag x INITIAL entry present/absent x file in/not in the AI-touched set x feature flag; changed-content witness with one differing byte; K2: <=3 checkpoints x <=2 entries over files {a, b}, kinds symbolic choice, each entry with/without character ranges and human/AI line attributions',
    'thorough': 'content of 4 bytes, 4 checkpoints',
}
OUTSIDE = 'splitting one agent edit into several checkpoints (equality of the final attribution depends on which minimal script the diff engine picks for the intermediate texts); checkpoint::run as a whole (file discovery, git status, blob snapshots, the pre-commit early exit K4 — needs the repository and status models); read-only git commands in between (no git-ai code runs for them beyond the argument scan decided under C18)'
ASSUMPTIONS = [
    'file system = model map (blob snapshots and the working file); Config feature flags = one symbolic boolean; HEAD tree lookups are an environment boundary that must not be needed when a previous entry exists',
]


class AnyField(Agg):
    """struct whose every field reads as the same value (macro-generated FeatureFlags)"""

    def getk(self, k):
        return self.f[0]


def install(M):
    c03.install(M)

    def staged_names(P, c, args, dt):
        if 'c14_staged' not in P.state:
            raise Unsupported('get_staged_filenames outside the commit-time obligation')
        return ok(MapV('hash', [[pystring(f), None] for f in P.state['c14_staged']], 'set'))
    M.env['git::status::Repository::get_staged_filenames'] = staged_names

    def cfg_get(P, c, args, dt):
        return Ref(Cell(Agg('config::Config', [])))

    def cfg_flags(P, c, args, dt):
        return Ref(Cell(AnyField('feature_flags::FeatureFlags', [P.state.get('flag', FALSE)])))

    def head_content(P, c, args, dt):
        P.events.append(('head_lookup',))
        return StringV(list(P.state.get('head_content', [])))
    M.env['config::Config::get'] = cfg_get
    M.env['config::Config::get_feature_flags'] = cfg_flags
    M.env[CP + '::get_previous_content_from_head'] = head_content

    def head(P, c, args, dt):
        return err(Opaque('GitAiError', 'nohead'))

    def noop(P, c, args, dt):
        return unit()

    def patterns(P, c, args, dt):
        return VecV([])

    def matcher(P, c, args, dt):
        return Opaque('IgnoreMatcher', None)

    def tracked(P, c, args, dt):
        raise Reached()
    M.env['git::repository::Repository::head'] = head
    M.env['commands::git_hook_handlers::ensure_repo_level_hooks_for_checkpoint'] = noop
    M.env['authorship::ignore::effective_ignore_patterns'] = patterns
    M.env['authorship::ignore::build_ignore_matcher'] = matcher
    M.env[CP + '::get_all_tracked_files'] = tracked

    def status_of_files(P, c, args, dt):
        sk = args[3]
        P.state.setdefault('c14_status', []).append(bool(sk.v) if isinstance(sk, Sc) and sk.concrete else None)
        return ok(VecV([]))

    def should_ignore(P, c, args, dt):
        return FALSE
    M.env[CP + '::get_status_of_files'] = status_of_files
    M.env['authorship::ignore::should_ignore_file_with_matcher'] = should_ignore


def plan(tier, seed):
    tasks = []
    for staged in ([], ['f'], ['f', 'g']):
        tasks.append(('pre_commit_always', {'staged': staged}))
    for prev in (False, True):
        tasks.append(('append_stores', {'prev': prev}))
    for kind in ('Human', 'AiAgent', 'AiTab'):
        for pre in (False, True):
            for init in (False, True):
                for touched in (False, True):
                    tasks.append(('repeat', {'kind': kind, 'pre_commit': pre, 'initial': init, 'touched': touched}))
    for kind in ('AiAgent', 'AiTab'):
        for init in (False, True):
            tasks.append(('changed', {'kind': kind, 'initial': init}))
    nck = 3 if tier == 'quick' else 4
    for n in range(1, nck + 1):
        for files in itertools.product(('a', 'b', 'ab'), repeat=n):
            tasks.append(('prune_select', {'files': list(files)}))
    for kinds in ([], ['Human'], ['AiAgent'], ['AiAgent', 'Human'], ['Human', 'AiTab'], ['Human', 'Human']):
        for pre in (True, False):
            tasks.append(('pre_commit_untracked', {'kinds': kinds, 'pre_commit': pre}))
    for n in range(0, 4):
        for kinds in itertools.product(('AiAgent', 'Human', 'AiTab'), repeat=n):
            if n == 3 and 'AiTab' in kinds:
                continue
            for files in (['a'] * n, (['a', 'b', 'a'])[:n]):
                for init in (False, True):
                    tasks.append(('pre_commit_skip', {'kinds': list(kinds), 'files': list(files), 'initial': init}))
    return tasks


def arc(v):
    return BoxV(v, 'Arc')


def call_entry(h, kind, pre, init, touched, prev_bytes, cur_bytes, flag):
    P = h.P
    M = P.M
    P.state['flag'] = flag
    wl = c03.mk_wl(M)
    P.state['fs'] = {'/wl': 'DIR', '/wl/blobs/b0': StringV(list(prev_bytes)), '/w/f.txt': StringV(list(cur_bytes))}
    s = h.u32('ps', 0, 3)
    prev_attr = mk_struct(M, ATTR, start=usize(0), end=Sc(z3.ZeroExt(32, s.v), 64), author_id=pystring('s1'), ts=Sc(5, 128))
    prev_state = Agg(PFS, [pystring('b0'), VecV([prev_attr])])
    pmap = MapV('hash', [[pystring('f.txt'), prev_state]], 'map')
    tset = MapV('hash', [[pystring('f.txt'), None]] if touched else [], 'set')
    imap = MapV('hash', [], 'map')
    if init:
        imap.ent.append([pystring('f.txt'), VecV([mk_struct(M, LATTR, start_line=Sc(1, 32), end_line=Sc(1, 32), author_id=pystring('s2'), overrode=none())])])
    return P.call_named(CP + '::get_checkpoint_entry_for_file', [
        pystring('f.txt'), mk_enum(M, KIND, kind), Sc(pre, 0), Agg('git::repository::Repository', []), wl,
        arc(pmap), arc(tset), pystring('newhash'), arc(pystring('s9')), arc(some(pystring('head'))), arc(some(pystring('tree'))), arc(imap), Sc(100, 128)])


def ob_repeat(h, shape):
    P = h.P
    bs = [h.byte_in('c%d' % i, [97, 98, 32, 10]) for i in range(3)]
    flag = mk_bool(P.fresh_bool('flag'))
    h.inputs_struct = {'content': ByteStr(bs), 'shape': dict(shape)}
    try:
        r = call_entry(h, shape['kind'], shape['pre_commit'], shape['initial'], shape['touched'], bs, bs, flag)
    except Panic as e:
        h.panic('K1-no-panic', e.msg)
        return
    h.require(r.var == 'Ok' and r.f[0].var == 'None', 'K1-unchanged-content-adds-no-entry',
              'a checkpoint over unchanged content produced %s' % ('an entry' if r.var == 'Ok' else 'an error'))
    h.require(not any(e[0] == 'head_lookup' for e in P.events), 'K1-previous-entry-is-the-base',
              'the HEAD version was consulted although a previous entry exists')
    h.sample = h.witness()


def ob_changed(h, shape):
    P = h.P
    M = P.M
    old = [h.byte_in('o%d' % i, [97, 98, 32, 10]) for i in range(2)]
    nb = h.byte_in('n0', [97, 98])
    new = old + [nb]
    flag = mk_bool(P.fresh_bool('flag'))
    h.inputs_struct = {'old': ByteStr(old), 'new': ByteStr(new), 'shape': dict(shape)}
    try:
        r = call_entry(h, shape['kind'], False, shape['initial'], True, old, new, flag)
    except Panic as e:
        h.panic('K1-changed-no-panic', e.msg)
        return
    okk = r.var == 'Ok' and r.f[0].var == 'Some'
    h.require(okk, 'K1-changed-content-is-recorded', 'an AI checkpoint over changed content recorded nothing')
    if okk:
        entry = r.f[0].f[0].f[0]
        h.require(bytes_equal(as_bytes(field(M, entry, WLE, 'file')), list(b'f.txt')), 'K1-entry-names-the-file', 'entry for another file')
        h.require(bytes_equal(as_bytes(field(M, entry, WLE, 'blob_sha')), list(b'newhash')), 'K1-entry-carries-new-snapshot', 'entry does not carry the new content hash')
        # the appended non-blank byte belongs to the reporting session: its line is listed for s9
        las = field(M, entry, WLE, 'line_attributions').e
        who = [concrete_bytes(as_bytes(field(M, la, LATTR, 'author_id'))).decode() for la in las]
        h.require('s9' in who, 'K1-new-text-credited-to-reporting-session', 'line attributions %r do not credit the reporting session' % who)
    h.sample = h.witness()


def ob_prune_select(h, shape):
    P = h.P
    M = P.M
    cks = []
    desc = []
    for i, fl in enumerate(shape['files']):
        kind = ['Human', 'AiAgent'][h.choice(2)]
        entries = []
        de = []
        for j, f in enumerate(fl):
            ai_lines = h.choice(2) == 1
            la = mk_struct(M, LATTR, start_line=Sc(1, 32), end_line=Sc(1, 32), author_id=pystring('s1' if ai_lines else 'human'), overrode=none())
            at = mk_struct(M, ATTR, start=usize(0), end=usize(1), author_id=pystring('s1' if ai_lines else 'human'), ts=Sc(i, 128))
            entries.append(mk_struct(M, WLE, file=pystring(f), blob_sha=pystring('b%d_%s' % (i, f)), attributions=VecV([at]), line_attributions=VecV([la])))
            de.append({'file': f, 'ai_lines': ai_lines})
        stats = Agg('authorship::working_log::CheckpointLineStats', [Sc(0, 32) for _ in M.src.struct_fields('authorship::working_log::CheckpointLineStats')])
        cks.append(mk_struct(M, CKPT, kind=mk_enum(M, KIND, kind), diff=pystring('d'), author=pystring('x'), entries=VecV(entries),
                             timestamp=Sc(i, 64), transcript=none(), agent_id=none(), agent_metadata=none(), line_stats=stats,
                             api_version=pystring('checkpoint/1.0.0'), git_ai_version=none()))
        desc.append({'kind': kind, 'entries': de})
    h.inputs_struct = {'checkpoints': desc}
    wl = c03.mk_wl(M)
    v = VecV(cks)
    try:
        P.call_named(PWL + '::prune_old_char_attributions', [Ref(Cell(wl)), SliceRef(v, 0, len(cks))])
        r = P.call_named(CP + '::build_previous_file_state_maps', [SliceRef(v, 0, len(cks)), Ref(Cell(MapV('hash', [], 'map')))])
    except Panic as e:
        h.panic('K2-no-panic', e.msg)
        return
    pmap, touched = r.f
    # expected: newest entry per file
    newest = {}
    for i, d in enumerate(desc):
        for e in d['entries']:
            newest[e['file']] = i
    got = {}
    for ent in pmap.ent:
        f = concrete_bytes(as_bytes(ent[0])).decode()
        got[f] = (concrete_bytes(as_bytes(ent[1].f[0])).decode(), len(ent[1].f[1].e))
    want = {f: ('b%d_%s' % (i, f), 1) for f, i in newest.items()}
    h.require(got == want, 'K2-previous-state-is-newest-entry-with-its-char-ranges',
              'selected previous states %r, expected newest entries with their character ranges %r' % (got, want))
    # entries that are not the newest for their file lost their character ranges; the newest kept them
    okp = True
    for i, c in enumerate(v.e):
        for e in field(M, c, CKPT, 'entries').e:
            f = concrete_bytes(as_bytes(field(M, e, WLE, 'file'))).decode()
            n = len(field(M, e, WLE, 'attributions').e)
            if (newest[f] == i) != (n == 1):
                okp = False
    h.require(okp, 'K2-prune-keeps-exactly-newest', 'pruning kept / dropped the wrong character ranges')
    wt = set()
    for d in desc:
        for e in d['entries']:
            if d['kind'] != 'Human' or e['ai_lines']:
                wt.add(e['file'])
    gt = {concrete_bytes(as_bytes(ent[0])).decode() for ent in touched.ent}
    h.require(gt == wt, 'K2-ai-touched-ignores-human-only', 'AI-touched files %r, expected %r' % (sorted(gt), sorted(wt)))
    h.sample = h.witness()


class Reached(Exception):
    pass


def ob_pre_commit_skip(h, shape):
    """shape: {'kinds': [AiAgent|AiTab|Human per checkpoint], 'files': [file per checkpoint], 'initial': bool}"""
    P = h.P
    M = P.M
    wl = c03.mk_wl(M)
    P.state['wl'] = wl
    P.state['fs'] = {'/wl': 'DIR', '/w/a': StringV(list(b'x\n')), '/w/b': StringV(list(b'y\n'))}
    flag_on = h.choice(2) == 1
    P.state['flag'] = Sc(flag_on, 0)
    stats = Agg('authorship::working_log::CheckpointLineStats', [Sc(0, 32) for _ in M.src.struct_fields('authorship::working_log::CheckpointLineStats')])
    cks = []
    for i, (kind, f) in enumerate(zip(shape['kinds'], shape['files'])):
        who = 'human' if kind == 'Human' else 's1'
        la = mk_struct(M, LATTR, start_line=Sc(1, 32), end_line=Sc(1, 32), author_id=pystring(who), overrode=none())
        entry = mk_struct(M, WLE, file=pystring(f), blob_sha=pystring('b%d' % i), attributions=VecV([]), line_attributions=VecV([la] if kind != 'Human' else []))
        cks.append(mk_struct(M, CKPT, kind=mk_enum(M, KIND, kind), diff=pystring('d'), author=pystring('x'), entries=VecV([entry]),
                             timestamp=Sc(i, 64), transcript=none(), agent_id=none(), agent_metadata=none(), line_stats=stats,
                             api_version=pystring('checkpoint/1.0.0'), git_ai_version=none()))
    v = VecV(cks)
    r = P.call_named(PWL + '::write_all_checkpoints', [Ref(Cell(wl)), SliceRef(v, 0, len(cks))])
    if r.var != 'Ok':
        raise Unsupported('seeding checkpoints failed')
    if shape['initial']:
        files = MapV('hash', [[pystring('a'), VecV([mk_struct(M, LATTR, start_line=Sc(1, 32), end_line=Sc(1, 32), author_id=pystring('s0'), overrode=none())])]], 'map')
        r = P.call_named(PWL + '::write_initial_attributions', [Ref(Cell(wl)), files, MapV('hash', [], 'map')])
        if r.var != 'Ok':
            raise Unsupported('seeding INITIAL failed')
    h.inputs_struct = {'kinds': shape['kinds'], 'files': shape['files'], 'initial': shape['initial'], 'inter_commit_move': flag_on}
    ai_files = sorted({f for k, f in zip(shape['kinds'], shape['files']) if k != 'Human'})
    try:
        t = P.call_named(PWL + '::all_ai_touched_files', [Ref(Cell(wl))])
    except Panic as e:
        h.panic('K4-no-panic', e.msg)
        return
    got = sorted(bytes(concrete_bytes(as_bytes(k))).decode() for k, _ in t.f[0].ent) if t.var == 'Ok' else None
    h.require(got == ai_files, 'K4-ai-touched-is-every-file-an-AI-checkpoint-recorded',
              'all_ai_touched_files = %r, files recorded by AI checkpoints: %r' % (got, ai_files))
    # the early exit of the pre-commit checkpoint
    repo = c03.mk_repo(M)
    skipped = None
    try:
        r = P.run_fn(M.mir.get(M.find_fn(CP + '::run')),
                     [Ref(Cell(repo)), pystr('user'), mk_enum(M, KIND, 'Human'), FALSE, FALSE, TRUE, none(), TRUE])
        skipped = r.var == 'Ok'
    except Reached:
        skipped = False
    except Panic as e:
        h.panic('K4-run-no-panic', e.msg)
        return
    must_run = bool(ai_files) or shape['initial'] or flag_on
    h.require(not (skipped and must_run), 'K4-pre-commit-not-skipped-while-AI-state-exists',
              'the pre-commit checkpoint was skipped although %s' % ('AI checkpoints recorded %r' % ai_files if ai_files else ('INITIAL names a file' if shape['initial'] else 'inter_commit_move is on')))
    h.cover('K4-skipped', skipped is True)
    h.cover('K4-ran', skipped is False)
    h.sample = h.witness()


def ob_pre_commit_untracked(h, shape):
    """K4b: the commit-time checkpoint may leave untracked files out only while no AI checkpoint exists: an untracked
    file an agent created (and checkpointed) must be looked at again at commit time"""
    P = h.P
    M = P.M
    wl = c03.mk_wl(M)
    P.state['wl'] = wl
    P.state['fs'] = {'/wl': 'DIR', '/w/a': StringV(list(b'x\n'))}
    stats = Agg('authorship::working_log::CheckpointLineStats', [Sc(0, 32) for _ in M.src.struct_fields('authorship::working_log::CheckpointLineStats')])
    cks = []
    for i, kind in enumerate(shape['kinds']):
        who = 'human' if kind == 'Human' else 's1'
        la = [mk_struct(M, LATTR, start_line=Sc(1, 32), end_line=Sc(1, 32), author_id=pystring(who), overrode=none())] if kind != 'Human' else []
        entry = mk_struct(M, WLE, file=pystring('a'), blob_sha=pystring('b%d' % i), attributions=VecV([]), line_attributions=VecV(la))
        cks.append(mk_struct(M, CKPT, kind=mk_enum(M, KIND, kind), diff=pystring('d'), author=pystring('x'), entries=VecV([entry]),
                             timestamp=Sc(i, 64), transcript=none(), agent_id=none(), agent_metadata=none(), line_stats=stats,
                             api_version=pystring('checkpoint/1.0.0'), git_ai_version=none()))
    v = VecV(cks)
    r = P.call_named(PWL + '::write_all_checkpoints', [Ref(Cell(wl)), SliceRef(v, 0, len(cks))])
    if r.var != 'Ok':
        raise Unsupported('seeding checkpoints failed')
    pre = shape['pre_commit']
    h.inputs_struct = {'kinds': shape['kinds'], 'pre_commit': pre}
    repo = c03.mk_repo(M)
    P.state['c14_status'] = []
    try:
        r = P.call_named(CP + '::get_all_tracked_files', [Ref(Cell(repo)), pystr('head'), Ref(Cell(wl)), none(), Sc(pre, 0), Ref(Cell(Opaque('IgnoreMatcher', None)))])
    except Panic as e:
        h.panic('K4-tracked-no-panic', e.msg)
        return
    calls = P.state['c14_status']
    h.require(len(calls) == 1, 'K4-one-status-call', '%d status calls' % len(calls))
    if len(calls) != 1:
        return
    has_ai = any(k != 'Human' for k in shape['kinds'])
    skip = calls[0]
    if has_ai or not pre:
        h.require(skip is False, 'K4-untracked-files-are-looked-at-while-AI-state-exists',
                  'untracked files are skipped although %s' % ('an AI checkpoint exists' if has_ai else 'this is not the commit-time checkpoint'))
    else:
        h.require(True, 'K4-untracked-may-be-skipped')
    h.sample = h.witness()


def ob_pre_commit_always(h, shape):
    """K5: the commit-time step records what a person typed since the last checkpoint whatever the index holds at that
    moment (`git commit -a` and `git commit -- <path>` stage by themselves): pre_commit always takes the Human
    checkpoint - otherwise an extra explicit checkpoint before the commit, which the property calls redundant, would
    change the note"""
    P = h.P
    M = P.M
    staged = shape['staged']
    P.state['c03_merge'] = {'dirty': True}
    P.state['c14_staged'] = staged
    h.inputs_struct = {'staged_files': staged}
    repo = c03.mk_repo(M)
    try:
        r = P.call_named('authorship::pre_commit::pre_commit', [Ref(Cell(repo)), pystring('A U Thor')])
    except Panic as e:
        h.panic('K5-pre-commit-no-panic', e.msg)
        return
    took = [e for e in P.events if e[0] == 'checkpoint_run' and e[1] == 'Human']
    h.require(bool(took), 'K5-commit-time-checkpoint-is-always-taken', 'with %d staged file(s) no Human checkpoint is taken at commit time' % len(staged))
    h.sample = h.witness()


def ob_append_stores(h, shape):
    """K6: every checkpoint handed to the working log is stored, also one that looks like a repeat of the last (same tree
    hash, kind and agent): its entries depend on the mode it ran in, not only on the tree, and the next checkpoint
    diffs against them"""
    P = h.P
    M = P.M
    wl = c03.mk_wl(M)
    P.state['wl'] = wl
    P.state['fs'] = {'/wl': 'DIR'}
    stats = Agg('authorship::working_log::CheckpointLineStats', [Sc(0, 32) for _ in M.src.struct_fields('authorship::working_log::CheckpointLineStats')])

    def ck(i, kind, diff, files):
        entries = [mk_struct(M, WLE, file=pystring(f), blob_sha=pystring('b%d_%s' % (i, f)), attributions=VecV([]), line_attributions=VecV([])) for f in files]
        return mk_struct(M, CKPT, kind=mk_enum(M, KIND, kind), diff=pystring(diff), author=pystring('x'), entries=VecV(entries),
                         timestamp=Sc(i, 64), transcript=none(), agent_id=none(), agent_metadata=none(), line_stats=stats,
                         api_version=pystring('checkpoint/1.0.0'), git_ai_version=none())
    kinds = ['Human', 'AiAgent']
    k0 = kinds[h.choice(2)]
    k1 = kinds[h.choice(2)]
    same_diff = h.choice(2) == 1
    prev = [ck(0, k0, 'tree1', ['a'])] if shape['prev'] else []
    if prev:
        v0 = VecV(prev)
        r = P.call_named(PWL + '::write_all_checkpoints', [Ref(Cell(wl)), SliceRef(v0, 0, 1)])
        if r.var != 'Ok':
            raise Unsupported('seeding checkpoints failed')
    new = ck(1, k1, 'tree1' if same_diff else 'tree2', ['a', 'b'])
    h.inputs_struct = {'previous': [k0] if prev else [], 'new_kind': k1, 'same_tree': same_diff}
    try:
        r = P.call_named(PWL + '::append_checkpoint', [Ref(Cell(wl)), Ref(Cell(new))])
    except Panic as e:
        h.panic('K6-append-no-panic', e.msg)
        return
    h.require(r.var == 'Ok', 'K6-append-ok', 'append_checkpoint failed')
    got = P.call_named(PWL + '::read_all_checkpoints', [Ref(Cell(wl))])
    n = len(got.f[0].e) if got.var == 'Ok' else -1
    h.require(n == len(prev) + 1, 'K6-every-checkpoint-is-stored', 'the working log holds %d checkpoint(s) after appending to %d' % (n, len(prev)))
    if n == len(prev) + 1:
        last = got.f[0].e[-1]
        files = sorted(bytes(concrete_bytes(as_bytes(field(M, e, WLE, 'file')))).decode() for e in field(M, last, CKPT, 'entries').e)
        h.require(files == ['a', 'b'], 'K6-stored-checkpoint-keeps-its-entries', 'entries of the stored checkpoint: %r' % files)
    h.sample = h.witness()


OBLIGATIONS = {'pre_commit_always': ob_pre_commit_always, 'append_stores': ob_append_stores, 'repeat': ob_repeat, 'changed': ob_changed, 'prune_select': ob_prune_select, 'pre_commit_skip': ob_pre_commit_skip,
               'pre_commit_untracked': ob_pre_commit_untracked}
MUST_COVER = ['K4-skipped', 'K4-ran']


def replay(v, native):
    inp = v['inputs']
    ob = v['obligation']
    if 'staged_files' in inp:
        r = native('c14_pre_commit_always', inp)
        if 'panic' in r:
            return {'reproduced': v['kind'] == 'panic', 'native': r}
        return {'reproduced': v['kind'] != 'panic' and ob in r.get('failed', []), 'native': r}
    if 'new_kind' in inp:
        r = native('c14_append_stores', inp)
        if 'panic' in r:
            return {'reproduced': v['kind'] == 'panic', 'native': r}
        return {'reproduced': v['kind'] != 'panic' and ob in r.get('failed', []), 'native': r}
    if ob.startswith('K4') and 'pre_commit' in inp:
        r = native('c14_pre_commit_untracked', inp)
        if 'panic' in r:
            return {'reproduced': v['kind'] == 'panic', 'native': r}
        if v['kind'] == 'panic':
            return {'reproduced': False, 'native': r}
        has_ai = any(k != 'Human' for k in inp['kinds'])
        res = r.get('run', {}).get('result') or [0, 0, 0]
        bad = {'K4-untracked-files-are-looked-at-while-AI-state-exists': (has_ai or not inp['pre_commit']) and r.get('run', {}).get('ok') and res[1] == 0}
        return {'reproduced': bool(bad.get(ob)), 'native': r}
    if ob.startswith('K4'):
        if inp.get('inter_commit_move'):
            return {'reproduced': False, 'note': 'the feature flag cannot be switched natively'}
        r = native('c14_pre_commit_skip', inp)
        if 'panic' in r:
            return {'reproduced': v['kind'] == 'panic', 'native': r}
        if v['kind'] == 'panic':
            return {'reproduced': False, 'native': r}
        ai_files = sorted({f for k, f in zip(inp['kinds'], inp['files']) if k != 'Human'})
        run = r.get('run', {})
        skipped = run.get('ok') and run.get('result') == [0, 0, 0]
        bad = {'K4-ai-touched-is-every-file-an-AI-checkpoint-recorded': r.get('touched') != ai_files,
               'K4-pre-commit-not-skipped-while-AI-state-exists': bool(skipped) and (bool(ai_files) or inp['initial'])}
        return {'reproduced': bool(bad.get(ob)), 'native': r}
    if ob.startswith('K2'):
        r = native('c14_prune_select', inp)
        if 'panic' in r:
            return {'reproduced': v['kind'] == 'panic', 'native': r}
        if v['kind'] == 'panic':
            return {'reproduced': False, 'native': r}
        desc = inp['checkpoints']
        newest = {}
        for i, d in enumerate(desc):
            for e in d['entries']:
                newest[e['file']] = i
        want = {f: ['b%d_%s' % (i, f), 1] for f, i in newest.items()}
        okp = True
        for i, c in enumerate(r['kept']):
            for f, n in c:
                if (newest[f] == i) != (n == 1):
                    okp = False
        wt = sorted({e['file'] for d in desc for e in d['entries'] if d['kind'] != 'Human' or e['ai_lines']})
        bad = {'K2-previous-state-is-newest-entry-with-its-char-ranges': {k: list(x) for k, x in r['selected'].items()} != want,
               'K2-prune-keeps-exactly-newest': not okp, 'K2-ai-touched-ignores-human-only': r['touched'] != wt}
        return {'reproduced': bool(bad.get(ob)), 'native': r}
    sh = inp['shape']
    if 'content' in inp:
        payload = {'old': inp['content'], 'new': inp['content'], 'kind': sh['kind'], 'pre_commit': sh['pre_commit'], 'initial': sh['initial'], 'touched': sh['touched'], 'prev_end': 1}
    else:
        payload = {'old': inp['old'], 'new': inp['new'], 'kind': sh['kind'], 'pre_commit': False, 'initial': sh['initial'], 'touched': True, 'prev_end': 1}
    r = native('c14_entry', payload)
    if 'panic' in r:
        return {'reproduced': v['kind'] == 'panic', 'native': r}
    if v['kind'] == 'panic':
        return {'reproduced': False, 'native': r}
    ent = r.get('entry')
    bad = {
        'K1-unchanged-content-adds-no-entry': not r.get('ok') or ent is not None,
        'K1-changed-content-is-recorded': not r.get('ok') or ent is None,
        'K1-entry-names-the-file': ent is not None and ent['file'] != 'f.txt',
        'K1-entry-carries-new-snapshot': ent is not None and ent['blob_sha'] != 'newhash',
        'K1-new-text-credited-to-reporting-session': ent is not None and 's9' not in ent['authors'],
    }
    return {'reproduced': bool(bad.get(ob)), 'native': r}
