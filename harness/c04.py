"""C04 — uncommitted AI work is carried to the commit that finally contains it, once.
(also decides C03-K1 "only session-reported lines the commit added reach a note" and the
note half of C05-K1: sorted, disjoint, non-adjacent ranges, Single iff start == end, no human entry)

Encoded from MIR: VirtualAttributions::to_authorship_log_and_initial_working_log (whole), LineRange::
{compress_lines, expand, contains}, AuthorshipLog::get_or_create_file.  The two git diffs
(collect_committed_hunks / collect_unstaged_hunks) are environment models that *derive* their answers
from a symbolic ground truth of the working tree, exactly as `git diff -U0` groups lines into hunks.
"""
import itertools
import z3
from harness.lib import *

ID = 'C04'
VA = 'authorship::virtual_attribution'
VAS = VA + '::VirtualAttributions'
LR = 'authorship::authorship_log::LineRange'
LATTR = 'authorship::attribution_tracker::LineAttribution'
SER = 'authorship::authorship_log_serialization'
INIT = 'git::repo_storage::InitialAttributions'
CFG = {'max_steps': 2000000}

BOUNDS = {
    'quick': 'one file whose working tree is K + n lines: a prefix of K pre-existing lines with K symbolic in [0, 500] followed by n <= 3 lines (n <= 2 when a deletion is present), each line pre-existing (P), added by this commit (C) or an unstaged insertion (U); optionally one committed line deleted from the working tree at a chosen gap (D); per line an author in {none, human, s1, s2}; line attributions = run-length encoding of the authors (maximal runs or one per line, ascending or descending order); plus a second untouched file; HashMap iteration order arbitrary',
    'thorough': 'n <= 4 lines (n <= 3 with a deletion)',
}
OUTSIDE = 'unstaged *modifications* of committed lines (replace hunks whose ground truth is a judgement call), untracked-file fallback (file system), the prompt-record bookkeeping, sequences of more than one commit (the single step is decided for an arbitrary pending state; "once" follows because INITIAL of step k is the pending input of step k+1)'
ASSUMPTIONS = [
    'collect_committed_hunks / collect_unstaged_hunks are environment models computing what `git diff -U0 parent commit` and `git diff -U0 commit <worktree>` print for the ground truth (hunks = maximal runs; a hunk is a pure insertion iff it deletes nothing)',
    'line contents are pairwise distinct so that git\'s diff is unambiguous (the native replay builds such a repository)',
    'K + n stays far below u32::MAX',
]

AUTHORS = [None, 'human', 's1', 's2']


def plan(tier, seed):
    tasks = []
    nmax = 3 if tier == 'quick' else 4
    for n in range(1, nmax + 1):
        for st in itertools.product('PCU', repeat=n):
            tasks.append(('split', {'status': ''.join(st), 'del': None}))
    # one unstaged deletion of a committed line (added by the commit or pre-existing) at gap g
    for n in range(1, (2 if tier == 'quick' else 3) + 1):
        for st in itertools.product('PCU', repeat=n):
            for g in range(0, n + 1):
                for dk in ('C', 'P'):
                    tasks.append(('split', {'status': ''.join(st), 'del': [g, dk]}))
    # batches
    out = []
    B = 6
    for i in range(0, len(tasks), B):
        out.append(('split_batch', {'shapes': [t[1] for t in tasks[i:i + B]]}))
    for init in ([], ['p.txt'], ['p.txt', 'q.txt']):
        for cks in ([], [['AiAgent', 'c.txt', True]], [['Human', 'c.txt', False]], [['AiAgent', 'c.txt', True], ['Human', 'p.txt', False]], [['AiTab', 'q.txt', True]]):
            for cf in ([], ['c.txt'], ['c.txt', 'p.txt']):
                out.append(('post_commit_scope', {'initial': init, 'checkpoints': cks, 'commit_files': cf}))
    # commit --amend: (kind, file, author of the entry's line attribution or None)
    for cks in ([], [['AiAgent', 'c.txt', 's1']], [['Human', 'p.txt', 's1']], [['Human', 'p.txt', 'human']], [['Human', 'p.txt', None]],
                [['AiAgent', 'c.txt', 's1'], ['Human', 'p.txt', 's1']], [['Human', 'p.txt', 's1'], ['AiTab', 'q.txt', 's2']], [['Human', 'c.txt', 's1'], ['Human', 'p.txt', 's2']]):
        for cf in ([], ['c.txt'], ['c.txt', 'z.txt']):
            out.append(('amend_scope', {'checkpoints': cks, 'commit_files': cf}))
    return out


class AmendLoaded(Exception):
    pass


def install(M):
    from harness import c08
    c08.install(M)
    def committed(P, c, args, dt):
        P.events.append(('collect_committed_hunks',))
        return ok(clone_val(P, P.state['committed_hunks']))

    def unstaged(P, c, args, dt):
        P.events.append(('collect_unstaged_hunks',))
        return ok(tup(clone_val(P, P.state['unstaged_hunks']), clone_val(P, P.state['pure_hunks'])))
    M.env[VA + '::collect_committed_hunks'] = committed
    M.env[VA + '::collect_unstaged_hunks'] = unstaged

    # the amend path hands its file list to an async loader: the list is what the obligation looks at
    def block_on(P, c, args, dt):
        if not P.state.get('c04_amend'):
            raise Unsupported('smol::block_on outside the amend-scope obligation')
        found = []

        def walk(v, depth=0):
            if depth > 4 or v is None:
                return
            if isinstance(v, VecV):
                try:
                    found.append([bytes(concrete_bytes(as_bytes(e))).decode() for e in v.e])
                except Exception:
                    pass
                return
            if isinstance(v, Ref):
                try:
                    walk(tgt(v), depth + 1)
                except Exception:
                    pass
                return
            for f in getattr(v, 'f', None) or []:
                walk(f, depth + 1)
        walk(args[0])
        P.events.append(('amend_pathspecs', found))
        raise AmendLoaded()
    M.env['smol::block_on'] = block_on

    def no_note(P, c, args, dt):
        return err(Opaque('GitAiError', 'No authorship note found'))
    if 'git::refs::get_reference_as_authorship_log_v3' not in M.env:
        M.env['git::refs::get_reference_as_authorship_log_v3'] = no_note


def compress(M, nums):
    """list of Sc line numbers that are consecutive runs by construction -> Vec<LineRange>; runs given as lists"""
    out = []
    for run in nums:
        if len(run) == 1:
            out.append(mk_enum(M, LR, 'Single', run[0]))
        else:
            out.append(mk_enum(M, LR, 'Range', run[0], run[-1]))
    return VecV(out)


def run_split(h, shape):
    P = h.P
    M = P.M
    status = shape['status']
    n = len(status)
    K = h.u32('K', 0, 500)
    dele = shape['del']
    # ---- ground truth -------------------------------------------------------------------------
    # working tree lines: K prefix lines (pre-existing) then n lines with the given status
    # commit lines: prefix, then for each position: deleted line at gap g (if any) and every non-U line
    wt_no = [binop('Add', K, Sc(i + 1, 32)) for i in range(n)]       # working-tree numbers of the n lines
    commit_no = {}
    c = 0
    commit_added = []          # commit numbers of lines added by the commit
    del_commit_no = None
    for i in range(n + 1):
        if dele is not None and dele[0] == i:
            c += 1
            del_commit_no = binop('Add', K, Sc(c, 32))
            if dele[1] == 'C':
                commit_added.append((c, del_commit_no))
        if i < n and status[i] != 'U':
            c += 1
            commit_no[i] = binop('Add', K, Sc(c, 32))
            if status[i] == 'C':
                commit_added.append((c, commit_no[i]))
    # committed hunks: maximal runs of consecutive commit numbers
    runs = []
    for (ci, num) in commit_added:
        if runs and runs[-1][-1][0] == ci - 1:
            runs[-1].append((ci, num))
        else:
            runs.append([(ci, num)])
    committed_hunks = MapV('hash', [], 'map')
    if runs:
        committed_hunks.ent.append([pystring('f.txt'), compress(M, [[x[1] for x in r] for r in runs])])
    # unstaged hunks (working-tree coordinates): maximal runs of U lines; the hunk containing the deletion
    # gap is not a pure insertion
    uruns = []
    for i in range(n):
        if status[i] == 'U':
            if uruns and uruns[-1][-1] == i - 1:
                uruns[-1].append(i)
            else:
                uruns.append([i])
    unstaged = MapV('hash', [], 'map')
    pure = MapV('hash', [], 'map')
    if uruns:
        unstaged.ent.append([pystring('f.txt'), compress(M, [[wt_no[i] for i in r] for r in uruns])])
        pruns = [r for r in uruns if not (dele is not None and dele[0] == r[0])]
        if pruns:
            pure.ent.append([pystring('f.txt'), compress(M, [[wt_no[i] for i in r] for r in pruns])])
    P.state['committed_hunks'] = committed_hunks
    P.state['unstaged_hunks'] = unstaged
    P.state['pure_hunks'] = pure
    # ---- pending attribution ---------------------------------------------------------------------
    authors = [AUTHORS[h.choice(4)] for _ in range(n)]
    merged = h.choice(2) == 0
    lattrs = []
    i = 0
    while i < n:
        if authors[i] is None:
            i += 1
            continue
        j = i
        if merged:
            while j + 1 < n and authors[j + 1] == authors[i]:
                j += 1
        lattrs.append(mk_struct(M, LATTR, start_line=wt_no[i], end_line=wt_no[j], author_id=pystring(authors[i]), overrode=none()))
        i = j + 1
    # the pending set is a HashMap value built by several producers: its order is not necessarily ascending
    reversed_order = len(lattrs) > 1 and h.choice(2) == 1
    if reversed_order:
        lattrs = lattrs[::-1]
    # a second file with pending AI lines that this commit does not touch at all
    other = [mk_struct(M, LATTR, start_line=Sc(1, 32), end_line=Sc(2, 32), author_id=pystring('s1'), overrode=none())]
    attributions = MapV('hash', [[pystring('f.txt'), tup(VecV([]), VecV(lattrs))], [pystring('other.txt'), tup(VecV([]), VecV(other))]], 'map')
    # every session that appears in the pending state has its prompt record (that is how the state is built)
    PR = 'authorship::authorship_log::PromptRecord'
    AGENT = 'authorship::working_log::AgentId'
    sess = sorted({a for a in authors if a not in (None, 'human')} | {'s1'})
    prompts = []
    for sname in sess:
        agent = mk_struct(M, AGENT, tool=pystring('t'), id=pystring('id-' + sname), model=pystring('m'))
        rec = mk_struct(M, PR, agent_id=agent, human_author=none(), messages=VecV([]), total_additions=Sc(0, 32), total_deletions=Sc(0, 32),
                        accepted_lines=Sc(0, 32), overriden_lines=Sc(0, 32), messages_url=none())
        prompts.append([pystring(sname), MapV('btree', [[pystring(''), rec]], 'map')])
    va = mk_struct(M, VAS, repo=Opaque('Repository', None), base_commit=pystring('c0mmit'), attributions=attributions,
                   file_contents=MapV('hash', [], 'map'), prompts=MapV('btree', prompts, 'map'), ts=Sc(1, 128), blame_start_commit=none())
    h.inputs_struct = {'K': K, 'status': status, 'deleted': dele, 'authors': authors, 'merged_runs': merged, 'reversed': reversed_order}
    repo = Opaque('Repository', None)
    try:
        r = P.call_named(VAS + '::to_authorship_log_and_initial_working_log',
                         [Ref(Cell(va)), Ref(Cell(repo)), pystr('parent'), pystr('commit'), none()])
    except Panic as e:
        h.panic('no-panic', e.msg)
        return
    if r.var != 'Ok':
        h.require(False, 'ok', 'returned Err')
        return
    log, initial = r.f[0].f
    known = [('unstaged-deletion-shifts-line-numbers', z3.BoolVal(dele is not None))]
    # ---- expected --------------------------------------------------------------------------------
    exp_note = {}      # author -> list of commit numbers (Sc)
    exp_init = {}
    for i in range(n):
        a = authors[i]
        if a in (None, 'human'):
            continue
        if status[i] == 'C':
            exp_note.setdefault(a, []).append(commit_no[i])
        elif status[i] == 'U':
            exp_init.setdefault(a, []).append(wt_no[i])
    # ---- note ---------------------------------------------------------------------------------------
    files = field(M, log, SER + '::AuthorshipLog', 'attestations').e
    got_note = {}
    wf = True
    for fa in files:
        name = concrete_bytes(as_bytes(field(M, fa, SER + '::FileAttestation', 'file_path'))).decode()
        if name != 'f.txt':
            h.require(False, 'note-only-committed-files', 'the note names %s, which this commit did not touch' % name, known)
            continue
        for en in field(M, fa, SER + '::FileAttestation', 'entries').e:
            who = concrete_bytes(as_bytes(field(M, en, SER + '::AttestationEntry', 'hash'))).decode()
            if who == 'human' or who in got_note:
                wf = False
            nums = []
            prev_end = None
            for r_ in field(M, en, SER + '::AttestationEntry', 'line_ranges').e:
                a = r_.f[0]
                b = r_.f[1] if r_.var == 'Range' else r_.f[0]
                if r_.var == 'Range':
                    # Single iff start == end ; ranges are proper
                    if not P.branch(binop('Lt', a, b)):
                        wf = False
                if prev_end is not None:
                    # sorted, disjoint and non-adjacent
                    if not P.branch(binop('Gt', a, binop('Add', prev_end, Sc(1, 32)))):
                        wf = False
                prev_end = b
                nums.append((a, b))
            got_note[who] = nums
    h.require(wf, 'C05-note-ranges-wellformed', 'note entries: human entry, duplicate session, or ranges not sorted / disjoint / non-adjacent / Single-vs-Range', known)

    def lines_equal(got_ranges, want_nums):
        """ranges [(a,b)] list all of want_nums exactly (want_nums ascending, consecutive runs)"""
        conds = []
        # expand expected into runs
        runs_ = []
        for x in want_nums:
            if runs_ and P.branch(binop('Eq', x, binop('Add', runs_[-1][-1], Sc(1, 32)))):
                runs_[-1].append(x)
            else:
                runs_.append([x])
        if len(runs_) != len(got_ranges):
            return False
        for (a, b), run in zip(got_ranges, runs_):
            conds.append(binop('Eq', a, run[0]))
            conds.append(binop('Eq', b, run[-1]))
        return all_of(conds)
    okn = set(got_note) == set(exp_note) and all_of([lines_equal(got_note[k], exp_note[k]) for k in exp_note])
    h.require(okn, 'C04-note-lists-exactly-committed-ai-lines',
              'note does not list exactly the commit-coordinate numbers of the lines this commit added that the sessions wrote', known)
    # ---- INITIAL --------------------------------------------------------------------------------------
    got_init = {}
    init_files = field(M, initial, INIT, 'files')
    for ent in init_files.ent:
        name = concrete_bytes(as_bytes(ent[0])).decode()
        if name != 'f.txt':
            h.require(False, 'initial-only-unstaged-files', 'INITIAL names %s although nothing of it is unstaged' % name, known)
            continue
        for la in ent[1].e:
            who = concrete_bytes(as_bytes(field(M, la, LATTR, 'author_id'))).decode()
            got_init.setdefault(who, []).append((field(M, la, LATTR, 'start_line'), field(M, la, LATTR, 'end_line')))
    oki = set(got_init) == set(exp_init) and all_of([lines_equal(got_init[k], exp_init[k]) for k in exp_init])
    h.require(oki, 'C04-initial-keeps-exactly-unstaged-ai-lines',
              'INITIAL does not keep exactly the working-tree numbers of the unstaged AI lines', known)
    h.require('human' not in got_init, 'C03-no-human-in-initial', 'INITIAL lists a human author')
    # self-contained: every session named by the pending state / by the note has its prompt record next to it
    ip = {concrete_bytes(as_bytes(k)).decode() for k, _ in field(M, initial, INIT, 'prompts').ent}
    h.require(set(got_init) <= ip, 'C05-initial-carries-the-prompt-of-every-pending-session',
              'INITIAL keeps lines of session(s) %r without their prompt record' % sorted(set(got_init) - ip), known)
    meta = field(M, log, SER + '::AuthorshipLog', 'metadata')
    np_ = {concrete_bytes(as_bytes(k)).decode() for k, _ in field(M, meta, SER + '::AuthorshipMetadata', 'prompts').ent}
    h.require(set(got_note) <= np_, 'C05-note-carries-the-prompt-of-every-attested-session',
              'the note attests lines of session(s) %r without their prompt record' % sorted(set(got_note) - np_), known)
    h.sample = h.witness()


def ob_split_batch(h, shape):
    k = h.choice(len(shape['shapes']))
    h.shape = shape['shapes'][k]
    run_split(h, shape['shapes'][k])


def ob_post_commit_scope(h, shape):
    """which files the post-commit step looks at: every file INITIAL names and every file an AI checkpoint entry
    names must be among the pathspecs handed to the split (a file left out silently loses its pending attribution)"""
    from harness import c03, c08
    P = h.P
    M = P.M
    CKPT, WLE, KIND, STATS = c03.CKPT, c03.WLE, c03.KIND, c03.STATS
    wl = c03.mk_wl(M)
    P.state['wl'] = wl
    P.state['fs'] = {'/wl': 'DIR'}
    P.state['commit_files'] = shape['commit_files']
    init_files = shape['initial']
    if init_files:
        files = MapV('hash', [[pystring(f), VecV([mk_struct(M, LATTR, start_line=Sc(1, 32), end_line=Sc(2, 32), author_id=pystring('s1'), overrode=none())])] for f in init_files], 'map')
        r = P.call_named(c03.PWL + '::write_initial_attributions', [Ref(Cell(wl)), files, MapV('hash', [], 'map')])
        if r.var != 'Ok':
            raise Unsupported('seeding INITIAL failed')
    stats = Agg(STATS, [Sc(0, 32) for _ in M.src.struct_fields(STATS)])
    cks = []
    ai_entry_files = []
    for i, (kind, f, has_attr) in enumerate(shape['checkpoints']):
        la = [mk_struct(M, LATTR, start_line=Sc(1, 32), end_line=Sc(1, 32), author_id=pystring('s1' if kind != 'Human' else 'human'), overrode=none())] if has_attr else []
        entry = mk_struct(M, WLE, file=pystring(f), blob_sha=pystring('b%d' % i), attributions=VecV([]), line_attributions=VecV(la))
        cks.append(mk_struct(M, CKPT, kind=mk_enum(M, KIND, kind), diff=pystring('d'), author=pystring('x'), entries=VecV([entry]),
                             timestamp=Sc(i, 64), transcript=none(), agent_id=none(), agent_metadata=none(), line_stats=stats,
                             api_version=pystring('checkpoint/1.0.0'), git_ai_version=none()))
        if kind != 'Human':
            ai_entry_files.append(f)
    v = VecV(cks)
    r = P.call_named(c03.PWL + '::write_all_checkpoints', [Ref(Cell(wl)), SliceRef(v, 0, len(cks))])
    if r.var != 'Ok':
        raise Unsupported('seeding checkpoints failed')
    P.state['va'] = Agg(VAS, [])
    P.state['log'] = mk_struct(M, SER + '::AuthorshipLog', attestations=VecV([]),
                               metadata=mk_struct(M, SER + '::AuthorshipMetadata', schema_version=pystring('authorship/3.0.0'), git_ai_version=none(),
                                                  base_commit_sha=pystring('x'), prompts=MapV('btree', [], 'map')))
    P.state['mode'] = 'Local'
    P.state['logged_in'] = False
    P.state['custom_api'] = False
    P.state['cas_ok'] = True
    P.state['default_url'] = 'https://usegitai.com'
    h.inputs_struct = {'initial': init_files, 'checkpoints': shape['checkpoints'], 'commit_files': shape['commit_files']}
    repo = Agg('git::repository::Repository', [])
    try:
        P.call_named('authorship::post_commit::post_commit', [Ref(Cell(repo)), some(pystring('parent')), pystring('c0mmit'), pystring('Human'), TRUE])
    except c08.NoteWritten:
        pass
    except Panic as e:
        h.panic('C04-post-commit-no-panic', e.msg)
        return
    ps = [e[1] for e in P.events if e[0] == 'split_pathspecs']
    h.require(len(ps) == 1, 'C04-post-commit-reaches-the-split', 'post_commit did not reach the split of pending state')
    if len(ps) != 1:
        return
    got = ps[0]
    if got is None:
        h.require(True, 'C04-every-pending-file-is-re-examined')      # no restriction at all
    else:
        missing = sorted((set(init_files) | set(ai_entry_files)) - set(got))
        h.require(not missing, 'C04-every-pending-file-is-re-examined',
                  'files %r carry pending AI attribution (INITIAL / AI checkpoint entry) but are not among the paths the post-commit step examines %r' % (missing, got))
    h.sample = h.witness()


def ob_amend_scope(h, shape):
    """which files `commit --amend` re-examines: every file for which the working log of the amended commit names an
    AI line (in an entry of ANY checkpoint kind - the pre-commit checkpoint that carries INITIAL forward is a Human one)
    and every file the amended commit touches must be loaded; the old working log is deleted afterwards, so a file
    left out silently loses its pending attribution"""
    from harness import c03
    P = h.P
    M = P.M
    CKPT, WLE, KIND, STATS = c03.CKPT, c03.WLE, c03.KIND, c03.STATS
    wl = c03.mk_wl(M)
    P.state['wl'] = wl
    P.state['fs'] = {'/wl': 'DIR'}
    P.state['commit_files'] = shape['commit_files']
    P.state['c04_amend'] = True
    stats = Agg(STATS, [Sc(0, 32) for _ in M.src.struct_fields(STATS)])
    cks = []
    pending = []
    for i, (kind, f, who) in enumerate(shape['checkpoints']):
        la = [mk_struct(M, LATTR, start_line=Sc(1, 32), end_line=Sc(1, 32), author_id=pystring(who), overrode=none())] if who else []
        entry = mk_struct(M, WLE, file=pystring(f), blob_sha=pystring('b%d' % i), attributions=VecV([]), line_attributions=VecV(la))
        cks.append(mk_struct(M, CKPT, kind=mk_enum(M, KIND, kind), diff=pystring('d'), author=pystring('x'), entries=VecV([entry]),
                             timestamp=Sc(i, 64), transcript=none(), agent_id=none(), agent_metadata=none(), line_stats=stats,
                             api_version=pystring('checkpoint/1.0.0'), git_ai_version=none()))
        if who and who != 'human':
            pending.append(f)
    v = VecV(cks)
    r = P.call_named(c03.PWL + '::write_all_checkpoints', [Ref(Cell(wl)), SliceRef(v, 0, len(cks))])
    if r.var != 'Ok':
        raise Unsupported('seeding checkpoints failed')
    h.inputs_struct = {'checkpoints': shape['checkpoints'], 'commit_files': shape['commit_files']}
    repo = Agg('git::repository::Repository', [])
    try:
        P.call_named('authorship::rebase_authorship::rewrite_authorship_after_commit_amend', [Ref(Cell(repo)), pystr('orig'), pystr('amended'), pystring('Human')])
    except AmendLoaded:
        pass
    except Panic as e:
        h.panic('C04-amend-no-panic', e.msg)
        return
    ps = [e[1] for e in P.events if e[0] == 'amend_pathspecs']
    h.require(len(ps) == 1 and len(ps[0]) >= 1, 'C04-amend-reaches-the-loader', 'the amend step did not hand a file list to the loader')
    if len(ps) != 1 or not ps[0]:
        return
    got = set()
    for lst in ps[0]:
        got |= set(lst)
    missing = sorted((set(pending) | set(shape['commit_files'])) - got)
    h.require(not missing, 'C04-amend-every-pending-file-is-re-examined',
              'files %r carry pending AI attribution in the working log (or are part of the amended commit) but are not among the files the amend step loads %r' % (missing, sorted(got)))
    h.sample = h.witness()


OBLIGATIONS = {'split_batch': ob_split_batch, 'split': run_split, 'post_commit_scope': ob_post_commit_scope, 'amend_scope': ob_amend_scope}


# ---------------------------------------------------------------------------
# native replay on a real repository

def replay(v, native):
    if v['obligation'].startswith('C04-amend-'):
        r = native('c04_amend_scope', v['inputs'])
        if 'panic' in r:
            return {'reproduced': v['kind'] == 'panic', 'native': r}
        if v['kind'] == 'panic':
            return {'reproduced': False, 'native': r}
        bad = {'C04-amend-every-pending-file-is-re-examined': bool(r.get('lost')), 'C04-amend-reaches-the-loader': not r.get('ok')}
        return {'reproduced': bool(bad.get(v['obligation'])), 'native': r}
    if 'commit_files' in v['inputs']:
        r = native('c04_post_commit_scope', v['inputs'])
        if 'panic' in r:
            return {'reproduced': v['kind'] == 'panic', 'native': r}
        if v['kind'] == 'panic':
            return {'reproduced': False, 'native': r}
        return {'reproduced': bool(r.get('lost')) if v['obligation'] == 'C04-every-pending-file-is-re-examined' else False, 'native': r}
    import os
    import subprocess
    import tempfile
    inp = v['inputs']
    K = inp['K']
    status = inp['status']
    dele = inp['deleted']
    authors = inp['authors']
    n = len(status)
    tmp = tempfile.mkdtemp(prefix='vc04')
    env = dict(os.environ, GIT_AUTHOR_NAME='v', GIT_AUTHOR_EMAIL='v@v', GIT_COMMITTER_NAME='v', GIT_COMMITTER_EMAIL='v@v',
               HOME=tmp, GIT_CONFIG_NOSYSTEM='1')

    def git(*a):
        p = subprocess.run(['git'] + list(a), cwd=tmp, env=env, stdout=subprocess.PIPE, stderr=subprocess.PIPE)
        if p.returncode != 0:
            raise RuntimeError('git %r: %s' % (a, p.stderr.decode()))
        return p.stdout.decode()
    try:
        git('init', '-q', '.')
        prefix = ['pre %d' % i for i in range(K)]
        parent, commit, wt = list(prefix), list(prefix), list(prefix)
        commit_no = {}
        for i in range(n + 1):
            if dele is not None and dele[0] == i:
                if dele[1] == 'P':
                    parent.append('deleted-line')
                commit.append('deleted-line')
            if i < n:
                txt = 'line %d %s' % (i, status[i])
                if status[i] == 'P':
                    parent.append(txt)
                if status[i] != 'U':
                    commit.append(txt)
                    commit_no[i] = len(commit)
                wt.append(txt)
        w = lambda name, ls: open(os.path.join(tmp, name), 'w').write(''.join(x + '\n' for x in ls))
        w('f.txt', parent)
        w('other.txt', ['o1', 'o2'])
        git('add', '-A')
        git('commit', '-q', '-m', 'parent', '--allow-empty')
        psha = git('rev-parse', 'HEAD').strip()
        w('f.txt', commit)
        git('add', '-A')
        git('commit', '-q', '-m', 'commit', '--allow-empty')
        csha = git('rev-parse', 'HEAD').strip()
        w('f.txt', wt)
        lattrs = []
        i = 0
        while i < n:
            if authors[i] is None:
                i += 1
                continue
            j = i
            if inp['merged_runs']:
                while j + 1 < n and authors[j + 1] == authors[i]:
                    j += 1
            lattrs.append([K + i + 1, K + j + 1, authors[i]])
            i = j + 1
        if inp.get('reversed'):
            lattrs = lattrs[::-1]
        r = native('c04_split', {'repo': tmp, 'parent': psha, 'commit': csha,
                                 'files': {'f.txt': lattrs, 'other.txt': [[1, 2, 's1']]}})
        if 'panic' in r:
            return {'reproduced': v['kind'] == 'panic', 'native': r}
        if v['kind'] == 'panic':
            return {'reproduced': False, 'native': r}
        exp_note, exp_init = {}, {}
        for i in range(n):
            a = authors[i]
            if a in (None, 'human'):
                continue
            if status[i] == 'C':
                exp_note.setdefault(a, []).append(commit_no[i])
            elif status[i] == 'U':
                exp_init.setdefault(a, []).append(K + i + 1)
        note = r.get('note', {})
        init = r.get('initial', {})
        gn = {k: sorted(x) for k, x in note.get('f.txt', {}).items()}
        gi = {k: sorted(x) for k, x in init.get('f.txt', {}).items()}
        bad = {
            'C04-note-lists-exactly-committed-ai-lines': gn != exp_note,
            'C04-initial-keeps-exactly-unstaged-ai-lines': gi != exp_init,
            'note-only-committed-files': any(k != 'f.txt' for k in note),
            'initial-only-unstaged-files': any(k != 'f.txt' for k in init),
            'C03-no-human-in-initial': 'human' in gi,
            'C05-note-ranges-wellformed': not r.get('note_wellformed', True),
            'ok': not r.get('ok', True),
            'C05-initial-carries-the-prompt-of-every-pending-session': not set(gi) <= set(r.get('initial_prompts', [])),
            'C05-note-carries-the-prompt-of-every-attested-session': not set(gn) <= set(r.get('note_prompts', [])),
        }
        return {'reproduced': bool(bad.get(v['obligation'])), 'native': r, 'expected_note': exp_note, 'expected_initial': exp_init}
    finally:
        subprocess.call(['rm', '-rf', tmp])
