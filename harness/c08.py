"""C08 — transcripts and secrets never enter the shared notes unless the user opted in (narrow).

K1  storage-mode dispatch.  Encoded from MIR: authorship::post_commit::post_commit up to the note write
    (incl. strip_prompt_messages, checkpoint_entry_requires_post_processing), with the working-log
    producers, the config lookup, the login state, secret redaction, the CAS enqueue and notes_add as
    environment models.  The value handed to notes_add is inspected.
K2  which storage mode applies.  Encoded from MIR: config::Config::{effective_prompt_storage, should_exclude_prompts}
    and PromptStorageMode::from_str with `glob::Pattern::matches` as an arbitrary but consistent predicate on
    (pattern, remote URL) and `Repository::remotes_with_urls` as environment.  Obligation: the mode is the one
    the documented policy gives — exclusion always wins (Local), without an include list the configured mode,
    with one the configured mode for matching repositories and the fallback (default Local) otherwise; in
    particular Notes (transcripts in shared notes) only when the user's configuration says so for this repository.
The redaction half ("every high-entropy token is masked") is NOT APPLICABLE to this family: secrets.rs
decides by ln/exp/sqrt over f64 on 15-90 byte tokens.
"""
import itertools
import re
import z3
from harness.lib import *
from harness import c03

ID = 'C08'
PC = 'authorship::post_commit'
SER = 'authorship::authorship_log_serialization'
LOG = SER + '::AuthorshipLog'
META = SER + '::AuthorshipMetadata'
PR = 'authorship::authorship_log::PromptRecord'
AGENT = 'authorship::working_log::AgentId'
MODE = 'config::PromptStorageMode'
VAS = 'authorship::virtual_attribution::VirtualAttributions'
INIT = 'git::repo_storage::InitialAttributions'
MSG = 'authorship::transcript::Message'
CFG = {'max_steps': 2000000, 'max_depth': 90}

BOUNDS = {
    'quick': 'note with 1-2 prompt records each holding 1-2 messages with 3 symbolic bytes of conversation text; storage mode in {Default, Notes, Local}; logged in or not; custom API URL or not; CAS enqueue succeeding (clearing the messages, per its contract) or failing',
    'thorough': 'same',
}
OUTSIDE = 'the other note writers (amend, rebase slow/fast path, cherry-pick, squash, CI rewrite): they re-use notes that this path already filtered, except rewrite_authorship_after_commit_amend which is not encoded; Config::effective_prompt_storage itself (include/exclude pattern matching over remotes) is an environment answer; entropy-based redaction (floating point) — not applicable to this family'
ASSUMPTIONS = [
    'environment: working log producers return a note whose prompts carry conversation text; Config::effective_prompt_storage returns the mode under test; ApiClient::is_logged_in / api_base_url symbolic; redact_secrets_from_prompts is recorded (its effect on the text is not modelled); enqueue_prompt_messages_to_cas either clears every messages vector (its success contract) or fails leaving them',
]


class NoteWritten(Exception):
    def __init__(self, text):
        Exception.__init__(self, 'note written')
        self.text = text


def install(M):
    from harness import c14
    c03.install(M)

    def ok_unit(P, c, args, dt):
        return ok(unit())

    def from_just_working_log(P, c, args, dt):
        return ok(P.state['va'])

    def split(P, c, args, dt):
        ps = args[4] if len(args) > 4 else None
        if ps is not None and getattr(ps, 'var', None) == 'Some':
            P.events.append(('split_pathspecs', sorted(bytes(concrete_bytes(as_bytes(k))).decode() for k, _ in tgt(ps.f[0]).ent)))
        else:
            P.events.append(('split_pathspecs', None))
        return ok(tup(clone_val(P, P.state['log']), mk_struct(P.M, INIT, files=MapV('hash', [], 'map'), prompts=MapV('hash', [], 'map'))))

    def cfg_get(P, c, args, dt):
        return Ref(Cell(Agg('config::Config', [])))

    def eff(P, c, args, dt):
        return mk_enum(P.M, MODE, P.state['mode'])

    def api_base_url(P, c, args, dt):
        return pystr('https://custom.example' if P.state['custom_api'] else P.state['default_url'])

    def api_ctx(P, c, args, dt):
        return Opaque('ApiContext', None)

    def logged_in(P, c, args, dt):
        return Sc(P.state['logged_in'], 0)

    def redact(P, c, args, dt):
        m = tgt(args[0])
        P.events.append(('redact', sum(len(field(P.M, r, PR, 'messages').e) for k, r in m.ent)))
        return usize(0)

    def enqueue(P, c, args, dt):
        P.events.append(('cas_enqueue',))
        m = tgt(args[1])
        if P.state['cas_ok']:
            for k, r in m.ent:
                field(P.M, r, PR, 'messages').e[:] = []
            return ok(unit())
        return err(Opaque('GitAiError', 'cas'))

    def notes_add(P, c, args, dt):
        P.events.append(('notes_add', list(as_bytes(args[2]))))
        raise NoteWritten(list(as_bytes(args[2])))
    M.env[PC + '::update_prompts_to_latest'] = ok_unit
    M.env[PC + '::batch_upsert_prompts_to_db'] = ok_unit
    M.env[VAS + '::from_just_working_log'] = from_just_working_log
    M.env[VAS + '::to_authorship_log_and_initial_working_log'] = split
    M.env['config::Config::get'] = cfg_get
    M.env['config::Config::effective_prompt_storage'] = eff
    M.env['config::Config::api_base_url'] = api_base_url
    M.env['api::client::ApiContext::new'] = api_ctx
    M.env['api::client::ApiClient::new'] = api_ctx
    M.env['api::client::ApiClient::is_logged_in'] = logged_in
    M.env['authorship::secrets::redact_secrets_from_prompts'] = redact
    # the upload queue: the real enqueue_prompt_messages_to_cas runs; the database is the environment
    def db_global(P, c, args, dt):
        if P.state.get('db_unavailable'):
            return err(Opaque('GitAiError', 'db'))
        return ok(Ref(Cell(BoxV(Opaque('InternalDatabase', None), 'Mutex'))))

    def enqueue_object(P, c, args, dt):
        k = P.state.setdefault('cas_calls', 0)
        P.state['cas_calls'] = k + 1
        P.events.append(('cas_enqueue',))
        plan = P.state.get('cas_plan')
        okk = P.state['cas_ok'] if plan is None else plan[k % len(plan)]
        if okk:
            return ok(pystring('hash%d' % k))
        return err(Opaque('GitAiError', 'cas'))

    def default_remote(P, c, args, dt):
        pol = P.state.get('c08_policy')
        if pol and pol.get('remotes'):
            return ok(some(pystring('r0')))      # origin, or else the first remote
        return ok(none())

    def normalize_url(P, c, args, dt):
        return ok(pystring('https://h/r'))
    M.env['authorship::internal_db::InternalDatabase::global'] = db_global
    M.env['authorship::internal_db::InternalDatabase::enqueue_cas_object'] = enqueue_object
    M.env['git::repository::Repository::get_default_remote'] = default_remote
    M.env['repo_url::normalize_repo_url'] = normalize_url
    M.env['git::refs::notes_add'] = notes_add

    def list_commit_files(P, c, args, dt):
        touched = set(P.state.get('commit_files', []))
        flt = args[2]
        if getattr(flt, 'var', None) == 'Some':
            keep = {bytes(concrete_bytes(as_bytes(k))).decode() for k, _ in tgt(flt.f[0]).ent}
            touched &= keep
        return ok(MapV('hash', [[pystring(f), None] for f in sorted(touched)], 'set'))
    M.env['git::repository::Repository::list_commit_files'] = list_commit_files

    # K2: glob matching = arbitrary, per-path consistent predicate; remotes = harness answer
    def matches(P, c, args, dt):
        st = P.state['c08_policy']
        pat = tgt(args[0]).p
        url = bytes(concrete_bytes(as_bytes(args[1]))).decode()
        if pat == '*':
            return TRUE
        k = (pat, url)
        if k not in st['table']:
            st['table'][k] = P.choice(2) == 1
        return Sc(st['table'][k], 0)

    def pat_as_str(P, c, args, dt):
        return pystr(tgt(args[0]).p)

    def remotes(P, c, args, dt):
        rem = P.state['c08_policy']['remotes']
        if rem is None:
            return err(Opaque('GitAiError', 'remotes'))
        return ok(VecV([tup(pystring('r%d' % i), pystring(u)) for i, u in enumerate(rem)]))
    M.env['glob::Pattern::matches'] = matches
    M.env['glob::Pattern::as_str'] = pat_as_str
    M.env['git::repository::Repository::remotes_with_urls'] = remotes


def plan(tier, seed):
    tasks = []
    for mode in ('Default', 'Notes', 'Local'):
        for npr in (1, 2):
            for nm in (1, 2):
                for logged in (False, True):
                    for custom in (False, True):
                        for cas_ok in (True, False):
                            if mode != 'Default' and (logged or custom or not cas_ok):
                                continue
                            tasks.append(('dispatch', {'mode': mode, 'prompts': npr, 'messages': nm, 'logged_in': logged, 'custom_api': custom, 'cas_ok': cas_ok}))
    for plan_ in ([True, False], [False, True], [False, False]):
        for logged in (False, True):
            tasks.append(('dispatch', {'mode': 'Default', 'prompts': 2, 'messages': 1, 'logged_in': logged, 'custom_api': not logged, 'cas_ok': False, 'cas_plan': plan_}))
    for nex in (0, 1, 2):
        for nin in (0, 1, 2):
            for nrem in (-1, 0, 1, 2):
                tasks.append(('policy', {'exclude': nex, 'include': nin, 'remotes': nrem}))
    tasks.append(('policy', {'exclude': 1, 'include': 1, 'remotes': 1, 'ex_wild': True}))
    tasks.append(('policy', {'exclude': 0, 'include': 1, 'remotes': 0, 'in_wild': True}))
    tasks.append(('policy', {'exclude': 1, 'include': 1, 'remotes': -1, 'in_wild': True, 'no_repo': True}))
    tasks.append(('policy', {'exclude': 2, 'include': 2, 'remotes': 1, 'in_wild': True}))
    return tasks


def ob_dispatch(h, shape):
    P = h.P
    M = P.M
    texts = []
    prompts = []
    for i in range(shape['prompts']):
        msgs = []
        for j in range(shape['messages']):
            tb = [h.byte('m%d_%d_%d' % (i, j, k), lo=0x41, hi=0x5a) for k in range(3)] + list(b'-secret-conversation')
            texts.append(tb)
            var = ['User', 'Assistant'][j % 2]
            msgs.append(mk_enum(M, MSG, var, StringV(tb), none()))
        agent = mk_struct(M, AGENT, tool=pystring('cursor'), id=pystring('id%d' % i), model=pystring('m'))
        rec = mk_struct(M, PR, agent_id=agent, human_author=none(), messages=VecV(msgs), total_additions=Sc(1, 32),
                        total_deletions=Sc(0, 32), accepted_lines=Sc(0, 32), overriden_lines=Sc(0, 32), messages_url=none())
        prompts.append([pystring('%016x' % (i + 1)), rec])
    meta = mk_struct(M, META, schema_version=pystring('authorship/3.0.0'), git_ai_version=none(), base_commit_sha=pystring('x'),
                     prompts=MapV('btree', prompts, 'map'))
    log = mk_struct(M, LOG, attestations=VecV([]), metadata=meta)
    P.state['log'] = log
    P.state['va'] = Agg(VAS, [])
    P.state['mode'] = shape['mode']
    P.state['logged_in'] = shape['logged_in']
    P.state['custom_api'] = shape['custom_api']
    P.state['cas_ok'] = shape['cas_ok']
    P.state['cas_plan'] = shape.get('cas_plan')
    P.state['cas_calls'] = 0
    P.state['wl'] = c03.mk_wl(M)
    P.state['fs'] = {'/wl': 'DIR'}
    # DEFAULT_API_BASE_URL as the code sees it
    try:
        d = P.named_const('config::DEFAULT_API_BASE_URL')
        P.state['default_url'] = bytes(concrete_bytes(as_bytes(d))).decode()
    except Exception:
        P.state['default_url'] = 'https://usegitai.com'
    h.inputs_struct = dict(shape, texts=[ByteStr(t) for t in texts])
    repo = Agg('git::repository::Repository', [])
    written = None
    try:
        P.call_named(PC + '::post_commit', [Ref(Cell(repo)), some(pystring('parent')), pystring('c0mmit'), pystring('Human'), TRUE])
    except NoteWritten as e:
        written = e.text
    except Panic as e:
        h.panic('K1-no-panic', e.msg)
        return
    if written is None:
        h.require(False, 'K1-note-is-written', 'post_commit ended without writing the note')
        return
    # the note text handed to notes_add: inspect what the codec serialized
    js = P.state.get('json', [])
    val = js[-1]['val'] if js else None
    if val is None:
        h.require(False, 'K1-note-serialized', 'note not serialized through the codec')
        return
    left = sum(len(field(M, r, PR, 'messages').e) for k, r in field(M, val, META, 'prompts').ent)
    total = shape['prompts'] * shape['messages']
    if shape['mode'] == 'Notes':
        h.require(left == total, 'K1-notes-mode-keeps-messages', 'notes mode dropped conversation text')
        red = [e for e in P.events if e[0] == 'redact']
        h.require(len(red) >= 1 and red[0][1] == total, 'K1-redaction-before-note', 'notes mode wrote the note without redacting first')
    else:
        h.require(left == 0, 'K1-no-conversation-text-in-note',
                  '%d message(s) of conversation text reach the note in mode %s (logged_in=%s custom_api=%s cas_ok=%s)' % (left, shape['mode'], shape['logged_in'], shape['custom_api'], shape['cas_ok']))
        if shape['mode'] == 'Default' and (shape['logged_in'] or shape['custom_api']):
            ev = [e[0] for e in P.events if e[0] in ('redact', 'cas_enqueue')]
            h.require(ev[:2] == ['redact', 'cas_enqueue'], 'K1-redaction-before-upload', 'conversation text was uploaded without redacting first: %r' % ev)
    h.sample = h.witness()


CONFIG = 'config::Config'
MODES = {'default': 'Default', 'notes': 'Notes', 'local': 'Local'}


def ob_policy(h, shape):
    P = h.P
    M = P.M
    nex, nin, nrem = shape['exclude'], shape['include'], shape['remotes']
    ex = ['*' if (shape.get('ex_wild') and i == 0) else 'ex%d' % i for i in range(nex)]
    inc = ['*' if (shape.get('in_wild') and i == 0) else 'in%d' % i for i in range(nin)]
    rem = ['url%d' % i for i in range(nrem)] if nrem >= 0 else None      # -1: no repository / remotes unavailable
    # the whole match relation is decided up front (an answer the code never asks for is still part of the input)
    table = {}
    for pat in ex + inc:
        if pat == '*':
            continue
        for u in (rem or []):
            if (pat, u) not in table:
                table[(pat, u)] = h.choice(2) == 1
    P.state['c08_policy'] = {'table': table, 'remotes': rem}
    ps = ['default', 'notes', 'local', 'Notes ', 'garbage'][h.choice(5)]
    dps = [None, 'default', 'notes', 'local', 'garbage'][h.choice(5)]
    names = M.src.struct_fields(CONFIG)
    vals = {n: Opaque('unused-config-field', n) for n in names}
    vals['exclude_prompts_in_repositories'] = VecV([Opaque('Pattern', x) for x in ex])
    vals['include_prompts_in_repositories'] = VecV([Opaque('Pattern', x) for x in inc])
    vals['prompt_storage'] = pystring(ps)
    vals['default_prompt_storage'] = some(pystring(dps)) if dps is not None else none()
    cfg = Agg(CONFIG, [vals[n] for n in names])
    repo = none() if shape.get('no_repo') else some(Agg('git::repository::Repository', []))
    try:
        r = P.call_named(CONFIG + '::effective_prompt_storage', [Ref(Cell(cfg)), Ref(Cell(repo))])
    except Panic as e:
        h.panic('K2-no-panic', e.msg)
        return
    got = r.var

    def parse(x):
        return MODES.get(x.strip().lower()) if x is not None else None
    have_remotes = rem is not None and not shape.get('no_repo')
    urls = rem if have_remotes else []

    def m(p, u):
        return p == '*' or table.get((p, u), False)
    if '*' in ex:
        excluded = True
    elif not ex or not have_remotes or not urls:
        excluded = False
    else:
        excluded = any(m(p, u) for u in urls for p in ex)
    if excluded:
        want = 'Local'
    elif not inc:
        want = parse(ps) or 'Default'
    else:
        if urls:
            inm = any(m(p, u) for u in urls for p in inc)
        else:
            inm = '*' in inc
        want = (parse(ps) or 'Default') if inm else (parse(dps) or 'Local')
    h.inputs_struct = {'exclude': ex, 'include': inc, 'remotes': rem, 'no_repo': bool(shape.get('no_repo')), 'prompt_storage': ps, 'default_prompt_storage': dps,
                       'matches': [[k[0], k[1], v] for k, v in sorted(table.items())]}
    h.require(got == want, 'K2-mode-follows-the-documented-policy', 'effective mode %s, documented policy gives %s' % (got, want))
    if got == 'Notes':
        h.require(not excluded, 'K2-excluded-repository-never-gets-notes-mode', 'transcripts go to the shared notes of a repository the user excluded')
    h.cover('K2-excluded', excluded)
    h.cover('K2-notes', got == 'Notes')
    h.sample = h.witness()


OBLIGATIONS = {'dispatch': ob_dispatch, 'policy': ob_policy}
MUST_COVER = ['K2-excluded', 'K2-notes']


def _replay_post_commit(v, native):
    """K1 end to end: a real agent checkpoint with a transcript, a real commit, the real post_commit; the note is read back.
    Stageable: storage mode, a custom API URL (stands in for being logged in), an upload queue that works for every
    prompt or for none."""
    import json
    import os
    import subprocess
    import tempfile
    inp = v['inputs']
    plan_ = inp.get('cas_plan')
    if inp.get('logged_in') and not inp.get('custom_api'):
        upload = True      # staged through a custom API URL: the same branch of post_commit
    else:
        upload = bool(inp.get('custom_api'))
    if plan_ is not None and len(set(plan_)) > 1:
        return {'reproduced': False, 'note': 'an upload queue failing for some prompts only cannot be staged natively'}
    cas_fails = (plan_ is not None and not plan_[0]) or (plan_ is None and not inp.get('cas_ok', True))
    home = tempfile.mkdtemp(prefix='vc08p')
    try:
        os.makedirs(os.path.join(home, '.git-ai'))
        json.dump({'prompt_storage': inp['mode'].lower(), 'exclude_prompts_in_repositories': []}, open(os.path.join(home, '.git-ai', 'config.json'), 'w'))
        env = dict(os.environ, HOME=home, GIT_AI_DEBUG='0')
        env.pop('GIT_AI_API_BASE_URL', None)
        if upload:
            env['GIT_AI_API_BASE_URL'] = 'http://127.0.0.1:9/git-ai-test'
        env['GIT_AI_TEST_DB_PATH'] = os.path.join(home, 'db')
        env['GITAI_TEST_DB_PATH'] = os.path.join(home, 'db')
        exe = native.__globals__['replay_binary']()
        repo_dir = os.path.join(home, 'repo')
        p0 = subprocess.run([exe, 'c08_prepare'], input=json.dumps({'dir': repo_dir, 'prompts': inp.get('prompts', 1)}).encode(), stdout=subprocess.PIPE, stderr=subprocess.PIPE, env=env, timeout=120)
        if p0.returncode != 0:
            return {'reproduced': False, 'note': 'could not stage the checkpoints: %s' % p0.stderr.decode('utf-8', 'replace')[-300:]}
        ids = json.loads(p0.stdout.decode().strip().split('\n')[-1])
        env2 = dict(env)
        if cas_fails:
            # the internal database (~/.git-ai/internal/db) cannot be opened by the committing process: its directory is a file
            # (the GIT_AI_TEST_DB_PATH override exists only in test-support builds; it is set as well in case this is one)
            internal = os.path.join(home, '.git-ai', 'internal')
            subprocess.call(['rm', '-rf', internal])
            open(internal, 'w').write('not a directory\n')
            env2['GIT_AI_TEST_DB_PATH'] = '/dev/null/git-ai-vreplay/db'
            env2['GITAI_TEST_DB_PATH'] = '/dev/null/git-ai-vreplay/db'
        p = subprocess.run([exe, 'c08_post_commit'], input=json.dumps({'dir': repo_dir, 'parent': ids['parent'], 'commit': ids['commit']}).encode(),
                           stdout=subprocess.PIPE, stderr=subprocess.PIPE, env=env2, timeout=120)
        if p.returncode == 101:
            return {'reproduced': v['kind'] == 'panic', 'stderr': p.stderr.decode('utf-8', 'replace')[-400:]}
        r = json.loads(p.stdout.decode().strip().split('\n')[-1])
        leaked = bool(r.get('note_has_conversation'))
        ob = v['obligation']
        bad = {'K1-no-conversation-text-in-note': inp['mode'] != 'Notes' and leaked,
               'K1-notes-mode-keeps-messages': inp['mode'] == 'Notes' and not leaked,
               'K1-note-is-written': r.get('note_len', 0) == 0}
        return {'reproduced': bool(bad.get(ob)), 'native': r}
    finally:
        subprocess.call(['rm', '-rf', home])


def replay_priority(v):
    plan_ = v['inputs'].get('cas_plan')
    return 1 if (plan_ is not None and len(set(plan_)) > 1) else 0


def replay(v, native):
    ob = v['obligation']
    inp = v['inputs']
    if not ob.startswith('K2-'):
        return _replay_post_commit(v, native)
    if inp.get('remotes') is None and not inp.get('no_repo'):
        return {'reproduced': False, 'note': 'a repository whose remotes cannot be listed is not staged natively'}
    import json
    import os
    import subprocess
    import tempfile
    urls = ['https://h.example/u%d' % i for i in range(len(inp.get('remotes') or []))]
    table = {(p, u): b for p, u, b in inp['matches']}

    def real(p):
        if p == '*':
            return '*'
        hit = [i for i in range(len(urls)) if table.get((p, 'url%d' % i))]
        if not hit:
            return 'nomatch-' + p
        return '*u[%s]' % ''.join(str(i) for i in hit)
    cfg = {'exclude_prompts_in_repositories': [real(p) for p in inp['exclude']],
           'include_prompts_in_repositories': [real(p) for p in inp['include']],
           'prompt_storage': inp['prompt_storage']}
    if inp['default_prompt_storage'] is not None:
        cfg['default_prompt_storage'] = inp['default_prompt_storage']
    home = tempfile.mkdtemp(prefix='vc08')
    try:
        os.makedirs(os.path.join(home, '.git-ai'))
        json.dump(cfg, open(os.path.join(home, '.git-ai', 'config.json'), 'w'))
        exe = native.__globals__['replay_binary']()
        payload = {'remotes': urls if inp.get('remotes') is not None else None, 'no_repo': inp.get('no_repo', False)}
        env = dict(os.environ, HOME=home)
        p = subprocess.run([exe, 'c08_policy'], input=json.dumps(payload).encode(), stdout=subprocess.PIPE, stderr=subprocess.PIPE, env=env, timeout=60)
        if p.returncode == 101:
            return {'reproduced': v['kind'] == 'panic', 'stderr': p.stderr.decode('utf-8', 'replace')[-300:]}
        got = json.loads(p.stdout.decode().strip().split('\n')[-1])['mode']
        # the reference policy on the concrete instance
        have = bool(urls) and not inp.get('no_repo')
        ex, inc = inp['exclude'], inp['include']

        def m(pn, i):
            return pn == '*' or bool(table.get((pn, 'url%d' % i)))
        if '*' in ex:
            excluded = True
        elif not ex or not have:
            excluded = False
        else:
            excluded = any(m(pn, i) for i in range(len(urls)) for pn in ex)
        parse = lambda x: {'default': 'default', 'notes': 'notes', 'local': 'local'}.get(x.strip().lower()) if x is not None else None
        if excluded:
            want = 'local'
        elif not inc:
            want = parse(inp['prompt_storage']) or 'default'
        else:
            inm = any(m(pn, i) for i in range(len(urls)) for pn in inc) if have else ('*' in inc)
            want = (parse(inp['prompt_storage']) or 'default') if inm else (parse(inp['default_prompt_storage']) or 'local')
        bad = {'K2-mode-follows-the-documented-policy': got != want,
               'K2-excluded-repository-never-gets-notes-mode': got == 'notes' and excluded}
        return {'reproduced': bool(bad.get(ob)), 'native_mode': got, 'policy': want, 'config': cfg}
    finally:
        subprocess.call(['rm', '-rf', home])
