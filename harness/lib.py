"""Harness-side helpers: symbolic input builders, obligation discharge, concretisation."""
import json
import z3
from mirsym.values import *
from mirsym.models.util import *
from mirsym.models.util import DOMAINS, RANGES, set_domain, set_range
from mirsym import interp


class Violation:
    def __init__(self, obligation, detail, inputs, shape=None, known=None, kind='property'):
        self.obligation = obligation
        self.detail = detail
        self.inputs = inputs      # JSON-able concrete inputs for the native replay
        self.shape = shape
        self.known = known        # id of the known finding class it falls in, or None
        self.kind = kind          # 'property' | 'panic'

    def to_json(self):
        return {'obligation': self.obligation, 'detail': self.detail, 'inputs': self.inputs,
                'shape': self.shape, 'known': self.known, 'kind': self.kind}


class H:
    """per-path harness context wrapped around a Path"""

    def __init__(self, P, shape=None):
        self.P = P
        self.shape = shape
        self.violations = []
        self.obligations = 0
        self.discharged = 0
        self.sample = None
        self.inputs_struct = None   # python structure with z3 leaves describing the inputs
        self.covers = {}
        self.seen = []            # obligation ids evaluated on this path

    # -- symbolic input builders -------------------------------------------
    def byte(self, name, lo=0, hi=127, exclude=()):
        b = self.P.input_bv(name, 8)
        self.P.assume(z3.And(z3.UGE(b, z3.BitVecVal(lo, 8)), z3.ULE(b, z3.BitVecVal(hi, 8))))
        for x in exclude:
            self.P.assume(b != z3.BitVecVal(x, 8))
        set_domain(b, frozenset(x for x in range(lo, hi + 1) if x not in exclude))
        return b

    def byte_in(self, name, alphabet):
        b = self.P.input_bv(name, 8)
        self.P.assume(z3.Or([b == z3.BitVecVal(x, 8) for x in alphabet]))
        set_domain(b, frozenset(alphabet))
        return b

    def bytes_(self, name, n, **kw):
        return [self.byte('%s_%d' % (name, i), **kw) for i in range(n)]

    def hexbytes(self, name, n):
        out = []
        for i in range(n):
            b = self.P.input_bv('%s_%d' % (name, i), 8)
            self.P.assume(z3.Or(z3.And(z3.UGE(b, 48), z3.ULE(b, 57)), z3.And(z3.UGE(b, 97), z3.ULE(b, 102))))
            set_domain(b, frozenset(list(range(48, 58)) + list(range(97, 103))))
            out.append(b)
        return out

    def u32(self, name, lo=None, hi=None):
        v = self.P.input_bv(name, 32)
        if lo is not None:
            self.P.assume(z3.UGE(v, z3.BitVecVal(lo, 32)))
        if hi is not None:
            self.P.assume(z3.ULE(v, z3.BitVecVal(hi, 32)))
        set_range(v, [(lo or 0, hi if hi is not None else 0xffffffff)])
        return Sc(v, 32)

    def u32_in(self, name, intervals):
        """symbolic u32 restricted to a union of closed intervals"""
        v = self.P.input_bv(name, 32)
        self.P.assume(z3.Or([z3.And(z3.UGE(v, z3.BitVecVal(a, 32)), z3.ULE(v, z3.BitVecVal(b, 32))) for a, b in intervals]))
        set_range(v, list(intervals))
        return Sc(v, 32)

    def choice(self, n):
        return self.P.choice(n)

    def cover(self, name, cond=True):
        """reachability witness: counts the paths on which `cond` (python bool) held"""
        if cond:
            self.covers[name] = self.covers.get(name, 0) + 1

    # -- discharge ------------------------------------------------------------
    def model_inputs(self, model):
        return concretize(self.inputs_struct, model)

    def require(self, prop, obligation, detail='', known_classes=()):
        """prop (Sc bool / z3 Bool / python bool) must hold on this path for every
        input.  known_classes: list of (id, z3 Bool over inputs) of recorded findings."""
        P = self.P
        self.obligations += 1
        if obligation not in self.seen:
            self.seen.append(obligation)
        if isinstance(prop, Sc):
            prop = prop.v
        if isinstance(prop, bool):
            if prop:
                self.discharged += 1
                return True
            neg = z3.BoolVal(True)
        else:
            neg = z3.Not(prop)
        found = False
        if not P._check(neg):
            self.discharged += 1
            return True
        excl = [z3.Not(k) for _, k in known_classes]
        if not known_classes or P._check(neg, *excl):
            m = P.solver.model()
            self.violations.append(Violation(obligation, detail, self.model_inputs(m), self.shape))
            found = True
        for kid, kc in known_classes:
            if P._check(neg, kc):
                m = P.solver.model()
                self.violations.append(Violation(obligation, detail, self.model_inputs(m), self.shape, known=kid))
                found = True
        if not found:
            self.discharged += 1
        return not found

    def panic(self, obligation, msg, known_classes=()):
        """the path ended in a panic although the obligation says it must not"""
        P = self.P
        self.obligations += 1
        excl = [z3.Not(k) for _, k in known_classes]
        found = False
        if P._check(*excl):
            self.violations.append(Violation(obligation, msg, self.model_inputs(P.solver.model()), self.shape, kind='panic'))
            found = True
        for kid, kc in known_classes:
            if P._check(kc):
                self.violations.append(Violation(obligation, msg, self.model_inputs(P.solver.model()), self.shape, known=kid, kind='panic'))
                found = True
        if not found:
            self.discharged += 1

    def witness(self):
        """a concrete input of this path (for samples / translator validation)"""
        P = self.P
        if P._check():
            return self.model_inputs(P.solver.model())
        return None


def concretize(x, model):
    """replace z3 leaves of a python structure by concrete python values"""
    if isinstance(x, dict):
        return {k: concretize(v, model) for k, v in x.items()}
    if isinstance(x, (list, tuple)):
        return [concretize(v, model) for v in x]
    if isinstance(x, Sc):
        if x.concrete:
            return x.sval() if x.w else x.v
        r = model.eval(x.v, model_completion=True)
        if x.w == 0:
            return z3.is_true(r)
        v = r.as_long()
        if x.s and v >> (x.w - 1):
            v -= 1 << x.w
        return v
    if z3.is_expr(x):
        r = model.eval(x, model_completion=True)
        if z3.is_bool(r):
            return z3.is_true(r)
        return r.as_long()
    if isinstance(x, ByteStr):
        return x.concretize(model)
    return x


class ByteStr:
    """wrapper marking a list of byte values so that concretisation yields a string"""

    def __init__(self, bs):
        self.bs = list(bs)

    def concretize(self, model):
        out = bytearray()
        for b in self.bs:
            if isinstance(b, int):
                out.append(b)
            else:
                out.append(model.eval(b, model_completion=True).as_long())
        # JSON cannot carry arbitrary bytes: use latin-1 escape-free encoding via list when not UTF-8
        try:
            return {'utf8': out.decode('utf-8')}
        except UnicodeDecodeError:
            return {'bytes': list(out)}


def bytes_of_json(j):
    if 'utf8' in j:
        return j['utf8'].encode('utf-8')
    return bytes(j['bytes'])


# -- value construction by source field names ---------------------------------

def mk_struct(M, path, **fields):
    names = M.src.struct_fields(path)
    if names is None:
        raise Unsupported('struct %s not found in source (renamed?)' % path)
    if set(names) != set(fields):
        raise Unsupported('struct %s fields changed: source has %r, harness gives %r' % (path, names, sorted(fields)))
    return Agg(path, [fields[n] for n in names])


def field(M, v, path, name):
    names = M.src.struct_fields(path)
    if names is None or name not in names:
        raise Unsupported('field %s.%s not found in source' % (path, name))
    return tgt(v).f[names.index(name)]


def mk_enum(M, path, variant, *fields):
    tab = M.src.enum_variants(path)
    if tab is None or not any(v == variant for v, _ in tab):
        raise Unsupported('enum %s::%s not found in source' % (path, variant))
    return En(path, variant, list(fields))


def all_of(conds):
    conds = [c.z() if isinstance(c, Sc) else c for c in conds]
    conds = [c for c in conds if not (isinstance(c, bool) and c)]
    if any(isinstance(c, bool) and not c for c in conds):
        return False
    if not conds:
        return True
    return z3.And(conds)


def any_of(conds):
    conds = [c.z() if isinstance(c, Sc) else c for c in conds]
    if any(isinstance(c, bool) and c for c in conds):
        return True
    conds = [c for c in conds if not isinstance(c, bool)]
    if not conds:
        return False
    return z3.Or(conds)


def neg(c):
    if isinstance(c, Sc):
        c = c.v
    if isinstance(c, bool):
        return not c
    return z3.Not(c)


def zbool(c):
    if isinstance(c, Sc):
        c = c.v
    if isinstance(c, bool):
        return z3.BoolVal(c)
    return c


def bytes_equal(a, b):
    """list-of-bytes equality as z3 Bool / python bool"""
    r = bytes_eq(list(a), list(b))
    return r.v


class ConcreteP:
    """stand-in for a Path when a reference model is evaluated on concrete values (native replay)"""

    def branch(self, cond):
        if isinstance(cond, Sc):
            cond = cond.v
        if isinstance(cond, bool):
            return cond
        c = z3.simplify(cond)
        if z3.is_true(c):
            return True
        if z3.is_false(c):
            return False
        raise Unsupported('symbolic condition in concrete replay')
