"""C02 — attribution follows code through history rewriting (narrow: failed / dry-run operations are inert).

K1  Encoded from MIR: the post-command hooks of commit, reset, checkout, switch, stash, merge and pull
    (commands::hooks::*), with a symbolic non-zero exit status (or a dry-run flag).  Everything behind the
    hook — Repository methods, repo_storage, refs, rewrite_log, authorship::*, handle_* helpers, config —
    is an environment boundary that *records the attempt*: reaching it at all on a failed / dry-run
    operation is the violation (no note, working log, INITIAL or journal mutator can run without passing it).
K3  one step of the rebase / cherry-pick content replay.  Encoded from MIR: authorship::rebase_authorship::
    {build_original_head_line_author_maps, transform_changed_files_to_final_state} with the real attribution
    tracker (diff engine = reference LCS model) over files whose lines are pairwise distinct.  Obligation:
    after the step every line of the new content that the original head attributed to session S is
    attributed to S, and no other line is attributed to any session.
K2  LineRange::shift (used by the note-shifting helpers): never an inverted or zero-based range, identity
    below the insertion point.
"""
import re
import itertools
import z3
from harness.lib import *
from mirsym.interp import int_cast

ID = 'C02'
HK = 'commands::hooks'
LR = 'authorship::authorship_log::LineRange'
CTX = 'commands::git_handlers::CommandHooksContext'
KANI = ['line_range_shift_never_inverts_and_is_identity_below']
CFG = {'max_steps': 400000}

BOUNDS = {
    'quick': 'K1: each of the 7 hooks x command lines of <=3 tokens over that command\'s flags (incl. --dry-run / -n, --hard, --squash, --abort, -- <path>, pop/apply/drop) x exit status symbolic in 1..255 or death by signal; commit additionally with status 0 and a dry-run flag; K2: shift on Single/Range with fully symbolic u32 bounds, insertion point and i32 offset',
    'thorough': 'command lines of <=4 tokens',
}
OUTSIDE = 'every statement about commit graphs, conflict stops, todo permutations and stash layouts (decided by git subprocesses over an object database); the rebase and cherry-pick post hooks (they inspect git\'s state directories and may legitimately journal an Abort event); what the hooks do on success'
ASSUMPTIONS = [
    'environment boundary = every crate function under git::repository::Repository::, git::repo_storage, git::refs, git::rewrite_log, git::sync_authorship, authorship::, commands::checkpoint, commands::hooks::*::handle_*/restore_*/save_*, config:: — calling any of them is recorded as "the hook acted"',
    'ExitStatus is modelled by its code()/signal()/success() contract',
]

HOOKS = {
    'commit': (HK + '::commit_hooks::commit_post_command_hook', ['args', 'status', 'repo', 'ctx'],
               [[], ['-m', 'x'], ['--dry-run'], ['-n', '-m', 'x'], ['--amend'], ['-a', '--dry-run'], ['--', 'f']]),
    'reset': (HK + '::reset_hooks::post_reset_hook', ['args', 'repo', 'status'],
              [[], ['--hard'], ['--hard', 'HEAD~1'], ['--soft', 'HEAD~1'], ['HEAD', '--', 'f'], ['--mixed'], ['--keep', 'x']]),
    'checkout': (HK + '::checkout_hooks::post_checkout_hook', ['args', 'repo', 'status', 'ctx'],
                 [['main'], ['-f', 'main'], ['--', 'f'], ['HEAD', '--', 'f'], ['-b', 'x'], ['--merge', 'main']]),
    'switch': (HK + '::switch_hooks::post_switch_hook', ['args', 'repo', 'status', 'ctx'],
               [['main'], ['-c', 'x'], ['--discard-changes', 'main'], ['--merge', 'main'], ['-f', 'main']]),
    'stash': (HK + '::stash_hooks::post_stash_hook', ['ctx', 'args', 'repo', 'status'],
              [[], ['push'], ['pop'], ['apply'], ['drop'], ['pop', 'stash@{1}'], ['push', '--', 'f']]),
    'merge': (HK + '::merge_hooks::post_merge_hook', ['args', 'status', 'repo'],
              [['--squash', 'x'], ['x'], ['--squash', '--dry-run', 'x'], ['--abort'], ['--no-ff', 'x']]),
    'pull': (HK + '::fetch_hooks::pull_post_command_hook', ['repo', 'args', 'status', 'ctx'],
             [[], ['--rebase'], ['--rebase', '--autostash'], ['--ff-only'], ['origin', 'main']]),
}
BOUNDARY = re.compile(r'^(git::repository::Repository::|git::repo_storage::|git::refs::|git::rewrite_log::|git::sync_authorship::|'
                      r'authorship::|commands::checkpoint::|config::|commands::hooks::\w+::(handle_|restore_|save_|resolve_|get_commit_default_author)|'
                      r'git::repository::(exec_git|find_repository))')


class Escaped(Exception):
    def __init__(self, name):
        Exception.__init__(self, name)
        self.name = name


def install(M):
    from harness import c07
    c07.install(M)

    def boundary(P, c, args, dt):
        if P.state.get('c02_open'):
            # K3 runs the real code behind the boundary
            cand = P.M.candidate(c.raw)
            if cand is None:
                raise Unsupported('no MIR for %s' % c.raw)
            fn = P.M.mir.get(cand)
            return P.run_fn(fn, P._untuple(fn, args, c))
        P.events.append(('boundary', c.key))
        raise Escaped(c.key)
    M.env_patterns.append((BOUNDARY, boundary))

    # K5: git answers diff-tree / cat-file from a model object store (only while a K5 shape is running)
    def k5_exec_git_stdin(P, c, args, dt):
        st = P.state.get('c02_pairs')
        if st is None:
            return boundary(P, c, args, dt)
        argv = [list(as_bytes(a)) for a in elems_of(args[0])]
        cargv = [bytes(concrete_bytes(a)).decode('latin1') if concrete_bytes(a) is not None else None for a in argv]
        raw = [(b.v if isinstance(b, Sc) and b.concrete else b) for b in elems_of(args[1])]
        sb = concrete_bytes(raw)
        if sb is None:
            raise Unsupported('git stdin with symbolic bytes')
        text = bytes(sb).decode()
        out = []
        if 'diff-tree' in cargv:
            for n in ('--stdin', '--raw', '-z', '-r', '--no-abbrev'):
                if n not in cargv:
                    raise Unsupported('diff-tree invoked without %s: the output grammar of the model does not apply' % n)
            for a in cargv[:cargv.index('--') if '--' in cargv else len(cargv)]:
                if a is not None and a.startswith('-') and a not in ('--stdin', '--raw', '-z', '-r', '--no-abbrev', '--no-pager'):
                    raise Unsupported('diff-tree model: option %s is not modelled' % a)
            specs = argv[cargv.index('--') + 1:] if '--' in cargv else None
            P.events.append(('diff_tree', text))
            for line in text.split('\n'):
                if not line:
                    continue
                parts = line.split(' ')
                if len(parts) != 2 or parts[0] not in st['trees'] or parts[1] not in st['trees']:
                    raise Unsupported('diff-tree model: stdin line %r names an unknown tree' % line)
                a, b = st['trees'][parts[0]], st['trees'][parts[1]]
                out += list(line.encode()) + [10]
                for pname in sorted(st['paths']):
                    if a.get(pname) == b.get(pname):
                        continue
                    pb = st['paths'][pname]
                    if specs is not None:
                        if not any(len(s_) == len(pb) and P.branch(bytes_eq(list(s_), list(pb))) for s_ in specs):
                            continue
                    old, new = a.get(pname), b.get(pname)
                    om, oo = ('000000', '0' * 40) if old is None else (old[0], old[1])
                    nm, no = ('000000', '0' * 40) if new is None else (new[0], new[1])
                    status = 'A' if old is None else ('D' if new is None else ('T' if om != nm else 'M'))
                    out += list((':%s %s %s %s %s' % (om, nm, oo, no, status)).encode()) + [0] + list(pb) + [0]
        elif 'cat-file' in cargv and '--batch' in cargv:
            P.events.append(('cat_file', text))
            for oid in text.split('\n'):
                if not oid:
                    continue
                body = st['blobs'].get(oid)
                if body is None:
                    out += list(oid.encode()) + list(b' missing\n')
                else:
                    out += list(oid.encode()) + list(b' blob ') + list(str(len(body)).encode()) + [10] + list(body) + [10]
        else:
            raise Unsupported('git %r is not modelled' % (cargv,))
        return ok(Agg('std::process::Output', [Opaque('ExitStatus', 0), VecV([b if isinstance(b, Sc) else Sc(b, 8) for b in out]), VecV([])]))

    def k5_global_args(P, c, args, dt):
        if P.state.get('c02_pairs') is None:
            return boundary(P, c, args, dt)
        return VecV([pystring('--no-pager')])
    M.env['git::repository::exec_git_stdin'] = k5_exec_git_stdin
    M.env['git::repository::Repository::global_args_for_exec'] = k5_global_args


def plan(tier, seed):
    tasks = []
    for name, (fn, order, lines) in HOOKS.items():
        for li in range(len(lines)):
            for st in ('fail', 'signal', 'ok'):
                tasks.append(('inert', {'hook': name, 'line': li, 'status': st}))
    for kind in ('Single', 'Range'):
        for sign in ('pos', 'neg'):
            tasks.append(('shift', {'kind': kind, 'sign': sign}))
    alpha = ['a', 'b', 'c'] if tier == 'quick' else ['a', 'b', 'c', 'd']
    tasks.append(('replay_step', {'alphabet': alpha}))
    tasks.append(('replay_step', {'alphabet': alpha[:3], 'reorder': True, 'two_sessions': True}))
    tasks.append(('replay_step', {'alphabet': ['e', 'a', 'b']}))      # a line with multi-byte characters (byte vs char offsets)
    for kind in ('regular', 'symlink', 'gitlink', 'tree'):
        tasks.append(('blob_mode', {'kind': kind}))
    for base in ([0, 0], [1, 2], [1, 1], [2, 4]):
        tasks.append(('pair_contents', {'pairs': 1, 'base': base}))
    tasks.append(('pair_contents', {'pairs': 2, 'base': [1, 0]}))
    tasks.append(('pair_contents', {'pairs': 2, 'base': [0, 2], 'len1': 0 if tier == 'quick' else 3}))
    nb = 3 if tier == 'quick' else 4
    for kinds in ([['blob', 0]], [['blob', nb]], [['missing', 0], ['blob', 2]], [['blob', 2], ['blob', 2]], [['blob', 1], ['missing', 0], ['blob', 0]], [['blob', nb], ['blob', 1]]):
        tasks.append(('blob_reader', {'kinds': kinds}))
    return tasks


def is_dry(argv):
    return '--dry-run' in argv or (argv and False)


def ob_inert(h, shape):
    P = h.P
    M = P.M
    name = shape['hook']
    fn, order, lines = HOOKS[name]
    argv = [name] + lines[shape['line']]
    st = shape['status']
    if st == 'fail':
        code = Sc(P.input_bv('code', 32), 32, True)
        P.assume(z3.And(code.v >= 1, code.v <= 255))
        status = Opaque('ExitStatus', {'code': some(code), 'signal': none()})
    elif st == 'signal':
        sig = Sc(P.input_bv('sig', 32), 32, True)
        P.assume(z3.And(sig.v >= 1, sig.v <= 64))
        status = Opaque('ExitStatus', {'code': none(), 'signal': some(sig)})
    else:
        status = Opaque('ExitStatus', {'code': some(Sc(0, 32, True)), 'signal': none()})
    h.inputs_struct = {'hook': name, 'argv': argv, 'status': st}
    parsed = P.call_named('git::cli_parser::parse_git_cli_args', [SliceRef(VecV([pystring(x) for x in argv]), 0, len(argv))])
    ctx_fields = M.src.struct_fields(CTX)
    ctx = Agg(CTX, [none() for _ in ctx_fields])
    repo = Agg('git::repository::Repository', [])
    vals = {'args': Ref(Cell(parsed)), 'status': status, 'repo': Ref(Cell(repo)), 'ctx': Ref(Cell(ctx))}
    must_be_inert = st != 'ok' or (name in ('commit', 'merge') and '--dry-run' in argv)
    acted = None
    try:
        P.call_named(fn, [vals[k] for k in order])
    except Escaped as e:
        acted = e.name
    except Unsupported as e:
        # reading repository state the harness does not provide: the hook went past its guard
        acted = 'unsupported: %s' % str(e)[:80]
    except Panic as e:
        acted = 'panic: %s' % e.msg[:80]
    if must_be_inert:
        h.require(acted is None, 'K1-failed-or-dry-run-is-inert', 'hook %s acted (%s) although the operation %s' % (name, acted, 'failed' if st != 'ok' else 'was a dry run'))
    else:
        # vacuity witness: on success the hook does go past the guard for ordinary command lines
        P.state['went_past_guard'] = acted is not None
        h.require(True, 'K1-witness')
    h.sample = {'hook': name, 'argv': argv, 'status': st, 'acted': acted}


def ob_shift(h, shape):
    P = h.P
    M = P.M
    a = Sc(P.input_bv('a', 32), 32)
    ip = Sc(P.input_bv('ip', 32), 32)
    off = Sc(P.input_bv('off', 32), 32, True)
    if shape['sign'] == 'pos':
        P.assume(off.v >= 0)
    else:
        P.assume(off.v < 0)
    if shape['kind'] == 'Single':
        r = mk_enum(M, LR, 'Single', a)
        b = a
    else:
        b = Sc(P.input_bv('b', 32), 32)
        P.assume(binop('Le', a, b))
        r = mk_enum(M, LR, 'Range', a, b)
    P.assume(binop('Ge', a, Sc(1, 32)))
    h.inputs_struct = {'kind': shape['kind'], 'a': a, 'b': b, 'insertion_point': ip, 'offset': off}
    try:
        out = P.call_named(LR + '::shift', [Ref(Cell(r)), ip, off])
    except Panic as e:
        # arithmetic overflow for line numbers near u32::MAX is outside any real file
        big = any_of([binop('Gt', b, Sc(1 << 30, 32))])
        h.panic('K2-shift-no-panic', e.msg, [('line-numbers-above-2^30', zbool(big))])
        return
    if out.var == 'Some':
        o = out.f[0]
        oa = o.f[0]
        ob_ = o.f[1] if o.var == 'Range' else o.f[0]
        h.require(all_of([binop('Le', oa, ob_)]), 'K2-shift-not-inverted', 'shift produced an inverted range')
        # entirely below the insertion point: unchanged
        below = binop('Lt', b, ip)
        same = all_of([binop('Eq', oa, a), binop('Eq', ob_, b)])
        h.require(any_of([neg(below), same]), 'K2-shift-identity-below-insertion', 'a range below the insertion point moved')
        # lines at/after the insertion point move by exactly the offset
        above = binop('Ge', a, ip)
        moved = all_of([int_cast(oa, 64, True).z() == int_cast(a, 64, True).z() + int_cast(off, 64, True).z(), int_cast(ob_, 64, True).z() == int_cast(b, 64, True).z() + int_cast(off, 64, True).z()])
        h.require(any_of([neg(above), moved]), 'K2-shift-moves-by-offset', 'a range at/after the insertion point did not move by the offset')
    h.sample = h.witness()


RA = 'authorship::rebase_authorship'
VAS = 'authorship::virtual_attribution::VirtualAttributions'
ATTR = 'authorship::attribution_tracker::Attribution'
LATTR = 'authorship::attribution_tracker::LineAttribution'
LINES = {'a': b'a1\n', 'b': b'b2\n', 'c': b'c3\n', 'd': b'd4\n', 'e': '\u00e95\u6f22\n'.encode('utf-8')}


def _text(seq):
    return b''.join(LINES[x] for x in seq)


def _attrs(M, seq, author_of):
    """char + line attributions of a file whose lines are seq; author_of: line -> session or None"""
    chars, lines = [], []
    pos = 0
    for i, x in enumerate(seq):
        n = len(LINES[x])
        a = author_of.get(x)
        if a:
            chars.append(mk_struct(M, ATTR, start=usize(pos), end=usize(pos + n), author_id=pystring(a), ts=Sc(1, 128)))
            lines.append(mk_struct(M, LATTR, start_line=Sc(i + 1, 32), end_line=Sc(i + 1, 32), author_id=pystring(a), overrode=none()))
        pos += n
    return VecV(chars), VecV(lines)


def subsets(alpha):
    out = []
    for m in range(1 << len(alpha)):
        out.append([alpha[i] for i in range(len(alpha)) if (m >> i) & 1])
    return out


def ob_replay_step(h, shape):
    """original head O, running state R, new content F: ordered subsets of pairwise distinct lines"""
    P = h.P
    M = P.M
    P.state['c02_open'] = True
    alpha = shape['alphabet']
    subs = subsets(alpha)
    O = subs[1 + h.choice(len(subs) - 1)]
    who = {}
    for x in O:
        k = h.choice(3 if shape.get('two_sessions') else 2)
        if k:
            who[x] = 's%d' % k
    # the running state starts as the original head and is only ever overwritten by a step's non-empty
    # result: the file always has an entry with non-empty content
    Rset = subs[1 + h.choice(len(subs) - 1)]
    F = subs[1 + h.choice(len(subs) - 1)]
    if shape.get('reorder') and len(F) > 1 and h.choice(2) == 1:
        F = F[::-1]
    # invariant of the running state (= this obligation, one step earlier): a line is attributed to S iff the
    # original head attributed that line to S
    r_who = {x: who[x] for x in Rset if x in who}
    h.inputs_struct = {'original': O, 'authors': dict(who), 'running': Rset, 'running_authors': dict(r_who), 'final': F}
    oc, ol = _attrs(M, O, who)
    va = mk_struct(M, VAS, repo=Opaque('Repository', None), base_commit=pystring('orig'),
                   attributions=MapV('hash', [[pystring('f'), tup(oc, ol)]], 'map'),
                   file_contents=MapV('hash', [[pystring('f'), StringV(list(_text(O)))]], 'map'),
                   prompts=MapV('btree', [], 'map'), ts=Sc(1, 128), blame_start_commit=none())
    rc, rl = _attrs(M, Rset, r_who)
    attributions = MapV('hash', [[pystring('f'), tup(rc, rl)]] if Rset else [], 'map')
    contents = MapV('hash', [[pystring('f'), StringV(list(_text(Rset)))]] if Rset else [], 'map')
    final = MapV('hash', [[pystring('f'), StringV(list(_text(F)))]], 'map')
    try:
        maps = P.call_named(RA + '::build_original_head_line_author_maps', [Ref(Cell(va))])
        r = P.call_named(RA + '::transform_changed_files_to_final_state',
                         [Ref(Cell(attributions)), Ref(Cell(contents)), final, some(Ref(Cell(va))), some(Ref(Cell(maps))), Sc(7, 128)])
    except Panic as e:
        h.panic('K3-no-panic', e.msg)
        return
    h.require(r.var == 'Ok', 'K3-step-ok', 'the replay step failed')
    if r.var != 'Ok':
        return
    got = {}
    for ent in attributions.ent:
        if bytes(concrete_bytes(as_bytes(ent[0]))) == b'f':
            for la in ent[1].f[1].e:
                a = bytes(concrete_bytes(as_bytes(field(M, la, LATTR, 'author_id')))).decode()
                s_ = field(M, la, LATTR, 'start_line')
                e_ = field(M, la, LATTR, 'end_line')
                if not (s_.concrete and e_.concrete):
                    raise Unsupported('symbolic line numbers out of a concrete replay step')
                for l in range(s_.v, e_.v + 1):
                    got[l] = a
    lost, gained = [], []
    for i, x in enumerate(F):
        want = who.get(x)
        have = got.get(i + 1)
        if have == 'human':
            have = None
        if want and have != want:
            lost.append((x, want, have))
        if not want and have:
            gained.append((x, have))
    h.require(not lost, 'K3-surviving-ai-lines-keep-their-session', 'lines (text, session before, session after) %r' % lost)
    h.require(not gained, 'K3-nothing-else-becomes-ai', 'lines no session wrote are attributed: %r' % gained)
    h.cover('K3-restored-from-original', any(x in who and x not in Rset for x in F))
    h.cover('K3-carried-by-diff', any(x in who and x in Rset for x in F))
    h.sample = h.witness()


def ob_blob_reader(h, shape):
    """K4: the replay reads file contents from `git cat-file --batch`: <oid> SP <type> SP <size> LF <size bytes> LF,
    or `<oid> missing` LF.  Every present blob must come back byte for byte under its oid, however the contents
    look (line feeds, text that looks like a header, empty)."""
    P = h.P
    M = P.M
    kinds = shape['kinds']          # per object: ('blob', n) | ('missing', 0)
    out = []
    want = {}
    desc = []
    for i, (k, n) in enumerate(kinds):
        oid = ('%x' % (i + 10)) * 40
        oid = oid[:40]
        if k == 'missing':
            out += list(oid.encode()) + list(b' missing\n')
            desc.append({'oid': oid, 'missing': True})
            continue
        body = [h.byte_in('b%d_%d' % (i, j), [97, 10, 32, 48]) for j in range(n)]
        out += list(oid.encode()) + list(b' blob ') + list(str(n).encode()) + [10] + body + [10]
        want[oid] = body
        desc.append({'oid': oid, 'content': ByteStr(body)})
    h.inputs_struct = {'objects': desc}
    data = VecV([b if isinstance(b, Sc) else Sc(b, 8) for b in out])
    P.state['c02_open'] = True
    try:
        r = P.call_named(RA + '::parse_cat_file_batch_output_with_oids', [SliceRef(data, 0, len(out))])
    except Panic as e:
        h.panic('K4-no-panic', e.msg)
        return
    h.require(r.var == 'Ok', 'K4-reader-accepts-git-output', 'well-formed cat-file --batch output was rejected')
    if r.var != 'Ok':
        return
    got = {}
    for k_, v_ in r.f[0].ent:
        got[bytes(concrete_bytes(as_bytes(k_))).decode()] = list(as_bytes(v_))
    h.require(set(got) == set(want), 'K4-exactly-the-present-blobs', 'blobs returned %r, present %r' % (sorted(got), sorted(want)))
    if set(got) == set(want):
        h.require(all_of([bytes_equal(got[o], want[o]) for o in want]), 'K4-contents-byte-for-byte', 'a blob\'s content came back changed')
    h.sample = h.witness()


def ob_blob_mode(h, shape):
    """K4b: which tree entries have content to replay: every regular file whatever its permission bits (100644,
    100755, the historical 100664) and symbolic links (120000); never a gitlink (160000) or a tree (040000)"""
    P = h.P
    P.state['c02_open'] = True
    kind = shape['kind']
    if kind == 'regular':
        perm = [h.byte('p%d' % i, lo=48, hi=55) for i in range(3)]
        mode = list(b'100') + perm
        want = True
    else:
        mode = list({'symlink': b'120000', 'gitlink': b'160000', 'tree': b'040000'}[kind])
        want = kind == 'symlink'
    h.inputs_struct = {'mode': ByteStr(mode)}
    try:
        r = P.call_named(RA + '::is_blob_mode', [mk_str(mode)])
    except Panic as e:
        h.panic('K4-mode-no-panic', e.msg)
        return
    got = r.v if r.concrete else r.z()
    h.require(got if want else (z3.Not(got) if not isinstance(got, bool) else not got), 'K4-files-of-every-permission-and-symlinks-have-content',
              'mode %s is treated as %s content' % (kind, 'without' if want else 'with'))
    h.sample = h.witness()


B1, B2, BE = '1' * 40, '2' * 40, 'e' * 40
K5_LAYOUT = [None, ('100644', B1), ('100644', B2), ('100755', B1), ('160000', B2), ('100644', BE)]


K5_COMBOS = [(1, 1), (1, 2), (0, 1), (2, 0), (3, 1), (5, 2), (4, 1), (2, 2)]


def ob_pair_contents(h, shape):
    """K5: what the rebase replay reads for each rewritten commit.  collect_changed_file_contents_for_commit_pairs
    with git answered by a model object store: for every commit, the changed tracked files are exactly the
    tracked paths whose tree entry differs from the first parent's, and the content handed to the replay for each
    is the blob the commit's tree names for that path (empty when the path is gone or is not a file) - also when
    two paths, or two commits, name the same blob"""
    P = h.P
    M = P.M
    P.state['c02_open'] = True
    n = shape['pairs']
    p0 = [h.byte_in('p0_%d' % j, [97, 58, 32, 34]) for j in range(2)]
    paths = {'p0': p0, 'p1': list(b'b'), 'u': list(b'untracked')}
    c1 = [h.byte_in('x%d' % j, [97, 10, 32, 48]) for j in range(shape.get('len1', 2))]
    c2 = [h.byte_in('y%d' % j, [98, 10, 58]) for j in range(shape.get('len2', 1))]
    blobs = {B1: c1, B2: c2, BE: []}
    trees = {'t0': {'p0': K5_LAYOUT[shape['base'][0]], 'p1': K5_LAYOUT[shape['base'][1]], 'u': ('100644', B1)}}
    lay = []
    for i in range(n):
        if n == 1:
            a = h.choice(len(K5_LAYOUT))
            b = h.choice(len(K5_LAYOUT))
        else:
            # two commits: the layouts that matter (same blob under two paths / in two commits, deletion, mode change, gitlink, empty file)
            a, b = K5_COMBOS[h.choice(len(K5_COMBOS))]
        lay.append([a, b])
        trees['t%d' % (i + 1)] = {'p0': K5_LAYOUT[a], 'p1': K5_LAYOUT[b], 'u': ('100644', B2 if i % 2 == 0 else B1)}
    P.state['c02_pairs'] = {'trees': trees, 'paths': paths, 'blobs': blobs}
    h.inputs_struct = {'base': shape['base'], 'layout': lay, 'p0': ByteStr(p0), 'blob1': ByteStr(c1), 'blob2': ByteStr(c2)}
    pairs = VecV([tup(pystring('c%d' % (i + 1)), pystring('t%d' % i), pystring('t%d' % (i + 1))) for i in range(n)])
    tracked = [StringV(list(p0)), pystring('b')]
    specs = VecV(tracked)
    lookup = MapV('hash', [[mk_str(list(p0)), None], [pystr('b'), None]], 'set')
    repo = Agg('git::repository::Repository', [])
    try:
        r = P.call_named(RA + '::collect_changed_file_contents_for_commit_pairs', [Ref(Cell(repo)), SliceRef(pairs, 0, n), Ref(Cell(lookup)), SliceRef(specs, 0, 2)])
    except Panic as e:
        h.panic('K5-no-panic', e.msg)
        return
    h.require(r.var == 'Ok', 'K5-reads-what-git-prints', 'well-formed diff-tree / cat-file output was rejected')
    if r.var != 'Ok':
        return
    got = {}
    for k_, v_ in r.f[0].ent:
        got[bytes(concrete_bytes(as_bytes(k_))).decode()] = v_
    h.require(sorted(got) == ['c%d' % (i + 1) for i in range(n)], 'K5-every-commit-has-an-entry', 'commits in the result: %r' % sorted(got))
    for i in range(n):
        cm = 'c%d' % (i + 1)
        if cm not in got:
            continue
        changed, contents = got[cm].f[0], got[cm].f[1]
        ta, tb = trees['t%d' % i], trees['t%d' % (i + 1)]
        for pname in ('p0', 'p1'):
            pb = paths[pname]
            differs = ta[pname] != tb[pname]
            in_changed = any(len(as_bytes(e[0])) == len(pb) and P.branch(bytes_eq(list(as_bytes(e[0])), list(pb))) for e in changed.ent)
            h.require(in_changed == differs, 'K5-changed-files-are-the-tracked-paths-that-differ',
                      'commit %s: path %s %s from the parent tree but is %s as changed' % (cm, pname, 'differs' if differs else 'does not differ', 'reported' if in_changed else 'not reported'))
            if not differs:
                continue
            ent = tb[pname]
            want = blobs[ent[1]] if (ent is not None and ent[0] in ('100644', '100755', '120000')) else []
            body = None
            for k_, v_ in contents.ent:
                kb = list(as_bytes(k_))
                if len(kb) == len(pb) and P.branch(bytes_eq(kb, list(pb))):
                    body = list(as_bytes(v_))
            if body is None:
                h.require(False, 'K5-content-is-the-blob-the-tree-names', 'commit %s: no content handed over for changed path %s' % (cm, pname))
            else:
                h.require(bytes_equal(body, want), 'K5-content-is-the-blob-the-tree-names',
                          'commit %s: the content handed to the replay for %s is not the blob its tree names (%d bytes instead of %d)' % (cm, pname, len(body), len(want)))
        # nothing untracked leaks in
        for e in changed.ent:
            eb = list(as_bytes(e[0]))
            h.require(not (len(eb) == len(paths['u']) and P.branch(bytes_eq(eb, paths['u']))), 'K5-untracked-paths-stay-out', 'an untracked path is reported as changed')
    h.sample = h.witness()


OBLIGATIONS = {'pair_contents': ob_pair_contents, 'inert': ob_inert, 'shift': ob_shift, 'replay_step': ob_replay_step, 'blob_reader': ob_blob_reader, 'blob_mode': ob_blob_mode}
MUST_COVER = ['K3-restored-from-original', 'K3-carried-by-diff']


def _replay_pair_contents(v, native):
    """K5 natively: real trees built with git plumbing (blobs, modes, a gitlink), real commits, the real reader"""
    import os
    import subprocess
    import tempfile
    inp = v['inputs']
    ob = v['obligation']
    tmp = tempfile.mkdtemp(prefix='vc02p')
    env = dict(os.environ, GIT_AUTHOR_NAME='v', GIT_AUTHOR_EMAIL='v@v', GIT_COMMITTER_NAME='v', GIT_COMMITTER_EMAIL='v@v',
               HOME=tmp, GIT_CONFIG_NOSYSTEM='1', GIT_AUTHOR_DATE='1700000000 +0000', GIT_COMMITTER_DATE='1700000000 +0000')

    def git(*a, **kw):
        p = subprocess.run(['git'] + list(a), cwd=tmp, env=env, stdout=subprocess.PIPE, stderr=subprocess.PIPE, input=kw.get('input'))
        if p.returncode != 0:
            raise RuntimeError('git %r: %s' % (a, p.stderr.decode()))
        return p.stdout.decode().strip()
    try:
        git('init', '-q', '.')
        p0 = bytes_of_json(inp['p0']).decode()
        names = {'p0': p0, 'p1': 'b', 'u': 'untracked'}
        real = {B1: git('hash-object', '-w', '--stdin', input=bytes_of_json(inp['blob1'])),
                B2: git('hash-object', '-w', '--stdin', input=bytes_of_json(inp['blob2'])),
                BE: git('hash-object', '-w', '--stdin', input=b'')}
        content = {B1: bytes_of_json(inp['blob1']), B2: bytes_of_json(inp['blob2']), BE: b''}
        # a gitlink names a commit: any commit object will do
        link = git('commit-tree', '-m', 'linked', git('mktree', input=b''))
        layouts = [inp['base']] + inp['layout']
        trees = []
        for i, (a, b) in enumerate(layouts):
            ent = {'p0': K5_LAYOUT[a], 'p1': K5_LAYOUT[b], 'u': ('100644', B1) if i == 0 else ('100644', B2 if (i - 1) % 2 == 0 else B1)}
            lines = b''
            for pn, e in ent.items():
                if e is None:
                    continue
                mode, blob = e
                if mode == '160000':
                    lines += ('160000 commit %s\t' % link).encode() + names[pn].encode() + b'\0'
                else:
                    lines += ('%s blob %s\t' % (mode, real[blob])).encode() + names[pn].encode() + b'\0'
            trees.append((ent, git('mktree', '-z', input=lines)))
        commits = []
        parent = git('commit-tree', '-m', 'base', trees[0][1])
        for i in range(1, len(trees)):
            parent = git('commit-tree', '-m', 'c%d' % i, '-p', parent, trees[i][1])
            commits.append(parent)
        r = native('c02_pair_contents', {'repo': tmp, 'commits': commits, 'pathspecs': [p0, 'b']})
        if 'panic' in r:
            return {'reproduced': v['kind'] == 'panic', 'native': r}
        if v['kind'] == 'panic':
            return {'reproduced': False, 'native': r}
        if not r.get('ok'):
            return {'reproduced': ob == 'K5-reads-what-git-prints', 'native': r}
        bad = {k: False for k in ('K5-every-commit-has-an-entry', 'K5-changed-files-are-the-tracked-paths-that-differ', 'K5-content-is-the-blob-the-tree-names', 'K5-untracked-paths-stay-out')}
        res = r['commits']
        if sorted(res) != sorted(commits):
            bad['K5-every-commit-has-an-entry'] = True
        for i, cm in enumerate(commits):
            if cm not in res:
                continue
            ta, tb = trees[i][0], trees[i + 1][0]
            for pn in ('p0', 'p1'):
                differs = ta[pn] != tb[pn]
                if (names[pn] in res[cm]['changed']) != differs:
                    bad['K5-changed-files-are-the-tracked-paths-that-differ'] = True
                if differs:
                    e = tb[pn]
                    want = content[e[1]] if (e is not None and e[0] in ('100644', '100755', '120000')) else b''
                    got = res[cm]['contents'].get(names[pn])
                    if got is None or got.encode() != want:
                        bad['K5-content-is-the-blob-the-tree-names'] = True
            if 'untracked' in res[cm]['changed']:
                bad['K5-untracked-paths-stay-out'] = True
        return {'reproduced': bool(bad.get(ob)), 'native': r}
    finally:
        subprocess.call(['rm', '-rf', tmp])


def replay(v, native):
    if 'layout' in v['inputs']:
        return _replay_pair_contents(v, native)
    if 'mode' in v['inputs']:
        r = native('c02_blob_mode', v['inputs'])
        if 'panic' in r:
            return {'reproduced': v['kind'] == 'panic', 'native': r}
        m = bytes_of_json(v['inputs']['mode']).decode()
        want = m.startswith('100') or m == '120000'
        return {'reproduced': r.get('is_blob') != want, 'native': r}
    if 'running' in v['inputs']:
        inp = v['inputs']
        r = native('c02_replay_step', inp)
        if 'panic' in r:
            return {'reproduced': v['kind'] == 'panic', 'native': r}
        if v['kind'] == 'panic':
            return {'reproduced': False, 'native': r}
        who = inp['authors']
        lost = [x for x, a in zip(inp['final'], r.get('authors', [])) if who.get(x) and a != who.get(x)]
        gained = [x for x, a in zip(inp['final'], r.get('authors', [])) if not who.get(x) and a]
        bad = {'K3-step-ok': not r.get('ok'), 'K3-surviving-ai-lines-keep-their-session': bool(lost), 'K3-nothing-else-becomes-ai': bool(gained)}
        return {'reproduced': bool(bad.get(v['obligation'])), 'native': r, 'lost': lost, 'gained': gained}
    if 'objects' in v['inputs']:
        r = native('c02_blob_reader', v['inputs'])
        if 'panic' in r:
            return {'reproduced': v['kind'] == 'panic', 'native': r}
        if v['kind'] == 'panic':
            return {'reproduced': False, 'native': r}
        return {'reproduced': v['obligation'] in r.get('failed', []), 'native': r}
    inp = v['inputs']
    if 'kind' in inp:
        r = native('c02_shift', inp)
        if 'panic' in r:
            return {'reproduced': v['kind'] == 'panic', 'native': r}
        if v['kind'] == 'panic':
            return {'reproduced': False, 'native': r}
        return {'reproduced': v['obligation'] in r.get('failed', []), 'native': r}
    # hooks: run the real hook on a scratch repository with a failing status and look for any change under .git/ai or refs/notes
    r = native('c02_hook_inert', inp)
    if 'panic' in r:
        return {'reproduced': True, 'native': r}
    return {'reproduced': bool(r.get('changed')), 'native': r}
