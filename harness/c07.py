"""C07 — a failure inside git-ai never damages or silently alters a git operation (kernels).

K3  corrupt or missing private state degrades to "no attribution".  Encoded from MIR:
    rewrite_log::{deserialize_events_from_jsonl, append_event_to_file}, RepoStorage::{read_rewrite_events,
    append_rewrite_event}, PersistedWorkingLog::{read_initial_attributions, read_all_checkpoints,
    append_checkpoint} over the model file system in which every call may fail and every file may hold
    arbitrary bytes.
K1  the exit status is the child's: git_handlers::exit_with_status (see ob_exit_status); once git has run, the
    journal step of every post-command hook (Repository::handle_rewrite_log_event) ends by returning or by a
    panic (absorbed by the catch_unwind guard around the hook bodies) and never by ending the process itself —
    under every file-system fault and journal corruption of K3.
K2  the refusal before git starts is never silent: commands::hooks::commit_hooks::commit_pre_command_hook with a
    failing pre-commit step either lets git run or exits non-zero after printing a diagnostic, for every
    combination of -q / --quiet / --porcelain / --dry-run on the command line.
"""
import itertools
import z3
from harness.lib import *

ID = 'C07'
RL = 'git::rewrite_log'
EV = RL + '::RewriteLogEvent'
RS = 'git::repo_storage::RepoStorage'
PWL = 'git::repo_storage::PersistedWorkingLog'
INIT = 'git::repo_storage::InitialAttributions'
CFG = {'max_steps': 1500000}

BOUNDS = {
    'quick': 'K3: journal text of <=3 lines, each a well-formed event (codec text), a line of <=3 fully symbolic bytes, or blank / whitespace-only; journal file missing / empty / whitespace / such a text; every file-system call of append_event_to_file and of the readers may fail (one fault per path, any position); INITIAL and checkpoints.jsonl holding <=4 arbitrary symbolic bytes or a codec text followed by garbage',
    'thorough': '<=4 journal lines, two faults per path',
}
OUTSIDE = 'being killed in the middle of a write (crash points inside fs::write); the panic guard around the hook bodies and the pre-commit refusal (std::panic::catch_unwind / process::exit in handle_git: process-level, reached only with the whole hook dispatch which needs a model of git itself); K4 containment of failing internal git calls'
ASSUMPTIONS = [
    'file system = model map; a failing call returns io::Error and has no effect',
    'serde_json = injective codec: a line that is not codec output does not parse (real serde could accept other well-formed JSON of the right shape; those lines behave like well-formed events)',
]

LINE_KINDS = ['ev', 'sym', 'blank', 'ws']


def plan(tier, seed):
    tasks = [('storage_ctor', {'i': i}) for i in range(len(STORAGE_OBSTACLES))]
    for i in range(len(GUARDED_COMMANDS)):
        for phase in ('pre', 'post'):
            tasks.append(('hook_guard', {'i': i, 'phase': phase}))
    nmax = 3 if tier == 'quick' else 4
    for n in range(0, nmax + 1):
        for combo in itertools.product(LINE_KINDS, repeat=n):
            for nl in (True, False):
                if n == 0 and not nl:
                    continue
                tasks.append(('journal_parse', {'lines': list(combo), 'final_newline': nl}))
    for pre in (None, [], ['ws'], ['ev'], ['ev', 'ev'], ['sym', 'ev'], ['ev', 'blank', 'ev'], ['sym']):
        for fault in (None, 0, 1, 2, 3):
            tasks.append(('journal_append', {'pre': pre, 'fault': fault}))
    for kind in ('missing', 'sym0', 'sym2', 'sym4', 'valid', 'valid_garbage', 'fault'):
        tasks.append(('initial_read', {'kind': kind}))
        tasks.append(('checkpoints_read', {'kind': kind}))
    for code in ('exit', 'signal'):
        tasks.append(('exit_status', {'kind': code}))
    for pre in (None, [], ['ev'], ['sym'], ['sym', 'ev'], 'dir'):
        for fault in (None, 0, 1, 2, 3):
            tasks.append(('post_hook_journal', {'pre': pre, 'fault': fault}))
    for pre in (None, ['ev']):
        tasks.append(('post_hook_journal', {'pre': pre, 'fault': None, 'stale_lock': True}))
    import itertools as _it
    for flags in ([], ['-q'], ['--quiet'], ['--porcelain'], ['-m', 'x'], ['-q', '-m', 'x'], ['--dry-run'], ['-q', '--dry-run'], ['-a', '-q']):
        for pc in ('ok', 'fails', 'bare'):
            tasks.append(('pre_commit_refusal', {'flags': flags, 'pre_commit': pc}))
    out = []
    jp = [t for t in tasks if t[0] == 'journal_parse']
    B = 10
    for i in range(0, len(jp), B):
        out.append(('batch', {'shapes': [[t[0], t[1]] for t in jp[i:i + B]]}))
    return out + [t for t in tasks if t[0] != 'journal_parse']


GUARDED_COMMANDS = ['commit', 'rebase', 'reset', 'cherry-pick', 'push', 'fetch', 'pull', 'stash', 'merge', 'checkout', 'switch', 'status']


def install(M):
    import re as _re

    # K5: every hook body panics (only while that obligation runs)
    def hook_panics(P, c, args, dt):
        if not P.state.get('c07_guard'):
            cand = P.M.candidate(c.raw)
            if cand is None:
                raise Unsupported('no MIR for %s' % c.raw)
            fn = P.M.mir.get(cand)
            return P.run_fn(fn, P._untuple(fn, args, c))
        P.events.append(('hook_body', c.key))
        raise Panic('a hook body panicked: %s' % c.key)
    M.env_patterns.append((_re.compile(r'^commands::hooks::\w+::(\w+_hook|handle_\w+_post_command)$'), hook_panics))

    def real(P, c, args):
        cand = P.M.candidate(c.raw)
        if cand is None:
            raise Unsupported('no MIR for %s' % c.raw)
        fn = P.M.mir.get(cand)
        return P.run_fn(fn, P._untuple(fn, args, c))

    def cfg_get(P, c, args, dt):
        if not P.state.get('c07_guard'):
            return real(P, c, args)
        return Ref(Cell(Agg('config::Config', [])))

    def cfg_flags(P, c, args, dt):
        if not P.state.get('c07_guard'):
            return real(P, c, args)
        from harness import c14
        return Ref(Cell(c14.AnyField('feature_flags::FeatureFlags', [TRUE])))
    M.env['config::Config::get'] = cfg_get
    M.env['config::Config::feature_flags'] = cfg_flags
    M.env['config::Config::get_feature_flags'] = cfg_flags

    def hooks_guard(P, c, args, dt):
        return Opaque('InternalGitHooksGuard', None)
    M.env['git::repository::disable_internal_git_hooks'] = hooks_guard

    # std::process::ExitStatus / libc at the boundary
    def es_code(P, c, args, dt):
        st = tgt(args[0])
        return st.p['code']

    def es_signal(P, c, args, dt):
        st = tgt(args[0])
        return st.p['signal']

    def es_success(P, c, args, dt):
        st = tgt(args[0])
        cd = st.p['code']
        if cd.var == 'None':
            return FALSE
        return binop('Eq', cd.f[0], Sc(0, 32, True))
    M.models['std::process::ExitStatus::code'] = es_code
    M.models['std::process::ExitStatus::success'] = es_success
    M.models['std::os::unix::process::ExitStatusExt::signal'] = es_signal

    def libc_raise(P, c, args, dt):
        # the signal was just reset to SIG_DFL and it is one that killed the child, so its default
        # action terminates this process too: raise() does not return
        P.events.append(('raise', args[0]))
        raise ProcessExit(Opaque('signal', args[0]))

    def libc_signal(P, c, args, dt):
        P.events.append(('signal', args[0]))
        return Sc(0, 64)
    M.models['libc::raise'] = libc_raise
    M.models['libc::signal'] = libc_signal
    M.models['libc::unix::raise'] = libc_raise
    M.models['libc::unix::signal'] = libc_signal

    def pre_commit(P, c, args, dt):
        k = P.state.get('c07_pre_commit', 'ok')
        if k == 'ok':
            return ok(unit())
        msg = 'Cannot run checkpoint on bare repositories' if k == 'bare' else 'working log unreadable'
        return err(mk_enum(P.M, 'error::GitAiError', 'Generic', pystring(msg)))

    def noop(P, c, args, dt):
        return unit()

    def default_author(P, c, args, dt):
        return pystring('A <a@b>')
    M.env['authorship::pre_commit::pre_commit'] = pre_commit
    M.env['git::repository::Repository::require_pre_command_head'] = noop
    M.env['commands::hooks::commit_hooks::get_commit_default_author'] = default_author


def mk_event(M, k):
    return En(EV, 'Commit', [Agg('git::rewrite_log::CommitEvent', [Sc(k, 32)])])


def event_id(ev):
    return ev.f[0].f[0].v


def build_text(h, kinds, final_newline, tag='l'):
    """-> (bytes, ids of the well-formed events in order)"""
    P = h.P
    from mirsym.models.json import json_emit
    out = []
    ids = []
    h.line_desc = []
    for i, k in enumerate(kinds):
        if k == 'ev':
            ev = mk_event(P.M, 100 + i)
            out += json_emit(P, ev, EV, False)
            ids.append(100 + i)
            h.line_desc.append({'kind': 'ev', 'id': 100 + i})
        elif k == 'sym':
            sb = [h.byte('%s%d_%d' % (tag, i, j), lo=1, hi=127, exclude=(10,)) for j in range(3)]
            out += sb
            h.line_desc.append({'kind': 'sym', 'bytes': ByteStr(sb)})
        elif k == 'ws':
            out += [32, 9]
            h.line_desc.append({'kind': 'ws'})
        else:
            h.line_desc.append({'kind': 'blank'})
        if i < len(kinds) - 1 or final_newline:
            out.append(10)
    return out, ids


def ob_journal_parse(h, shape):
    P = h.P
    text, ids = build_text(h, shape['lines'], shape['final_newline'])
    h.inputs_struct = {'lines': h.line_desc, 'final_newline': shape['final_newline'], 'text': ByteStr(text)}
    try:
        r = P.call_named(RL + '::deserialize_events_from_jsonl', [mk_str(text)])
    except Panic as e:
        h.panic('K3-journal-parse-no-panic', e.msg)
        return
    h.require(r.var == 'Ok', 'K3-journal-parse-always-ok', 'a malformed journal line made the whole journal unreadable')
    if r.var == 'Ok':
        got = [event_id(e) for e in r.f[0].e]
        # a symbolic line could never be a codec text (it has no newline and 3 bytes) -> skipped
        h.require(got == ids, 'K3-journal-keeps-wellformed-events-in-order', 'events %r, expected %r' % (got, ids))
    h.sample = h.witness()


def storage(M):
    from mirsym.models.paths import mk_pathbuf
    pb = lambda s: mk_pathbuf(list(s.encode()))
    return mk_struct(M, RS, ai_dir=pb('/ai'), repo_workdir=pb('/w'), working_logs=pb('/ai/working_logs'), rewrite_log=pb('/ai/rewrite_log'), logs=pb('/ai/logs'))


def ob_journal_append(h, shape):
    P = h.P
    M = P.M
    pre = shape['pre']
    P.state['fs'] = {'/ai': 'DIR'}
    ids = []
    if pre is not None:
        text, ids = build_text(h, pre, True, 'p')
        P.state['fs']['/ai/rewrite_log'] = StringV(text)
    counter = {'n': 0}
    fault_at = shape['fault']

    def fault(P2, op, path):
        if op == 'exists':
            return False
        k = counter['n']
        counter['n'] += 1
        return fault_at is not None and k == fault_at
    P.state['fs_fault'] = fault
    st = storage(M)
    new = mk_event(M, 7)
    before = dict(P.state['fs'])
    h.inputs_struct = {'pre': pre, 'fault_at_fs_call': fault_at}
    try:
        r = P.call_named(RS + '::append_rewrite_event', [Ref(Cell(st)), new])
    except Panic as e:
        h.panic('K3-journal-append-no-panic', e.msg)
        return
    faulted = fault_at is not None and counter['n'] > fault_at
    if r.var == 'Ok':
        got = [event_id(e) for e in r.f[0].e]
        h.require(got == [7] + ids, 'K3-journal-append-prepends', 'journal after append: %r, expected %r' % (got, [7] + ids))
    else:
        h.require(faulted, 'K3-journal-append-fails-only-on-io-error', 'append failed without any file-system fault')
    # whatever happened, the journal stays readable afterwards
    P.state['fs_fault'] = None
    try:
        r2 = P.call_named(RS + '::read_rewrite_events', [Ref(Cell(st))])
    except Panic as e:
        h.panic('K3-journal-readable-after-fault', e.msg)
        return
    h.require(r2.var == 'Ok', 'K3-journal-readable-after-fault', 'journal unreadable after a failed append')
    if r2.var == 'Ok':
        got2 = [event_id(e) for e in r2.f[0].e]
        h.require(got2 in ([7] + ids, ids), 'K3-journal-no-event-invented-or-lost',
                  'journal holds %r after the (failed?) append; before: %r' % (got2, ids))
    h.sample = h.witness()


def mk_wl(M):
    from mirsym.models.paths import mk_pathbuf
    return mk_struct(M, PWL, dir=mk_pathbuf(list(b'/wl')), base_commit=pystring('head'), repo_workdir=mk_pathbuf(list(b'/w')),
                     canonical_workdir=mk_pathbuf(list(b'/w')), dirty_files=none(), initial_file=mk_pathbuf(list(b'/wl/INITIAL')))


def corrupt_content(h, kind, valid_bytes):
    if kind == 'sym0':
        return []
    if kind == 'sym2':
        return [h.byte('c%d' % i, lo=1, hi=127) for i in range(2)]
    if kind == 'sym4':
        return [h.byte('c%d' % i, lo=1, hi=127) for i in range(4)]
    if kind == 'valid':
        return list(valid_bytes)
    if kind == 'valid_garbage':
        return list(valid_bytes) + [h.byte('g%d' % i, lo=1, hi=127) for i in range(2)]
    return None


def ob_initial_read(h, shape):
    P = h.P
    M = P.M
    from mirsym.models.json import json_emit
    kind = shape['kind']
    wl = mk_wl(M)
    P.state['fs'] = {'/wl': 'DIR'}
    LATTR = 'authorship::attribution_tracker::LineAttribution'
    la = mk_struct(M, LATTR, start_line=Sc(3, 32), end_line=Sc(4, 32), author_id=pystring('s1'), overrode=none())
    data = mk_struct(M, INIT, files=MapV('hash', [[pystring('f'), VecV([la])]], 'map'), prompts=MapV('hash', [], 'map'))
    valid = json_emit(P, data, INIT, True)
    content = corrupt_content(h, kind, valid)
    if kind not in ('missing', 'fault'):
        P.state['fs']['/wl/INITIAL'] = StringV(content)
    if kind == 'fault':
        P.state['fs']['/wl/INITIAL'] = StringV(valid)
        P.state['fs_fault'] = lambda P2, op, path: op == 'read'
    h.inputs_struct = {'kind': kind, 'content': ByteStr(content or [])}
    try:
        r = P.call_named(PWL + '::read_initial_attributions', [Ref(Cell(wl))])
    except Panic as e:
        h.panic('K3-initial-read-no-panic', e.msg)
        return
    names = [concrete_bytes(as_bytes(e[0])).decode() for e in field(M, r, INIT, 'files').ent]
    if kind == 'valid':
        h.require(names == ['f'], 'K3-initial-valid-is-read', 'valid INITIAL read back as %r' % names)
    else:
        h.require(names == [], 'K3-initial-corrupt-reads-empty', 'corrupt / missing INITIAL produced attributions for %r' % names)
    h.sample = h.witness()


def ob_checkpoints_read(h, shape):
    P = h.P
    M = P.M
    from mirsym.models.json import json_emit
    from harness.c03 import mk_ckpt
    kind = shape['kind']
    wl = mk_wl(M)
    P.state['fs'] = {'/wl': 'DIR'}
    ck = mk_ckpt(h, M, ['f'], 0)
    valid = json_emit(P, ck, 'authorship::working_log::Checkpoint', False) + [10]
    content = corrupt_content(h, kind, valid)
    if kind not in ('missing', 'fault'):
        P.state['fs']['/wl/checkpoints.jsonl'] = StringV(content)
    if kind == 'fault':
        P.state['fs']['/wl/checkpoints.jsonl'] = StringV(valid)
        P.state['fs_fault'] = lambda P2, op, path: op == 'read'
    h.inputs_struct = {'kind': kind, 'content': ByteStr(content or [])}
    try:
        r = P.call_named(PWL + '::read_all_checkpoints', [Ref(Cell(wl))])
    except Panic as e:
        h.panic('K3-checkpoints-read-no-panic', e.msg)
        return
    if kind in ('missing', 'sym0'):
        h.require(r.var == 'Ok' and len(r.f[0].e) == 0, 'K3-checkpoints-missing-reads-empty', 'missing / empty checkpoints file did not read as empty')
    elif kind == 'valid':
        h.require(r.var == 'Ok' and len(r.f[0].e) == 1, 'K3-checkpoints-valid-is-read', 'valid checkpoints file not read back')
    else:
        # corrupt content: an error or an empty/partial list, never invented entries
        n = len(r.f[0].e) if r.var == 'Ok' else 0
        h.require(n <= (1 if kind == 'valid_garbage' else 0) or kind in ('sym2', 'sym4') and n == 0, 'K3-checkpoints-corrupt-invents-nothing',
                  'corrupt checkpoints file produced %d checkpoints' % n)
    # appending after corruption must not panic either (append uses unwrap_or_default on the read)
    P.state['fs_fault'] = None
    try:
        r2 = P.call_named(PWL + '::append_checkpoint', [Ref(Cell(wl)), Ref(Cell(mk_ckpt(h, M, ['g'], 1)))])
    except Panic as e:
        h.panic('K3-append-checkpoint-after-corruption-no-panic', e.msg)
        return
    h.require(r2.var == 'Ok', 'K3-append-checkpoint-after-corruption', 'append_checkpoint failed after the checkpoints file was corrupted')
    r3 = P.call_named(PWL + '::read_all_checkpoints', [Ref(Cell(wl))])
    h.require(r3.var == 'Ok', 'K3-working-log-readable-after-append', 'working log unreadable after append')
    h.sample = h.witness()


def ob_exit_status(h, shape):
    """exit_with_status mirrors the child's status: exit(code) or re-raise of the same signal"""
    P = h.P
    if shape['kind'] == 'exit':
        code = Sc(P.input_bv('code', 32), 32, True)
        P.assume(z3.And(code.v >= 0, code.v <= 255))
        st = Opaque('ExitStatus', {'code': some(code), 'signal': none()})
        h.inputs_struct = {'code': code}
    else:
        sig = Sc(P.input_bv('sig', 32), 32, True)
        # what a child can have died of: signals whose default action terminates (not CHLD CONT STOP TSTP TTIN TTOU URG
        # WINCH, not the two glibc keeps for itself)
        P.assume(z3.And(sig.v >= 1, sig.v <= 64, z3.Not(z3.Or([sig.v == k for k in (17, 18, 19, 20, 21, 22, 23, 28, 32, 33)]))))
        st = Opaque('ExitStatus', {'code': none(), 'signal': some(sig)})
        h.inputs_struct = {'signal': sig}
    try:
        P.call_named('commands::git_handlers::exit_with_status', [st])
        h.require(False, 'K1-exit-with-status-diverges', 'exit_with_status returned')
    except ProcessExit as e:
        if shape['kind'] == 'exit':
            h.require(binop('Eq', e.code, code) if isinstance(e.code, Sc) else False, 'K1-exit-code-is-the-childs', 'exit code differs from the child\'s')
        else:
            raised = [ev for ev in P.events if ev[0] == 'raise']
            reset = [ev for ev in P.events if ev[0] == 'signal']
            okk = False
            if isinstance(e.code, Opaque) and len(raised) == 1 and len(reset) >= 1:
                okk = all_of([binop('Eq', raised[0][1], sig)] + [binop('Eq', x[1], sig) for x in reset])
            # after raising the signal with the default handler the process is gone; the trailing exit is 128+sig by convention
            h.require(okk, 'K1-signal-is-reraised', 'the child\'s signal is not re-raised')
    except Panic as e:
        h.panic('K1-exit-no-panic', e.msg)
    h.sample = h.witness()


def ob_batch(h, shape):
    k = h.choice(len(shape['shapes']))
    name, sh = shape['shapes'][k]
    h.shape = {'ob': name, 'shape': sh}
    OBLIGATIONS[name](h, sh)


REPO = 'git::repository::Repository'


def mk_repo_c07(M):
    from mirsym.models.paths import mk_pathbuf
    pb = lambda x: mk_pathbuf(list(x.encode()))
    st = storage(M)
    return mk_struct(M, REPO, global_args=VecV([]), git_dir=pb('/w/.git'), git_common_dir=pb('/w/.git'),
                     storage=st, pre_command_base_commit=none(), pre_command_refname=none(), pre_reset_target_commit=none(),
                     workdir=pb('/w'), canonical_workdir=pb('/w'))


def ob_post_hook_journal(h, shape):
    """K1: the journal step of a post-command hook under faults / corruption"""
    P = h.P
    M = P.M
    pre = shape['pre']
    P.state['fs'] = {'/ai': 'DIR'}
    if pre == 'dir':
        P.state['fs']['/ai/rewrite_log/x'] = StringV([])
    elif pre is not None:
        text, ids = build_text(h, pre, True, 'p')
        P.state['fs']['/ai/rewrite_log'] = StringV(text)
    counter = {'n': 0}
    fault_at = shape['fault']

    def fault(P2, op, path):
        if op == 'exists':
            return False
        k = counter['n']
        counter['n'] += 1
        return fault_at is not None and k == fault_at
    P.state['fs_fault'] = fault
    repo = mk_repo_c07(M)
    h.inputs_struct = {'pre': pre, 'fault_at_fs_call': fault_at, 'stale_lock': bool(shape.get('stale_lock'))}
    if shape.get('stale_lock'):
        # left behind by a wrapper that was killed in the middle of an update
        P.state['fs']['/ai/rewrite_log.lock'] = StringV([])
        P.state['fs']['/ai/rewrite_log.tmp'] = StringV(list(b'half'))
    ended = 'returned'
    budget = P.max_steps
    P.max_steps = P.steps + 300000
    try:
        P.call_named(REPO + '::handle_rewrite_log_event', [Ref(Cell(repo)), mk_event(M, 7), pystring('A <a@b>'), TRUE, FALSE])
    except Panic:
        ended = 'panic'       # absorbed by the guard around the hook bodies: git's status stands
    except ProcessExit as e:
        ended = 'exit'
    except interp.Inconclusive as e:
        if 'step budget' not in str(e):
            raise
        ended = 'spins'
    finally:
        P.max_steps = budget
    h.require(ended != 'spins', 'K1-journal-step-terminates', 'the journal step does not come back (300000 steps without returning): later git commands hang')
    if ended == 'spins':
        return
    h.require(ended != 'exit', 'K1-post-hook-never-ends-the-process', 'after git ran, the journal step ended the process itself (git\'s exit status is lost)')
    h.cover('K1-journal-step-failed', ended == 'panic')
    h.cover('K1-journal-step-ok', ended == 'returned')
    h.sample = h.witness()


def ob_pre_commit_refusal(h, shape):
    """K2: commit_pre_command_hook with a failing / succeeding pre-commit step"""
    P = h.P
    M = P.M
    argv = ['commit'] + shape['flags']
    P.state['c07_pre_commit'] = shape['pre_commit']
    P.state['fs'] = {'/ai': 'DIR'}
    repo = mk_repo_c07(M)
    h.inputs_struct = {'argv': argv, 'pre_commit': shape['pre_commit']}
    parsed = P.call_named('git::cli_parser::parse_git_cli_args', [SliceRef(VecV([pystring(x) for x in argv]), 0, len(argv))])
    exited = None
    ret = None
    try:
        ret = P.call_named('commands::hooks::commit_hooks::commit_pre_command_hook', [Ref(Cell(parsed)), Ref(Cell(repo))])
    except ProcessExit as e:
        exited = e.code
    except Panic as e:
        h.panic('K2-pre-hook-no-panic', e.msg)
        return
    said = [e for e in P.events if e[0] == 'eprint']
    if exited is not None:
        h.require(isinstance(exited, Sc) and exited.concrete and exited.v != 0, 'K2-refusal-is-non-zero', 'refused before git with status 0')
        h.require(len(said) >= 1, 'K2-refusal-carries-a-diagnostic', 'git-ai refused `git %s` before git started without printing anything' % ' '.join(argv))
        h.require(shape['pre_commit'] != 'ok', 'K2-no-refusal-without-a-failure', 'refused although the pre-commit step succeeded')
    else:
        h.require(True, 'K2-git-is-allowed-to-run')
    h.cover('K2-refused', exited is not None)
    h.cover('K2-let-git-run', exited is None)
    h.sample = h.witness()


STORAGE_OBSTACLES = [None, '/w/.git/ai', '/w/.git/ai/working_logs', '/w/.git/ai/logs', '/w/.git/ai/rewrite_log']


def ob_storage_ctor(h, shape):
    """K4: find_repository builds the storage handle for EVERY wrapped command, outside any panic guard, before git is
    run: whatever is in the way under .git/ai (a regular file where a directory is expected, a directory where the
    journal is expected) it must come back - git-ai may record nothing, git must still run"""
    from mirsym.models.paths import mk_pathbuf
    P = h.P
    fs = {'/w': 'DIR', '/w/.git': 'DIR'}
    ob = STORAGE_OBSTACLES[shape['i']]
    if ob is not None:
        fs[ob] = 'DIR' if ob.endswith('rewrite_log') else pystring('in the way\n')
    P.state['fs'] = fs
    h.inputs_struct = {'obstacle': ob}
    try:
        P.call_named('git::repo_storage::RepoStorage::for_repo_path', [Ref(Cell(mk_pathbuf(list(b'/w/.git')))), Ref(Cell(mk_pathbuf(list(b'/w'))))])
    except Panic as e:
        h.panic('K4-storage-handle-never-panics', e.msg)
        return
    h.require(True, 'K4-storage-handle-comes-back')
    h.sample = h.witness()


def ob_hook_guard(h, shape):
    """K5: whatever goes wrong inside a hook body (here: every hook body panics), the dispatchers that run before and
    after git come back: a panic never escapes into the wrapper, which still has to run git / hand on git's status"""
    P = h.P
    M = P.M
    cmd = GUARDED_COMMANDS[shape['i']]
    P.state['c07_guard'] = True
    argv = [cmd, 'x']
    h.inputs_struct = {'guard_argv': argv, 'phase': shape['phase']}
    parsed = P.call_named('git::cli_parser::parse_git_cli_args', [SliceRef(VecV([pystring(x) for x in argv]), 0, len(argv))])
    CTX = 'commands::git_handlers::CommandHooksContext'
    ctx = Agg(CTX, [none() for _ in M.src.struct_fields(CTX)])
    repo = Agg('git::repository::Repository', [])
    status = Opaque('ExitStatus', {'code': some(Sc(0, 32, True)), 'signal': none()})
    try:
        if shape['phase'] == 'pre':
            P.call_named('commands::git_handlers::run_pre_command_hooks', [Ref(Cell(ctx)), Ref(Cell(parsed)), Ref(Cell(repo))])
        else:
            P.call_named('commands::git_handlers::run_post_command_hooks', [Ref(Cell(ctx)), Ref(Cell(parsed)), status, Ref(Cell(repo))])
    except Panic as e:
        h.panic('K5-hook-panics-never-escape', '`git %s`, %s-command hooks: %s' % (cmd, shape['phase'], e.msg))
        return
    h.require(True, 'K5-dispatcher-comes-back')
    h.cover('K5-a-hook-body-ran', any(e[0] == 'hook_body' for e in P.events))
    h.sample = h.witness()


OBLIGATIONS = {'hook_guard': ob_hook_guard, 'storage_ctor': ob_storage_ctor, 'post_hook_journal': ob_post_hook_journal, 'pre_commit_refusal': ob_pre_commit_refusal, 'journal_parse': ob_journal_parse, 'journal_append': ob_journal_append, 'initial_read': ob_initial_read,
               'checkpoints_read': ob_checkpoints_read, 'exit_status': ob_exit_status, 'batch': ob_batch}


def native_exit_status(native, inp):
    """run the real proxy (exit_on_completion) on a stand-in git that exits with the code / dies by the signal;
    -> how the wrapper process itself ended: {'code': n} or {'signal': n}"""
    import json
    import os
    import subprocess
    import tempfile
    tmp = tempfile.mkdtemp(prefix='vc07x')
    try:
        rec = os.path.join(tmp, 'recgit')
        with open(rec, 'w') as f:
            f.write('#!/usr/bin/env python3\nimport os, sys, signal\n'
                    's = int(os.environ.get("VREC_SIGNAL", "0"))\n'
                    'if s:\n    signal.signal(s, signal.SIG_DFL) if s not in (9, 19) else None\n    os.kill(os.getpid(), s)\n'
                    'sys.exit(int(os.environ.get("VREC_EXIT", "0")))\n')
        os.chmod(rec, 0o755)
        os.makedirs(os.path.join(tmp, '.git-ai'))
        json.dump({'git_path': rec}, open(os.path.join(tmp, '.git-ai', 'config.json'), 'w'))
        env = {'HOME': tmp, 'PATH': os.environ.get('PATH', '')}
        if 'signal' in inp:
            env['VREC_SIGNAL'] = str(inp['signal'])
        else:
            env['VREC_EXIT'] = str(inp['code'])
        exe = native.__globals__['replay_binary']()
        payload = {'args': [{'utf8': 'status'}], 'override': None, 'exit_on_completion': True}
        pre = 'ulimit -c 0; exec "$0" "$@"'
        p = subprocess.run(['sh', '-c', pre, exe, 'c06_handoff'], input=json.dumps(payload).encode(), stdout=subprocess.PIPE, stderr=subprocess.PIPE, env=env, timeout=60)
        if p.returncode < 0:
            return {'signal': -p.returncode}
        return {'code': p.returncode}
    finally:
        subprocess.call(['rm', '-rf', tmp])


def _run_raw(native, kind, payload, judge, timeout=120):
    """run vreplay and judge by (return code, stdout, stderr): these kernels are about how the process ends"""
    import json
    import os
    import subprocess
    import tempfile
    exe = native.__globals__['replay_binary']()
    home = tempfile.mkdtemp(prefix='vc07h')
    try:
        env = dict(os.environ, HOME=home, GIT_AI_DEBUG='0')
        p = subprocess.run([exe, kind], input=json.dumps(payload).encode(), stdout=subprocess.PIPE, stderr=subprocess.PIPE, env=env, timeout=timeout)
        out = p.stdout.decode('utf-8', 'replace')
        errt = p.stderr.decode('utf-8', 'replace')
        return {'reproduced': bool(judge(p.returncode, out, errt)), 'rc': p.returncode, 'stderr': errt[-400:]}
    finally:
        subprocess.call(['rm', '-rf', home])


def replay_exit_status(v, native):
    inp = v['inputs']
    r = native_exit_status(native, inp)
    if 'signal' in inp:
        return {'reproduced': r != {'signal': inp['signal']}, 'native': r}
    return {'reproduced': r != {'code': inp['code']}, 'native': r}


def replay(v, native):
    if 'guard_argv' in v['inputs']:
        return {'reproduced': False, 'note': 'a panicking hook body cannot be staged natively without changing the code'}
    if 'obstacle' in v['inputs']:
        r = native('c07_storage_ctor', v['inputs'])
        return {'reproduced': bool(r.get('panicked')) or 'panic' in r, 'native': r} if v['kind'] == 'panic' else {'reproduced': False, 'native': r}
    inp = v['inputs']
    ob = v['obligation']
    if ob.startswith('K1-exit') or ob.startswith('K1-signal'):
        return replay_exit_status(v, native)
    if ob == 'K1-journal-step-terminates':
        import subprocess
        try:
            return _run_raw(native, 'c07_post_hook_journal', {'pre': 'stale_lock'}, lambda rc, out, errt: False, timeout=25)
        except subprocess.TimeoutExpired:
            return {'reproduced': True, 'note': 'the real journal step did not return within 25 s'}
    if ob == 'K1-post-hook-never-ends-the-process':
        # natively only an unreadable journal can be staged (no fault injector): a directory in its place
        return _run_raw(native, 'c07_post_hook_journal', {'pre': 'dir'}, lambda rc, out, errt: rc not in (0, 101))
    if ob.startswith('K2-'):
        if inp.get('pre_commit') == 'bare':
            return {'reproduced': False, 'note': 'bare repository case not staged natively'}
        silent = lambda rc, out, errt: rc not in (0, 101) and 'Pre-commit failed' not in errt and 'pre-commit' not in errt.lower()
        judge = {'K2-refusal-carries-a-diagnostic': silent,
                 'K2-refusal-is-non-zero': lambda rc, out, errt: rc == 0 and '"let_git_run"' not in out,
                 'K2-no-refusal-without-a-failure': lambda rc, out, errt: rc not in (0, 101) and inp.get('pre_commit') == 'ok'}.get(ob)
        if judge is None:
            return {'reproduced': False}
        return _run_raw(native, 'c07_pre_commit_refusal', {'argv': inp['argv'], 'pre_commit': inp['pre_commit']}, judge)
    if 'text' in inp:
        r = native('c07_journal_parse', inp)
    elif 'kind' in inp:
        r = native('c07_state_read', dict(inp, which='initial' if 'initial' in ob else 'checkpoints'))
    else:
        return {'reproduced': False, 'note': 'fault-injection counterexamples are replayed by reading only (no native fault injector)'}
    if 'panic' in r:
        return {'reproduced': v['kind'] == 'panic', 'native': r}
    if v['kind'] == 'panic':
        return {'reproduced': False, 'native': r}
    return {'reproduced': ob in r.get('failed', []), 'native': r}


MUST_COVER = ['K1-journal-step-failed', 'K1-journal-step-ok', 'K2-refused', 'K2-let-git-run', 'K5-a-hook-body-ran']


def replay_priority(v):
    inp = v['inputs']
    if v['obligation'] == 'K1-post-hook-never-ends-the-process':
        return 0 if inp.get('pre') == 'dir' and inp.get('fault_at_fs_call') is None else 1
    return 0
