"""C15 — the note-remapping shortcut gives the same answer as full recomputation (kernels).

K1  the precondition comparator.  Encoded from MIR: authorship::rebase_authorship::
    tracked_paths_match_for_commit_pairs.  Environment: commit -> tree lookup (load_commit_metadata_batch)
    and `git diff-tree --stdin --raw -z --no-abbrev -r -- <pathspecs>` answered by a model of git over
    model trees (path -> blob id): for every stdin line `<A> <B>` the model prints the header `<A> <B>\n`
    and one raw record `:100644 100644 <x> <y> M\0<path>\0` per path that differs between the two trees and
    is matched by a given pathspec (all differing paths when no pathspec is given) — the grammar observed
    from git 2.x for that invocation.
    Obligation (soundness only — a comparator that declines more often keeps the property):
        returns Ok(true)  ==>  every pair's trees are known and agree on every tracked path.
K2  the shortcut guards.  Encoded from MIR: try_fast_path_rebase_note_remap and
    try_fast_path_cherry_pick_note_remap with K1's environment plus note lookup / blob read / note write
    models.  Obligations: Ok(true) ==> exactly the pairs to process received a note, each being the
    original's note with the base set to the rewritten commit, and the comparator's precondition held
    for every such pair; Ok(false) / Err ==> nothing was written.
K3  the copied note is the same note with the base updated: decided by the C17 check (obligation R4).
"""
import itertools
import z3
from harness.lib import *

ID = 'C15'
RA = 'authorship::rebase_authorship'
META = RA + '::CommitObjectMetadata'
CFG = {'max_steps': 3000000, 'max_depth': 120}

BOUNDS = {
    'quick': 'K1/K2: 1-3 commit pairs; tracked paths {p0 = 2 symbolic bytes over {a, :, LF, SP}, "b"}; every rewritten commit independently agrees / differs with its original on each tracked path, an untracked path differs in every pair; at most one commit unknown to the metadata lookup or with an empty tree id; K2 additionally: every original has a note / one (any position) has none / the blob of one note is unreadable, new commits to process = all / a strict subset, unequal list lengths, empty tracked paths',
    'thorough': '1-4 commit pairs',
}
OUTSIDE = 'equivalence with the content-replay algorithm on real histories (rewrite_authorship_after_rebase_v2 step 2 onward drives blame and diff through git: not encodable) — the claim is the shortcut\'s own precondition and that what it writes is the original note with the base updated; that equal blobs on every AI-touched path make the replayed note equal is the design argument, not decided here; git\'s pathspec matching is modelled as literal equality'
ASSUMPTIONS = [
    'git diff-tree --stdin --raw -z -r prints, per stdin line, `<A> <B>\\n` followed by the NUL-terminated raw records of the paths that differ and match a pathspec (observed from the git binary of this image; also for identical trees)',
    'load_commit_metadata_batch returns the tree id of every commit it knows; note_blob_oids_for_commits / batch_read_blob_contents / notes_add_batch are maps over a model note store',
]


def tree_of(c):
    return 'tr' + c


def install(M):
    def global_args_for_exec(P, c, args, dt):
        return VecV([pystring('--no-pager')])

    def load_meta(P, c, args, dt):
        st = P.state['c15']
        ent = []
        for s in elems_of(args[1]):
            name = bytes(concrete_bytes(as_bytes(s))).decode()
            if name == st.get('missing'):
                continue
            if any(bytes(concrete_bytes(as_bytes(k))).decode() == name for k, _ in ent):
                continue
            tree = '' if name == st.get('empty_tree') else tree_of(name)
            ent.append([pystring(name), Agg(META, [pystring(tree), none()])])
        P.events.append(('load_meta', len(ent)))
        return ok(MapV('hash', ent, 'map'))

    def exec_git_stdin(P, c, args, dt):
        st = P.state['c15']
        argv = [list(as_bytes(a)) for a in elems_of(args[0])]
        cargv = [bytes(concrete_bytes(a)).decode('latin1') if concrete_bytes(a) is not None else None for a in argv]
        if 'diff-tree' not in cargv:
            raise Unsupported('exec_git_stdin: not the diff-tree invocation: %r' % (cargv,))
        need = ['--stdin', '--raw', '-z', '-r']
        for n in need:
            if n not in cargv:
                raise Unsupported('diff-tree invoked without %s: output grammar of the model does not apply' % n)
        specs = None
        if '--' in cargv:
            specs = argv[cargv.index('--') + 1:]
        # --diff-filter=<letters>: upper case selects, lower case excludes (A added, D deleted, M modified)
        only, never = None, set()
        for a in cargv[:cargv.index('--') if '--' in cargv else len(cargv)]:
            if a is not None and a.startswith('--diff-filter='):
                for ch in a[len('--diff-filter='):]:
                    if ch.isupper():
                        only = (only or set()) | {ch}
                    else:
                        never.add(ch.upper())
            elif a is not None and a.startswith('-') and a not in ('--stdin', '--raw', '-z', '-r', '--no-abbrev', '--no-pager', '--') and not a.startswith('--diff-filter'):
                raise Unsupported('diff-tree model: option %s is not modelled' % a)
        raw = [(b.v if isinstance(b, Sc) and b.concrete else b) for b in elems_of(args[1])]
        sb = concrete_bytes(raw)
        if sb is None:
            raise Unsupported('diff-tree stdin with symbolic bytes')
        out = []
        trees = st['trees']
        paths = st['paths']          # name -> byte list
        P.events.append(('diff_tree', bytes(sb).decode(), None if specs is None else len(specs)))
        for line in bytes(sb).decode().split('\n'):
            if not line:
                continue
            parts = line.split(' ')
            if len(parts) != 2 or parts[0] not in trees or parts[1] not in trees:
                raise Unsupported('diff-tree model: stdin line %r names an unknown tree' % line)
            a, b = trees[parts[0]], trees[parts[1]]
            out += list(line.encode()) + [10]
            for pname in sorted(paths):
                if a.get(pname) == b.get(pname):
                    continue
                status = 'D' if b.get(pname) is None else ('A' if a.get(pname) is None else 'M')
                if status in never or (only is not None and status not in only):
                    continue
                pb = paths[pname]
                if specs is not None:
                    hit = False
                    for s in specs:
                        if len(s) == len(pb) and P.branch(bytes_eq(list(s), list(pb))):
                            hit = True
                            break
                    if not hit:
                        continue
                if status == 'D':
                    out += list(b':100644 000000 ' + b'1' * 40 + b' ' + b'0' * 40 + b' D') + [0] + list(pb) + [0]
                else:
                    out += list(b':100644 100644 ' + b'1' * 40 + b' ' + b'2' * 40 + b' M') + [0] + list(pb) + [0]
        return ok(Agg('std::process::Output', [Opaque('ExitStatus', 0), VecV([b if isinstance(b, Sc) else Sc(b, 8) for b in out]), VecV([])]))

    def note_oids(P, c, args, dt):
        st = P.state['c15']
        ent = []
        for s in elems_of(args[1]):
            name = bytes(concrete_bytes(as_bytes(s))).decode()
            if name in st['notes'] and not any(bytes(concrete_bytes(as_bytes(k))).decode() == name for k, _ in ent):
                ent.append([pystring(name), pystring('blob-' + name)])
        P.events.append(('note_oids', len(ent)))
        return ok(MapV('hash', ent, 'map'))

    def read_blobs(P, c, args, dt):
        st = P.state['c15']
        ent = []
        for s in elems_of(args[1]):
            name = bytes(concrete_bytes(as_bytes(s))).decode()
            if name == st.get('unreadable'):
                continue
            ent.append([pystring(name), pystring(st['notes'][name[len('blob-'):]])])
        return ok(MapV('hash', ent, 'map'))

    def notes_add_batch(P, c, args, dt):
        for e in elems_of(args[1]):
            P.events.append(('note_written', bytes(concrete_bytes(as_bytes(e.f[0]))).decode(), list(as_bytes(e.f[1]))))
        return ok(unit())

    def remap(P, c, args, dt):
        # K3 (C17 R4) decides this function; here its call is recorded and answered by its contract
        note = bytes(concrete_bytes(as_bytes(args[0]))).decode()
        tgt_ = bytes(concrete_bytes(as_bytes(args[1]))).decode()
        return pystring('%s@%s' % (note.split('@')[0], tgt_))
    M.env['git::repository::Repository::global_args_for_exec'] = global_args_for_exec
    M.env[RA + '::load_commit_metadata_batch'] = load_meta
    M.env['git::repository::exec_git_stdin'] = exec_git_stdin
    M.env['git::refs::note_blob_oids_for_commits'] = note_oids
    M.env[RA + '::batch_read_blob_contents'] = read_blobs
    M.env['git::refs::notes_add_batch'] = notes_add_batch
    M.env[RA + '::remap_note_content_for_target_commit'] = remap


def plan(tier, seed):
    tasks = []
    nmax = 3 if tier == 'quick' else 4
    for n in range(1, nmax + 1):
        tasks.append(('comparator', {'pairs': n, 'defects': False}))
        tasks.append(('comparator', {'pairs': n, 'defects': True}))
    tasks.append(('comparator', {'pairs': 0, 'defects': False}))
    for which in ('rebase', 'cherry_pick'):
        for n in range(1, nmax + 1):
            for notes in ('all', 'one-missing', 'unreadable'):
                tasks.append(('guards', {'which': which, 'pairs': n, 'notes': notes, 'variant': 'plain'}))
            if which == 'rebase':
                tasks.append(('guards', {'which': which, 'pairs': n, 'notes': 'all', 'variant': 'subset'}))
                tasks.append(('guards', {'which': which, 'pairs': n, 'notes': 'all', 'variant': 'unequal'}))
            tasks.append(('guards', {'which': which, 'pairs': n, 'notes': 'all', 'variant': 'no-tracked'}))
    return tasks


def world(h, n, defects, diffs=True):
    """model repository: originals o<i>, rewritten n<i>; returns (state, agrees[i], defect)"""
    P = h.P
    p0 = [h.byte_in('p0_%d' % j, [97, 58, 10, 32]) for j in range(2)]
    paths = {'p0': p0, 'p1': list(b'b'), 'u': list(b'untracked')}
    trees = {}
    agrees = []
    diffs = []
    defect = None
    commits = []
    for i in range(n):
        commits += ['o%d' % i, 'n%d' % i]
    if defects:
        k = h.choice(2 * len(commits)) if commits else 0
        defect = (commits[k // 2], 'missing' if k % 2 == 0 else 'empty_tree') if commits else None
    for i in range(n):
        trees[tree_of('o%d' % i)] = {'p0': 0, 'p1': 0, 'u': 0}
        d = 0 if (defects or not diffs) else h.choice(5)
        if d == 4:
            trees[tree_of('n%d' % i)] = {'p0': 0, 'p1': None, 'u': 1}      # the rewritten commit deleted a tracked file
        else:
            trees[tree_of('n%d' % i)] = {'p0': d & 1, 'p1': (d >> 1) & 1, 'u': 1}
        agrees.append(d == 0)
        diffs.append(d)
    st = {'trees': trees, 'paths': paths, 'notes': {}, 'diffs': diffs}
    if defect:
        st[defect[1]] = defect[0]
    P.state['c15'] = st
    return st, agrees, defect, p0


def ob_comparator(h, shape):
    P = h.P
    n = shape['pairs']
    st, agrees, defect, p0 = world(h, n, shape['defects'])
    pairs = VecV([tup(pystring('o%d' % i), pystring('n%d' % i)) for i in range(n)])
    tracked = VecV([StringV(list(p0)), pystring('b')])
    h.inputs_struct = {'pairs': n, 'agrees': agrees, 'diffs': st['diffs'], 'defect': list(defect) if defect else None, 'p0': ByteStr(p0)}
    repo = Agg('git::repository::Repository', [])
    try:
        r = P.call_named(RA + '::tracked_paths_match_for_commit_pairs', [Ref(Cell(repo)), SliceRef(pairs, 0, n), SliceRef(tracked, 0, 2)])
    except Panic as e:
        h.panic('K1-no-panic', e.msg)
        return
    said_yes = r.var == 'Ok' and r.f[0].concrete and bool(r.f[0].v)
    if r.var == 'Ok' and not r.f[0].concrete:
        said_yes = P.branch(r.f[0].z())
    precondition = all(agrees) and defect is None
    h.require(not said_yes or precondition, 'K1-yes-only-when-every-pair-agrees-on-every-tracked-path',
              'comparator answered "identical" although %s' % ('commit %s is %s' % (defect[0], defect[1]) if defect else 'pair(s) %r differ on a tracked path' % [i for i, a in enumerate(agrees) if not a]))
    h.cover('K1-said-yes', said_yes)
    h.cover('K1-said-no', not said_yes)
    h.sample = h.witness()


def ob_guards(h, shape):
    P = h.P
    n = shape['pairs']
    which = shape['which']
    st, agrees, defect, p0 = world(h, n, False)
    notes = {'o%d' % i: 'note%d@o%d' % (i, i) for i in range(n)}
    lacking = None
    if shape['notes'] == 'one-missing':
        lacking = h.choice(n)
        del notes['o%d' % lacking]
    elif shape['notes'] == 'unreadable':
        lacking = h.choice(n)
        st['unreadable'] = 'blob-o%d' % lacking
    st['notes'] = notes
    orig = ['o%d' % i for i in range(n)]
    new = ['n%d' % i for i in range(n)]
    process = list(new)
    if shape['variant'] == 'subset':
        m = h.choice(2 ** n)
        process = [c for i, c in enumerate(new) if (m >> i) & 1]
    if shape['variant'] == 'unequal':
        orig = orig + ['o-extra']
        st['trees'][tree_of('o-extra')] = {'p0': 0, 'p1': 0, 'u': 0}
    tracked = [] if shape['variant'] == 'no-tracked' else [StringV(list(p0)), pystring('b')]
    tv = VecV(tracked)
    h.inputs_struct = {'which': which, 'pairs': n, 'agrees': agrees, 'diffs': st['diffs'], 'notes': shape['notes'], 'lacking': lacking, 'variant': shape['variant'],
                       'process': process, 'p0': ByteStr(p0)}
    repo = Agg('git::repository::Repository', [])
    try:
        if which == 'rebase':
            ov = VecV([pystring(c) for c in orig])
            nv = VecV([pystring(c) for c in new])
            lookup = MapV('hash', [[pystr(c), None] for c in process], 'set')
            r = P.call_named(RA + '::try_fast_path_rebase_note_remap', [Ref(Cell(repo)), SliceRef(ov, 0, len(orig)), SliceRef(nv, 0, len(new)),
                                                                       Ref(Cell(lookup)), SliceRef(tv, 0, len(tracked))])
        else:
            pv = VecV([tup(pystring(o), pystring(c)) for o, c in zip(orig, new)])
            r = P.call_named(RA + '::try_fast_path_cherry_pick_note_remap', [Ref(Cell(repo)), SliceRef(pv, 0, n), SliceRef(tv, 0, len(tracked))])
    except Panic as e:
        h.panic('K2-no-panic', e.msg)
        return
    took = r.var == 'Ok' and bool(r.f[0].v)
    written = [(e[1], bytes(concrete_bytes(e[2]) or b'?').decode()) for e in P.events if e[0] == 'note_written']
    todo = [(o, c) for o, c in zip(orig, new) if c in process]
    if took:
        bad = [i for i, (o, c) in enumerate(zip(orig, new)) if c in process and not agrees[i]]
        h.require(not bad, 'K2-shortcut-only-when-precondition-holds-for-every-pair',
                  'shortcut taken although pair(s) %r differ on a tracked path' % bad)
        h.require(shape['variant'] not in ('unequal', 'no-tracked'), 'K2-declines-on-unequal-lists-or-no-tracked-paths',
                  'shortcut taken with %s' % shape['variant'])
        h.require(lacking is None or ('n%d' % lacking) not in process, 'K2-declines-when-an-original-has-no-note',
                  'shortcut taken although original o%s has no readable note' % lacking)
        want = sorted((c, '%s@%s' % (notes.get(o, '?').split('@')[0], c)) for o, c in todo)
        h.require(sorted(written) == want, 'K2-each-rewritten-commit-gets-its-originals-note-with-base-updated',
                  'notes written %r, expected %r' % (sorted(written), want))
    else:
        h.require(not written, 'K2-declining-writes-nothing', 'shortcut declined (or failed) after writing %r' % (written,))
    h.cover('K2-took', took)
    h.sample = h.witness()


OBLIGATIONS = {'comparator': ob_comparator, 'guards': ob_guards}


def replay(v, native):
    inp = v['inputs']
    ob = v['obligation']
    r = native('c15_' + ('comparator' if ob.startswith('K1') else 'guards'), inp)
    if 'panic' in r:
        return {'reproduced': v['kind'] == 'panic', 'native': r}
    if v['kind'] == 'panic':
        return {'reproduced': False, 'native': r}
    return {'reproduced': ob in r.get('failed', []), 'native': r}

MUST_COVER = ['K1-said-yes', 'K1-said-no', 'K2-took']
