//! Kani proof harnesses over git-ai's scalar kernels (no heap growth, no string searching).
//! Each harness is also an obligation of the MIR engine; the two verdicts must agree.
#![allow(unused_imports)]

#[cfg(kani)]
mod proofs {
    use git_ai::authorship::attribution_tracker::{Attribution, LineAttribution};
    use git_ai::authorship::authorship_log::LineRange;

    fn any_range() -> LineRange {
        if kani::any() {
            LineRange::Single(kani::any())
        } else {
            let a: u32 = kani::any();
            let b: u32 = kani::any();
            kani::assume(a <= b);
            LineRange::Range(a, b)
        }
    }

    fn bounds(r: &LineRange) -> (u32, u32) {
        match r {
            LineRange::Single(l) => (*l, *l),
            LineRange::Range(s, e) => (*s, *e),
        }
    }

    #[kani::proof]
    fn line_range_contains_is_interval_membership() {
        let r = any_range();
        let l: u32 = kani::any();
        let (a, b) = bounds(&r);
        assert_eq!(r.contains(l), a <= l && l <= b);
    }

    #[kani::proof]
    fn line_range_overlaps_is_symmetric_and_exact() {
        let r = any_range();
        let s = any_range();
        let (a, b) = bounds(&r);
        let (c, d) = bounds(&s);
        assert_eq!(r.overlaps(&s), a <= d && c <= b);
        assert_eq!(r.overlaps(&s), s.overlaps(&r));
    }

    #[kani::proof]
    fn line_range_shift_never_inverts_and_is_identity_below() {
        let r = any_range();
        let ip: u32 = kani::any();
        let off: i32 = kani::any();
        let (a, b) = bounds(&r);
        if let Some(o) = r.shift(ip, off) {
            let (oa, ob) = bounds(&o);
            assert!(oa <= ob);
            if b < ip {
                assert!(oa == a && ob == b);
            }
            if a >= ip {
                assert!(oa as i64 == a as i64 + off as i64);
                assert!(ob as i64 == b as i64 + off as i64);
            }
        }
        kani::cover!(r.shift(ip, off).is_some());
        kani::cover!(r.shift(ip, off).is_none());
    }

    #[kani::proof]
    fn line_attribution_intersection_is_interval_intersection() {
        let s: u32 = kani::any();
        let e: u32 = kani::any();
        kani::assume(s <= e);
        let la = LineAttribution { start_line: s, end_line: e, author_id: String::new(), overrode: None };
        let a: u32 = kani::any();
        let b: u32 = kani::any();
        kani::assume(a <= b);
        let ov = s <= b && a <= e;
        assert_eq!(la.overlaps(a, b), ov);
        match la.intersection(a, b) {
            Some((x, y)) => {
                assert!(ov);
                assert!(x == s.max(a) && y == e.min(b));
            }
            None => assert!(!ov),
        }
        std::mem::forget(la);
    }

    #[kani::proof]
    fn attribution_intersection_is_half_open_interval_intersection() {
        let s: usize = kani::any();
        let e: usize = kani::any();
        kani::assume(s <= e);
        let at = Attribution { start: s, end: e, author_id: String::new(), ts: 0 };
        let a: usize = kani::any();
        let b: usize = kani::any();
        kani::assume(a <= b);
        let ov = s < b && e > a;
        assert_eq!(at.overlaps(a, b), ov);
        match at.intersection(a, b) {
            Some((x, y)) => {
                assert!(x == s.max(a) && y == e.min(b) && x < y);
            }
            None => assert!(s.max(a) >= e.min(b)),
        }
        std::mem::forget(at);
    }
}
