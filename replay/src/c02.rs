use git_ai::authorship::authorship_log::LineRange;
use git_ai::commands::git_handlers::CommandHooksContext;
use git_ai::commands::hooks::{checkout_hooks, commit_hooks, fetch_hooks, merge_hooks, reset_hooks, stash_hooks, switch_hooks};
use git_ai::git::cli_parser::parse_git_cli_args;
use serde_json::{json, Value};
use std::process::Command;

pub fn shift(v: &Value) -> Value {
    let a = v["a"].as_u64().unwrap() as u32;
    let b = v["b"].as_u64().unwrap() as u32;
    let ip = v["insertion_point"].as_u64().unwrap() as u32;
    let off = v["offset"].as_i64().unwrap() as i32;
    let r = if v["kind"].as_str() == Some("Single") { LineRange::Single(a) } else { LineRange::Range(a, b) };
    let mut failed: Vec<&str> = Vec::new();
    if let Some(o) = r.shift(ip, off) {
        let (oa, ob) = match o {
            LineRange::Single(l) => (l, l),
            LineRange::Range(s, e) => (s, e),
        };
        if oa > ob {
            failed.push("K2-shift-not-inverted");
        }
        if b < ip && (oa != a || ob != b) {
            failed.push("K2-shift-identity-below-insertion");
        }
        if a >= ip && (oa as i64 != a as i64 + off as i64 || ob as i64 != b as i64 + off as i64) {
            failed.push("K2-shift-moves-by-offset");
        }
    }
    json!({"failed": failed})
}

fn snapshot(dir: &std::path::Path) -> String {
    // everything git-ai may write: .git/ai and the notes refs
    let mut out = String::new();
    let ai = dir.join(".git").join("ai");
    let mut stack = vec![ai];
    let mut files: Vec<(String, Vec<u8>)> = Vec::new();
    while let Some(d) = stack.pop() {
        if let Ok(rd) = std::fs::read_dir(&d) {
            for e in rd.flatten() {
                let p = e.path();
                if p.is_dir() {
                    stack.push(p);
                } else if let Ok(c) = std::fs::read(&p) {
                    files.push((p.to_string_lossy().to_string(), c));
                }
            }
        }
    }
    files.sort();
    for (p, c) in files {
        out.push_str(&format!("{p}:{}:{:?}\n", c.len(), &c[..c.len().min(64)]));
    }
    let refs = Command::new("git").args(["for-each-ref", "refs/notes"]).current_dir(dir).output().unwrap();
    out.push_str(&String::from_utf8_lossy(&refs.stdout));
    out
}

/// {hook, argv, status: fail|signal|ok}
pub fn hook_inert(v: &Value) -> Value {
    let dir = std::env::temp_dir().join(format!("vreplay-c02-{}", std::process::id()));
    let _ = std::fs::remove_dir_all(&dir);
    std::fs::create_dir_all(&dir).unwrap();
    let run = |args: &[&str]| {
        let st = Command::new("git")
            .args(args)
            .current_dir(&dir)
            .env("GIT_AUTHOR_NAME", "v").env("GIT_AUTHOR_EMAIL", "v@v").env("GIT_COMMITTER_NAME", "v").env("GIT_COMMITTER_EMAIL", "v@v")
            .output()
            .unwrap();
        assert!(st.status.success(), "git {:?}: {}", args, String::from_utf8_lossy(&st.stderr));
    };
    run(&["init", "-q", "."]);
    std::fs::write(dir.join("f"), "one\n").unwrap();
    run(&["add", "-A"]);
    run(&["commit", "-q", "-m", "c1"]);
    let globals = vec!["-C".to_string(), dir.to_string_lossy().to_string()];
    let mut repo = git_ai::git::find_repository(&globals).expect("repository");
    // pending AI state that a misbehaving hook could touch
    let head = String::from_utf8(Command::new("git").args(["rev-parse", "HEAD"]).current_dir(&dir).output().unwrap().stdout).unwrap().trim().to_string();
    repo.pre_command_base_commit = Some(head.clone());
    let wl = repo.storage.working_log_for_base_commit(&head);
    let mut m = std::collections::HashMap::new();
    m.insert("f".to_string(), vec![git_ai::authorship::attribution_tracker::LineAttribution::new(1, 1, "s1".into(), None)]);
    wl.write_initial_attributions(m, std::collections::HashMap::new()).unwrap();
    let before = snapshot(&dir);
    let argv: Vec<String> = v["argv"].as_array().unwrap().iter().map(|x| x.as_str().unwrap().to_string()).collect();
    let parsed = parse_git_cli_args(&argv);
    let status = match v["status"].as_str().unwrap() {
        "ok" => Command::new("true").status().unwrap(),
        _ => Command::new("false").status().unwrap(),
    };
    let mut ctx = CommandHooksContext {
        pre_commit_hook_result: None,
        rebase_original_head: None,
        rebase_onto: None,
        fetch_authorship_handle: None,
        stash_sha: None,
        push_authorship_handle: None,
        stashed_va: None,
    };
    match v["hook"].as_str().unwrap() {
        "commit" => commit_hooks::commit_post_command_hook(&parsed, status, &mut repo, &mut ctx),
        "reset" => reset_hooks::post_reset_hook(&parsed, &mut repo, status),
        "checkout" => checkout_hooks::post_checkout_hook(&parsed, &mut repo, status, &mut ctx),
        "switch" => switch_hooks::post_switch_hook(&parsed, &mut repo, status, &mut ctx),
        "stash" => stash_hooks::post_stash_hook(&ctx, &parsed, &mut repo, status),
        "merge" => merge_hooks::post_merge_hook(&parsed, status, &mut repo),
        "pull" => fetch_hooks::pull_post_command_hook(&mut repo, &parsed, status, &mut ctx),
        other => panic!("hook {other}"),
    }
    let after = snapshot(&dir);
    let _ = std::fs::remove_dir_all(&dir);
    json!({"changed": before != after, "before": before, "after": after})
}

/// K4: {objects: [{oid, content? | missing: true}]}: the real cat-file --batch reader on the text git prints
pub fn blob_reader(v: &Value) -> Value {
    let mut data: Vec<u8> = Vec::new();
    let mut want: Vec<(String, Vec<u8>)> = Vec::new();
    for o in v["objects"].as_array().unwrap() {
        let oid = o["oid"].as_str().unwrap().to_string();
        if o["missing"].as_bool().unwrap_or(false) {
            data.extend(format!("{oid} missing\n").as_bytes());
            continue;
        }
        let body = crate::bytes_of(&o["content"]);
        data.extend(format!("{oid} blob {}\n", body.len()).as_bytes());
        data.extend(&body);
        data.push(b'\n');
        want.push((oid, body));
    }
    let mut failed: Vec<&str> = Vec::new();
    match git_ai::authorship::rebase_authorship::verif_hooks::parse_cat_file_batch_output_with_oids(&data) {
        Err(_) => failed.push("K4-reader-accepts-git-output"),
        Ok(m) => {
            let mut keys: Vec<&String> = m.keys().collect();
            keys.sort();
            let mut wk: Vec<&String> = want.iter().map(|x| &x.0).collect();
            wk.sort();
            if keys != wk {
                failed.push("K4-exactly-the-present-blobs");
            } else if want.iter().any(|(o, b)| m.get(o).map(|s| s.as_bytes()) != Some(b.as_slice())) {
                failed.push("K4-contents-byte-for-byte");
            }
        }
    }
    json!({"failed": failed})
}

/// K3: {original: [line ids], authors: {id: session}, running: [...], running_authors: {...}, final: [...]}
/// lines are `a1`, `b2`, ... ; returns the session of every line of the new content
pub fn replay_step(v: &Value) -> Value {
    use git_ai::authorship::attribution_tracker::{Attribution, LineAttribution};
    use git_ai::authorship::virtual_attribution::VirtualAttributions;
    use std::collections::HashMap;
    let text_of = |id: &str| -> String {
        match id {
            "a" => "a1\n",
            "b" => "b2\n",
            "c" => "c3\n",
            "e" => "\u{e9}5\u{6f22}\n",
            _ => "d4\n",
        }
        .to_string()
    };
    let ids = |k: &str| -> Vec<String> { v[k].as_array().unwrap().iter().map(|x| x.as_str().unwrap().to_string()).collect() };
    let build = |seq: &[String], who: &Value| -> (String, Vec<Attribution>, Vec<LineAttribution>) {
        let mut text = String::new();
        let mut chars = Vec::new();
        let mut lines = Vec::new();
        for (i, id) in seq.iter().enumerate() {
            let t = text_of(id);
            if let Some(a) = who.get(id).and_then(|x| x.as_str()) {
                chars.push(Attribution::new(text.len(), text.len() + t.len(), a.to_string(), 1));
                lines.push(LineAttribution::new(i as u32 + 1, i as u32 + 1, a.to_string(), None));
            }
            text.push_str(&t);
        }
        (text, chars, lines)
    };
    let dir = std::env::temp_dir().join(format!("vreplay-c02k3-{}", std::process::id()));
    let _ = std::fs::remove_dir_all(&dir);
    std::fs::create_dir_all(&dir).unwrap();
    let st = std::process::Command::new("git").args(["init", "-q", "."]).current_dir(&dir).output().unwrap();
    assert!(st.status.success());
    let repo = git_ai::git::find_repository_in_path(dir.to_str().unwrap()).expect("repo");
    let (ot, oc, ol) = build(&ids("original"), &v["authors"]);
    let mut oa = HashMap::new();
    oa.insert("f".to_string(), (oc, ol));
    let mut ocon = HashMap::new();
    ocon.insert("f".to_string(), ot);
    let original = VirtualAttributions::new(repo, "orig".to_string(), oa, ocon, 1);
    let (rt, rc, rl) = build(&ids("running"), &v["running_authors"]);
    let mut attributions = HashMap::new();
    attributions.insert("f".to_string(), (rc, rl));
    let mut contents = HashMap::new();
    contents.insert("f".to_string(), rt);
    let fin = ids("final");
    let mut final_state = HashMap::new();
    final_state.insert("f".to_string(), fin.iter().map(|i| text_of(i)).collect::<String>());
    let r = git_ai::authorship::rebase_authorship::verif_hooks::replay_step(&original, &mut attributions, &mut contents, final_state, 7);
    let mut per_line: Vec<Option<String>> = vec![None; fin.len()];
    if let Some((_, las)) = attributions.get("f") {
        for la in las {
            for l in la.start_line..=la.end_line {
                if (l as usize) >= 1 && (l as usize) <= fin.len() && la.author_id != "human" {
                    per_line[l as usize - 1] = Some(la.author_id.clone());
                }
            }
        }
    }
    let _ = std::fs::remove_dir_all(&dir);
    json!({"ok": r.is_ok(), "authors": per_line})
}

/// K4b: {mode}
pub fn blob_mode(v: &Value) -> Value {
    let m = String::from_utf8(crate::bytes_of(&v["mode"])).unwrap();
    json!({"is_blob": git_ai::authorship::rebase_authorship::verif_hooks::is_blob_mode(&m)})
}

/// K5: {repo, commits: [sha..], pathspecs: [path..]}: what the rebase replay reads for each rewritten commit
pub fn pair_contents(v: &Value) -> Value {
    let repo = git_ai::git::find_repository_in_path(v["repo"].as_str().unwrap()).expect("repo");
    let commits: Vec<String> = v["commits"].as_array().unwrap().iter().map(|x| x.as_str().unwrap().to_string()).collect();
    let specs: Vec<String> = v["pathspecs"].as_array().unwrap().iter().map(|x| x.as_str().unwrap().to_string()).collect();
    match git_ai::authorship::rebase_authorship::verif_hooks::changed_file_contents_for_commits(&repo, &commits, &specs) {
        Err(e) => json!({"ok": false, "error": e.to_string()}),
        Ok(m) => {
            let mut out = serde_json::Map::new();
            for (c, (changed, contents)) in m {
                let mut ch: Vec<String> = changed.into_iter().collect();
                ch.sort();
                out.insert(c, json!({"changed": ch, "contents": contents}));
            }
            json!({"ok": true, "commits": out})
        }
    }
}
