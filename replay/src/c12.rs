use git_ai::git::repository::{verif_hooks, InternalGitProfile};
use serde_json::{json, Value};

pub fn profile(v: &Value) -> Value {
    let args: Vec<String> = v["args"].as_array().unwrap().iter().map(|x| x.as_str().unwrap().to_string()).collect();
    let p = match v["profile"].as_str().unwrap() {
        "General" => InternalGitProfile::General,
        "PatchParse" => InternalGitProfile::PatchParse,
        "NumstatParse" => InternalGitProfile::NumstatParse,
        "RawDiffParse" => InternalGitProfile::RawDiffParse,
        other => panic!("profile {other}"),
    };
    json!({"out": verif_hooks::args_with_internal_git_profile(&args, p)})
}
