use git_ai::git::repository::{verif_hooks, InternalGitProfile};
use serde_json::{json, Value};

pub fn profile(v: &Value) -> Value {
    let args: Vec<String> = v["args"].as_array().unwrap().iter().map(|x| x.as_str().unwrap().to_string()).collect();
    let p = match v["profile"].as_str().unwrap() {
        "General" => InternalGitProfile::General,
        "PatchParse" => InternalGitProfile::PatchParse,
        "NumstatParse" => InternalGitProfile::NumstatParse,
        "RawDiffParse" => InternalGitProfile::RawDiffParse,
        other => panic!("profile {other}"),
    };
    json!({"out": verif_hooks::args_with_internal_git_profile(&args, p)})
}

/// K3: {repo, fn, pathspecs: [..]|null}: run the real call site; the configured git is a recorder for `diff`
pub fn callsite(v: &Value) -> Value {
    let repo = git_ai::git::find_repository_in_path(v["repo"].as_str().unwrap()).expect("repo");
    let ps: Option<std::collections::HashSet<String>> = v["pathspecs"]
        .as_array()
        .map(|a| a.iter().map(|x| String::from_utf8(crate::bytes_of(x)).unwrap()).collect());
    let r = match v["fn"].as_str().unwrap() {
        "diff_added_lines" => repo.diff_added_lines("HEAD", "HEAD", ps.as_ref()).map(|_| ()),
        "diff_workdir_added_lines" => repo.diff_workdir_added_lines("HEAD", ps.as_ref()).map(|_| ()),
        _ => repo.diff_workdir_added_lines_with_insertions("HEAD", ps.as_ref()).map(|_| ()),
    };
    json!({"ok": r.is_ok(), "error": r.err().map(|e| e.to_string())})
}
