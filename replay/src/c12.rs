use git_ai::git::repository::{verif_hooks, InternalGitProfile};
use serde_json::{json, Value};

pub fn profile(v: &Value) -> Value {
    let args: Vec<String> = v["args"].as_array().unwrap().iter().map(|x| x.as_str().unwrap().to_string()).collect();
    let p = match v["profile"].as_str().unwrap() {
        "General" => InternalGitProfile::General,
        "PatchParse" => InternalGitProfile::PatchParse,
        "NumstatParse" => InternalGitProfile::NumstatParse,
        "RawDiffParse" => InternalGitProfile::RawDiffParse,
        other => panic!("profile {other}"),
    };
    json!({"out": verif_hooks::args_with_internal_git_profile(&args, p)})
}

/// K3: {repo, fn, pathspecs: [..]|null}: run the real call site; the configured git is a recorder for `diff`
pub fn callsite(v: &Value) -> Value {
    let repo = git_ai::git::find_repository_in_path(v["repo"].as_str().unwrap()).expect("repo");
    let ps: Option<std::collections::HashSet<String>> = v["pathspecs"]
        .as_array()
        .map(|a| a.iter().map(|x| String::from_utf8(crate::bytes_of(x)).unwrap()).collect());
    let r = match v["fn"].as_str().unwrap() {
        "diff_added_lines" => repo.diff_added_lines("HEAD", "HEAD", ps.as_ref()).map(|_| ()),
        "diff_workdir_added_lines" => repo.diff_workdir_added_lines("HEAD", ps.as_ref()).map(|_| ()),
        _ => repo.diff_workdir_added_lines_with_insertions("HEAD", ps.as_ref()).map(|_| ()),
    };
    json!({"ok": r.is_ok(), "error": r.err().map(|e| e.to_string())})
}

/// K4: {cwd, options: [..]}: the real find_repository started in `cwd` with the user's global options; real git
/// then reports the directory (relative to the work tree root) in which the kept option vector makes it run
pub fn repo_root(v: &Value) -> Value {
    std::env::set_current_dir(v["cwd"].as_str().unwrap()).unwrap();
    let opts: Vec<String> = v["options"].as_array().unwrap().iter().map(|x| x.as_str().unwrap().to_string()).collect();
    match git_ai::git::repository::find_repository(&opts) {
        Err(e) => json!({"ok": false, "error": e.to_string()}),
        Ok(repo) => {
            let mut args = repo.global_args_for_exec();
            let kept = args.clone();
            args.push("rev-parse".to_string());
            args.push("--show-prefix".to_string());
            let o = std::process::Command::new("git").args(&args).output().unwrap();
            json!({"ok": true, "kept": kept, "prefix": String::from_utf8_lossy(&o.stdout).trim().to_string(), "git_ok": o.status.success()})
        }
    }
}
