use git_ai::authorship::authorship_log::{LineRange, PromptRecord};
use git_ai::authorship::authorship_log_serialization::{
    AttestationEntry, AuthorshipLog, FileAttestation,
};
use git_ai::authorship::working_log::AgentId;
use git_ai::commands::blame::{verif_hooks, BlameHunk, GitAiBlameOptions};
use serde_json::{json, Value};
use std::collections::HashMap;

fn prompt(tool: &str) -> PromptRecord {
    PromptRecord {
        agent_id: AgentId { tool: tool.to_string(), id: format!("id-{tool}"), model: "m".into() },
        human_author: None,
        messages: vec![],
        total_additions: 0,
        total_deletions: 0,
        accepted_lines: 0,
        overriden_lines: 0,
        messages_url: None,
    }
}

pub fn note_from(v: &Value, base: &str) -> AuthorshipLog {
    let mut log = AuthorshipLog::new();
    log.metadata.base_commit_sha = base.to_string();
    log.metadata.prompts.insert("h1h1h1h1h1h1h1h1".into(), prompt("cursor"));
    log.metadata.prompts.insert("h2h2h2h2h2h2h2h2".into(), prompt("claude"));
    for e in v.as_array().unwrap() {
        let file = e["file"].as_str().unwrap();
        let ranges: Vec<LineRange> = e["ranges"]
            .as_array()
            .unwrap()
            .iter()
            .map(|r| {
                let a = r[0].as_u64().unwrap() as u32;
                let b = r[1].as_u64().unwrap() as u32;
                // the harness writes Single(a) as [a, a]; a Range(a, a) is the same line set
                if a == b { LineRange::Single(a) } else { LineRange::Range(a, b) }
            })
            .collect();
        let fa = log.get_or_create_file(file);
        fa.add_entry(AttestationEntry::new(e["hash"].as_str().unwrap().to_string(), ranges));
    }
    let _: Option<FileAttestation> = None;
    log
}

/// {repo, note: [...], file, line}
pub fn lookup(v: &Value) -> Value {
    let repo = git_ai::git::find_repository_in_path(v["repo"].as_str().unwrap()).expect("repo");
    let log = note_from(&v["note"], "c");
    let mut cache = HashMap::new();
    let r = log.get_line_attribution(&repo, v["file"].as_str().unwrap(), v["line"].as_u64().unwrap() as u32, &mut cache);
    match r {
        None => json!({"found": false}),
        Some((author, hash, _)) => json!({"found": true, "author": author.username, "hash": hash}),
    }
}

/// {repo, file, hunks: [{final_start, orig_start, size, commit_sha}], options: {...}}
pub fn overlay(v: &Value) -> Value {
    let repo = git_ai::git::find_repository_in_path(v["repo"].as_str().unwrap()).expect("repo");
    let mut hunks = Vec::new();
    for h in v["hunks"].as_array().unwrap() {
        let fs = h["final_start"].as_u64().unwrap() as u32;
        let os = h["orig_start"].as_u64().unwrap() as u32;
        let size = h["size"].as_u64().unwrap() as u32;
        let sha = h["commit_sha"].as_str().unwrap().to_string();
        hunks.push(BlameHunk {
            range: (fs, fs + size - 1),
            orig_range: (os, os + size - 1),
            abbrev_sha: sha.chars().take(7).collect(),
            commit_sha: sha,
            original_author: "Alice".into(),
            author_email: "a@b".into(),
            author_time: 0,
            author_tz: "+0000".into(),
            ai_human_author: None,
            committer: "Alice".into(),
            committer_email: "a@b".into(),
            committer_time: 0,
            committer_tz: "+0000".into(),
            is_boundary: false,
            orig_path: h["orig_path"].as_str().map(|s| s.to_string()),
        });
    }
    let mut options = GitAiBlameOptions::default();
    options.use_prompt_hashes_as_names = v["options"]["use_prompt_hashes_as_names"].as_bool().unwrap();
    options.return_human_authors_as_human = v["options"]["return_human_authors_as_human"].as_bool().unwrap();
    options.mark_unknown = v["options"]["mark_unknown"].as_bool().unwrap();
    match verif_hooks::overlay_line_authors(&repo, &hunks, v["file"].as_str().unwrap(), &options) {
        Ok(m) => {
            let mut out: Vec<(u32, String)> = m.into_iter().collect();
            out.sort();
            json!({"ok": true, "authors": out})
        }
        Err(e) => json!({"ok": false, "error": e.to_string()}),
    }
}

/// {repo, file}: the full blame pipeline on a real history
pub fn blame(v: &Value) -> Value {
    let repo = git_ai::git::find_repository_in_path(v["repo"].as_str().unwrap()).expect("repo");
    let mut options = GitAiBlameOptions::default();
    options.no_output = true;
    options.return_human_authors_as_human = true;
    options.use_prompt_hashes_as_names = true;
    match repo.blame(v["file"].as_str().unwrap(), &options) {
        Ok((m, _)) => {
            let mut out: Vec<(u32, String)> = m.into_iter().collect();
            out.sort();
            json!({"ok": true, "authors": out})
        }
        Err(e) => json!({"ok": false, "error": e.to_string()}),
    }
}

/// {note: [...], base}: the serialized note text
pub fn note_text(v: &Value) -> Value {
    let mut log = note_from(&v["note"], v["base"].as_str().unwrap());
    if v["humans"].as_bool().unwrap_or(false) {
        // K6: session h1 was driven by Bob, session h2 names nobody
        if let Some(p) = log.metadata.prompts.get_mut("h1h1h1h1h1h1h1h1") {
            p.human_author = Some("Bob".to_string());
        }
    }
    json!({"text": log.serialize_to_string().unwrap()})
}

/// K6: {repo, file, split, hunk: {final_start, orig_start, size, commit_sha, orig_path}}
pub fn split(v: &Value) -> Value {
    let repo = git_ai::git::find_repository_in_path(v["repo"].as_str().unwrap()).expect("repo");
    let h = &v["hunk"];
    let fs = h["final_start"].as_u64().unwrap() as u32;
    let os = h["orig_start"].as_u64().unwrap() as u32;
    let size = h["size"].as_u64().unwrap() as u32;
    let sha = h["commit_sha"].as_str().unwrap().to_string();
    let hunk = BlameHunk {
        range: (fs, fs + size - 1),
        orig_range: (os, os + size - 1),
        abbrev_sha: sha.chars().take(7).collect(),
        commit_sha: sha,
        original_author: "Alice".into(),
        author_email: "a@b".into(),
        author_time: 0,
        author_tz: "+0000".into(),
        ai_human_author: None,
        committer: "Alice".into(),
        committer_email: "a@b".into(),
        committer_time: 0,
        committer_tz: "+0000".into(),
        is_boundary: false,
        orig_path: h["orig_path"].as_str().map(|s| s.to_string()),
    };
    let mut options = GitAiBlameOptions::default();
    options.split_hunks_by_ai_author = v["split"].as_bool().unwrap();
    match verif_hooks::populate_ai_human_authors(&repo, vec![hunk], v["file"].as_str().unwrap(), &options) {
        Ok(hunks) => {
            let out: Vec<Value> = hunks
                .iter()
                .map(|h| json!({"range": [h.range.0, h.range.1], "orig": [h.orig_range.0, h.orig_range.1], "sha": h.commit_sha, "orig_path": h.orig_path, "person": h.ai_human_author}))
                .collect();
            json!({"ok": true, "hunks": out})
        }
        Err(e) => json!({"ok": false, "error": e.to_string()}),
    }
}

/// K4: {repo, file, start, end}: the porcelain reader on whatever the configured git prints for `blame`
pub fn porcelain(v: &Value) -> Value {
    let repo = git_ai::git::find_repository_in_path(v["repo"].as_str().unwrap()).expect("repo");
    let options = GitAiBlameOptions::default();
    let ranges = vec![(v["start"].as_u64().unwrap() as u32, v["end"].as_u64().unwrap() as u32)];
    match repo.blame_hunks_for_ranges(v["file"].as_str().unwrap(), &ranges, &options) {
        Ok(hunks) => {
            let out: Vec<Value> = hunks
                .iter()
                .map(|h| json!({"range": [h.range.0, h.range.1], "orig": [h.orig_range.0, h.orig_range.1], "sha": h.commit_sha, "orig_path": h.orig_path}))
                .collect();
            json!({"ok": true, "hunks": out})
        }
        Err(e) => json!({"ok": false, "error": e.to_string()}),
    }
}

/// K5: {repo, lines: [n..], authors: [name..]}: prints the real JSON blame output, then one JSON line of its own
pub fn json_lines(v: &Value) -> Value {
    use git_ai::authorship::authorship_log::PromptRecord;
    use git_ai::authorship::working_log::AgentId;
    let repo = git_ai::git::find_repository_in_path(v["repo"].as_str().unwrap()).expect("repo");
    let mut la: HashMap<u32, String> = HashMap::new();
    for (l, a) in v["lines"].as_array().unwrap().iter().zip(v["authors"].as_array().unwrap().iter()) {
        la.insert(l.as_u64().unwrap() as u32, a.as_str().unwrap().to_string());
    }
    let mut prompts: HashMap<String, PromptRecord> = HashMap::new();
    for s in ["s1", "s2"] {
        prompts.insert(
            s.to_string(),
            PromptRecord {
                agent_id: AgentId { tool: "t".into(), id: format!("id-{s}"), model: "m".into() },
                human_author: None,
                messages: vec![],
                total_additions: 0,
                total_deletions: 0,
                accepted_lines: 0,
                overriden_lines: 0,
                messages_url: None,
            },
        );
    }
    let r = git_ai::commands::blame::verif_hooks::output_json_format(&repo, &la, &prompts, "f.rs");
    println!();
    json!({"ok": r.is_ok()})
}
