use crate::string_of;
use git_ai::authorship::authorship_log_serialization::AuthorshipLog;
use git_ai::authorship::rebase_authorship::verif_hooks;
use serde_json::{json, Value};
use std::collections::HashSet;
use std::path::Path;
use std::process::Command;

fn git(dir: &Path, args: &[&str]) -> String {
    let out = Command::new("git")
        .args(args)
        .current_dir(dir)
        .env("GIT_AUTHOR_NAME", "v")
        .env("GIT_AUTHOR_EMAIL", "v@v")
        .env("GIT_COMMITTER_NAME", "v")
        .env("GIT_COMMITTER_EMAIL", "v@v")
        .output()
        .unwrap();
    assert!(out.status.success(), "git {:?}: {}", args, String::from_utf8_lossy(&out.stderr));
    String::from_utf8_lossy(&out.stdout).trim().to_string()
}

struct World {
    dir: std::path::PathBuf,
    orig: Vec<String>,
    new: Vec<String>,
    p0: String,
}

/// originals o<i>: every path at content 0; rewritten n<i>: tracked path j at content bit j of diffs[i],
/// the untracked path always different
fn world(v: &Value) -> World {
    let dir = std::env::temp_dir().join(format!("vreplay-c15-{}", std::process::id()));
    let _ = std::fs::remove_dir_all(&dir);
    std::fs::create_dir_all(&dir).unwrap();
    git(&dir, &["init", "-q", "."]);
    let p0 = string_of(&v["p0"]);
    let n = v["pairs"].as_u64().unwrap() as usize;
    let mut orig = Vec::new();
    let mut new = Vec::new();
    let mut serial = 0;
    let mut commit = |a: u64, b: u64, u: u64| -> String {
        std::fs::write(dir.join(&p0), format!("{a}\n")).unwrap();
        if b == u64::MAX {
            let _ = std::fs::remove_file(dir.join("b"));
        } else {
            std::fs::write(dir.join("b"), format!("{b}\n")).unwrap();
        }
        std::fs::write(dir.join("untracked"), format!("{u}\n")).unwrap();
        serial += 1;
        std::fs::write(dir.join("serial"), format!("{serial}\n")).unwrap();
        git(&dir, &["add", "-A"]);
        git(&dir, &["commit", "-q", "--allow-empty", "-m", "c"]);
        git(&dir, &["rev-parse", "HEAD"])
    };
    for i in 0..n {
        let d = v["diffs"][i].as_u64().unwrap_or(0);
        orig.push(commit(0, 0, 0));
        if d == 4 {
            new.push(commit(0, u64::MAX, 1));
        } else {
            new.push(commit(d & 1, (d >> 1) & 1, 1));
        }
    }
    World { dir, orig, new, p0 }
}

pub fn comparator(v: &Value) -> Value {
    if !v["defect"].is_null() {
        return json!({"skipped": "a commit without metadata / with an empty tree id cannot be staged in a real repository", "failed": []});
    }
    let w = world(v);
    let repo = git_ai::git::find_repository_in_path(w.dir.to_str().unwrap()).expect("repo");
    let pairs: Vec<(String, String)> = w.orig.iter().cloned().zip(w.new.iter().cloned()).collect();
    let tracked = vec![w.p0.clone(), "b".to_string()];
    let r = verif_hooks::tracked_paths_match_for_commit_pairs(&repo, &pairs, &tracked);
    let yes = matches!(r, Ok(true));
    let all_agree = v["diffs"].as_array().map(|a| a.iter().all(|d| d.as_u64() == Some(0))).unwrap_or(true);
    let mut failed = Vec::new();
    if yes && !all_agree {
        failed.push("K1-yes-only-when-every-pair-agrees-on-every-tracked-path");
    }
    let _ = std::fs::remove_dir_all(&w.dir);
    json!({"yes": yes, "err": r.err().map(|e| e.to_string()), "failed": failed})
}

pub fn guards(v: &Value) -> Value {
    if v["notes"] == "unreadable" {
        return json!({"skipped": "an unreadable note blob cannot be staged in a real repository", "failed": []});
    }
    let w = world(v);
    let n = w.orig.len();
    let lacking = v["lacking"].as_u64().map(|x| x as usize);
    let mut notes: Vec<Option<AuthorshipLog>> = Vec::new();
    for (i, o) in w.orig.iter().enumerate() {
        if Some(i) == lacking {
            notes.push(None);
            continue;
        }
        let mut log = AuthorshipLog::new();
        log.metadata.base_commit_sha = o.clone();
        // make the notes of different originals distinguishable
        let mut fa = git_ai::authorship::authorship_log_serialization::FileAttestation::new(format!("file-of-original-{i}"));
        fa.add_entry(git_ai::authorship::authorship_log_serialization::AttestationEntry::new(
            "abcdabcdabcdabcd".to_string(),
            vec![git_ai::authorship::authorship_log::LineRange::Single(i as u32 + 1)],
        ));
        log.attestations.push(fa);
        let text = log.serialize_to_string().unwrap();
        let f = w.dir.join(".git").join("vnote");
        std::fs::write(&f, &text).unwrap();
        git(&w.dir, &["notes", "--ref=ai", "add", "-f", "-F", f.to_str().unwrap(), o]);
        notes.push(Some(log));
    }
    let repo = git_ai::git::find_repository_in_path(w.dir.to_str().unwrap()).expect("repo");
    let process: HashSet<String> = v["process"]
        .as_array()
        .unwrap()
        .iter()
        .map(|c| w.new[c.as_str().unwrap()[1..].parse::<usize>().unwrap()].clone())
        .collect();
    let variant = v["variant"].as_str().unwrap();
    let tracked: Vec<String> = if variant == "no-tracked" { vec![] } else { vec![w.p0.clone(), "b".to_string()] };
    let mut orig = w.orig.clone();
    if variant == "unequal" {
        orig.push(w.orig[0].clone());
    }
    let r = if v["which"] == "rebase" {
        let lookup: HashSet<&str> = process.iter().map(String::as_str).collect();
        verif_hooks::try_fast_path_rebase_note_remap(&repo, &orig, &w.new, &lookup, &tracked)
    } else {
        let pairs: Vec<(String, String)> = w.orig.iter().cloned().zip(w.new.iter().cloned()).collect();
        verif_hooks::try_fast_path_cherry_pick_note_remap(&repo, &pairs, &tracked)
    };
    let took = matches!(r, Ok(true));
    // what was written
    let mut written: Vec<Option<String>> = Vec::new();
    for c in &w.new {
        let out = Command::new("git").args(["notes", "--ref=ai", "show", c]).current_dir(&w.dir).output().unwrap();
        written.push(if out.status.success() { Some(String::from_utf8_lossy(&out.stdout).to_string()) } else { None });
    }
    let mut failed = Vec::new();
    let diffs: Vec<u64> = (0..n).map(|i| v["diffs"][i].as_u64().unwrap_or(0)).collect();
    if took {
        if (0..n).any(|i| process.contains(&w.new[i]) && diffs[i] != 0) {
            failed.push("K2-shortcut-only-when-precondition-holds-for-every-pair");
        }
        if variant == "unequal" || variant == "no-tracked" {
            failed.push("K2-declines-on-unequal-lists-or-no-tracked-paths");
        }
        if let Some(l) = lacking {
            if process.contains(&w.new[l]) {
                failed.push("K2-declines-when-an-original-has-no-note");
            }
        }
        let mut ok = true;
        for i in 0..n {
            let want = process.contains(&w.new[i]);
            match (&written[i], want) {
                (None, false) => {}
                (Some(text), true) => {
                    let got = AuthorshipLog::deserialize_from_string(text.trim_end_matches('\n'));
                    match (got, &notes[i]) {
                        (Ok(g), Some(o)) => {
                            let mut e = o.clone();
                            e.metadata.base_commit_sha = w.new[i].clone();
                            if g.metadata != e.metadata
                                || g.attestations.len() != e.attestations.len()
                                || g.attestations.iter().map(|a| a.file_path.clone()).collect::<Vec<_>>()
                                    != e.attestations.iter().map(|a| a.file_path.clone()).collect::<Vec<_>>()
                            {
                                ok = false;
                            }
                        }
                        _ => ok = false,
                    }
                }
                _ => ok = false,
            }
        }
        if !ok {
            failed.push("K2-each-rewritten-commit-gets-its-originals-note-with-base-updated");
        }
    } else if written.iter().any(|x| x.is_some()) {
        failed.push("K2-declining-writes-nothing");
    }
    let _ = std::fs::remove_dir_all(&w.dir);
    json!({"took": took, "err": r.err().map(|e| e.to_string()), "written": written.iter().map(|x| x.is_some()).collect::<Vec<_>>(), "failed": failed})
}
