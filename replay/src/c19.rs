use git_ai::authorship::authorship_log::{LineRange, PromptRecord};
use git_ai::authorship::authorship_log_serialization::{
    AttestationEntry, AuthorshipLog, FileAttestation,
};
use git_ai::authorship::stats;
use git_ai::authorship::working_log::AgentId;
use serde_json::{json, Value};
use std::collections::{BTreeMap, BTreeSet, HashMap};

fn prompt(tool: &str, model: &str, adds: u32, dels: u32, over: u32) -> PromptRecord {
    PromptRecord {
        agent_id: AgentId { tool: tool.to_string(), id: format!("id-{tool}"), model: model.to_string() },
        human_author: None,
        messages: vec![],
        total_additions: adds,
        total_deletions: dels,
        accepted_lines: 0,
        overriden_lines: over,
        messages_url: None,
    }
}

fn ranges(v: &Value) -> Vec<LineRange> {
    v.as_array()
        .unwrap()
        .iter()
        .map(|r| {
            if let Some(s) = r.get("s") {
                LineRange::Single(s.as_u64().unwrap() as u32)
            } else {
                LineRange::Range(r["r"][0].as_u64().unwrap() as u32, r["r"][1].as_u64().unwrap() as u32)
            }
        })
        .collect()
}

pub fn accepted(v: &Value) -> Value {
    let mut log = AuthorshipLog::new();
    log.metadata.prompts.insert("aaaaaaaaaaaaaaaa".into(), prompt("cursor", "m1", 0, 0, 0));
    let second_present = v["prompt_for_second_hash"].as_bool().unwrap_or(true);
    let same_tool = v["same_tool"].as_bool().unwrap_or(true);
    if second_present {
        log.metadata.prompts.insert(
            "bbbbbbbbbbbbbbbb".into(),
            prompt(if same_tool { "cursor" } else { "claude" }, "m1", 0, 0, 0),
        );
    }
    let mut added: HashMap<String, Vec<u32>> = HashMap::new();
    let mut expected: u32 = 0;
    let mut want_tool: BTreeMap<String, u32> = BTreeMap::new();
    let tool_of = |hash: &str| -> Option<String> {
        if hash == "aaaaaaaaaaaaaaaa" {
            Some("cursor::m1".to_string())
        } else if second_present {
            Some(if same_tool { "cursor::m1".to_string() } else { "claude::m1".to_string() })
        } else {
            None
        }
    };
    for f in v["files"].as_array().unwrap() {
        let path = f["path"].as_str().unwrap().to_string();
        let mut fa = FileAttestation::new(path.clone());
        let mut all: Vec<LineRange> = Vec::new();
        let mut per_entry: Vec<(String, Vec<LineRange>)> = Vec::new();
        for e in f["entries"].as_array().unwrap() {
            let rs = ranges(&e["ranges"]);
            all.extend(rs.clone());
            per_entry.push((e["hash"].as_str().unwrap().to_string(), rs.clone()));
            fa.add_entry(AttestationEntry::new(e["hash"].as_str().unwrap().to_string(), rs));
        }
        log.attestations.push(fa);
        if let Some(a) = f["added"].as_array() {
            let lines: Vec<u32> = a.iter().map(|x| x.as_u64().unwrap() as u32).collect();
            let covered: BTreeSet<u32> =
                lines.iter().copied().filter(|l| all.iter().any(|r| r.contains(*l))).collect();
            expected += covered.len() as u32;
            for l in &covered {
                // the last entry that lists the line (the one blame reports)
                if let Some((hash, _)) = per_entry.iter().rev().find(|(_, rs)| rs.iter().any(|r| r.contains(*l))) {
                    if let Some(t) = tool_of(hash) {
                        *want_tool.entry(t).or_insert(0) += 1;
                    }
                }
            }
            added.insert(path, lines);
        }
    }
    let (total, per_tool) = stats::verif_hooks::accepted_lines_from_attestations(Some(&log), &added, false);
    let mut failed = Vec::new();
    if total != expected {
        failed.push("S1-accepted-is-set-count");
    }
    if second_present && per_tool.values().sum::<u32>() != total {
        failed.push("S1-per-tool-sums-to-total");
    }
    let mut got_tool = per_tool.clone();
    got_tool.retain(|_, n| *n != 0);
    if got_tool != want_tool {
        failed.push("S1-tool-is-credited-with-its-sessions-lines");
    }
    json!({"total": total, "expected": expected, "per_tool": per_tool, "want_per_tool": want_tool, "failed": failed})
}

pub fn totals(v: &Value) -> Value {
    let mut log = AuthorshipLog::new();
    for (i, p) in v["prompts"].as_array().unwrap().iter().enumerate() {
        let tm = p["tool"].as_str().unwrap();
        let (tool, model) = tm.split_once("::").unwrap();
        log.metadata.prompts.insert(
            format!("{:016x}", i + 1),
            prompt(
                tool,
                model,
                p["total_additions"].as_u64().unwrap() as u32,
                p["total_deletions"].as_u64().unwrap() as u32,
                p["overriden_lines"].as_u64().unwrap() as u32,
            ),
        );
    }
    let mut by_tool: BTreeMap<String, u32> = BTreeMap::new();
    for e in v["by_tool"].as_array().unwrap() {
        by_tool.insert(e[0].as_str().unwrap().to_string(), e[1].as_u64().unwrap() as u32);
    }
    let added = v["git_added"].as_u64().unwrap() as u32;
    let deleted = v["git_deleted"].as_u64().unwrap() as u32;
    let accepted = v["ai_accepted"].as_u64().unwrap() as u32;
    let s = stats::stats_from_authorship_log(Some(&log), added, deleted, accepted, &by_tool);
    let mut failed: Vec<String> = Vec::new();
    if s.git_diff_added_lines != added || s.git_diff_deleted_lines != deleted {
        failed.push("S2-diff-totals".into());
    }
    if s.ai_accepted != accepted {
        failed.push("S2-accepted".into());
    }
    if s.human_additions.wrapping_add(s.ai_accepted) != added {
        failed.push("S2-human-plus-accepted".into());
    }
    if s.ai_additions != s.ai_accepted.wrapping_add(s.mixed_additions) {
        failed.push("S2-ai-additions".into());
    }
    if s.ai_additions > added {
        failed.push("S2-ai-additions-bounded".into());
    }
    let sum = |f: &dyn Fn(&stats::ToolModelHeadlineStats) -> u32| -> u32 {
        s.tool_model_breakdown.values().map(|t| f(t)).fold(0u32, |a, b| a.wrapping_add(b))
    };
    if sum(&|t| t.ai_accepted) != s.ai_accepted {
        failed.push("S2-breakdown-sums-ai_accepted".into());
    }
    if sum(&|t| t.mixed_additions) != s.mixed_additions {
        failed.push("S2-breakdown-sums-mixed_additions".into());
    }
    if sum(&|t| t.ai_additions) != s.ai_additions {
        failed.push("S2-breakdown-sums-ai_additions".into());
    }
    if sum(&|t| t.total_ai_additions) != s.total_ai_additions {
        failed.push("S2-breakdown-sums-total_ai_additions".into());
    }
    if sum(&|t| t.total_ai_deletions) != s.total_ai_deletions {
        failed.push("S2-breakdown-sums-total_ai_deletions".into());
    }
    if s.tool_model_breakdown.values().any(|t| t.ai_additions != t.ai_accepted.wrapping_add(t.mixed_additions)) {
        failed.push("S2-tool-ai-additions".into());
    }
    json!({"stats": serde_json::to_value(&s).unwrap(), "failed": failed})
}

/// {repo: dir, sha, ignore: [patterns], expect_added, expect_deleted}
pub fn numstat(v: &Value) -> Value {
    let repo = git_ai::git::find_repository_in_path(v["repo"].as_str().unwrap()).expect("repo");
    let pats: Vec<String> = v["ignore"].as_array().unwrap().iter().map(|x| x.as_str().unwrap().to_string()).collect();
    match stats::get_git_diff_stats(&repo, v["sha"].as_str().unwrap(), &pats) {
        Ok((a, d)) => {
            let mut failed = Vec::new();
            if a as u64 != v["expect_added"].as_u64().unwrap() {
                failed.push("S3-added-total");
            }
            if d as u64 != v["expect_deleted"].as_u64().unwrap() {
                failed.push("S3-deleted-total");
            }
            json!({"added": a, "deleted": d, "failed": failed})
        }
        Err(e) => json!({"error": e.to_string(), "failed": ["S3-ok"]}),
    }
}
