use crate::bytes_of;
use git_ai::git::repository::verif_hooks;
use serde_json::{json, Value};

pub fn added_lines(v: &Value) -> Value {
    let patch = String::from_utf8(bytes_of(&v["patch"])).expect("utf8 patch");
    let a = verif_hooks::parse_diff_added_lines(&patch);
    let b = verif_hooks::parse_diff_added_lines_with_insertions(&patch);
    match (a, b) {
        (Ok(all), Ok((all2, ins))) => json!({"ok": true, "all": all, "all2": all2, "ins": ins}),
        _ => json!({"ok": false}),
    }
}
