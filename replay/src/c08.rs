use serde_json::{json, Value};

/// K2: Config::effective_prompt_storage for a real configuration file (HOME/.git-ai/config.json, written by
/// the caller) and a scratch repository with the given remotes.
pub fn policy(v: &Value) -> Value {
    let dir = std::env::temp_dir().join(format!("vreplay-c08-{}", std::process::id()));
    let _ = std::fs::remove_dir_all(&dir);
    std::fs::create_dir_all(&dir).unwrap();
    let repo = if v["no_repo"].as_bool().unwrap_or(false) {
        None
    } else {
        let st = std::process::Command::new("git").args(["init", "-q", "."]).current_dir(&dir).output().unwrap();
        assert!(st.status.success());
        if let Some(rs) = v["remotes"].as_array() {
            for (i, r) in rs.iter().enumerate() {
                let st = std::process::Command::new("git")
                    .args(["remote", "add", &format!("r{i}"), r.as_str().unwrap()])
                    .current_dir(&dir)
                    .output()
                    .unwrap();
                assert!(st.status.success());
            }
        }
        Some(git_ai::git::find_repository_in_path(dir.to_str().unwrap()).expect("repo"))
    };
    let mode = git_ai::config::Config::get().effective_prompt_storage(&repo);
    let _ = std::fs::remove_dir_all(&dir);
    json!({"mode": mode.as_str()})
}

/// K1, step 1: {dir, prompts}: a repository with a base commit, `prompts` agent checkpoints carrying a
/// transcript, and the commit that takes their files (made by plain git). -> {parent, commit}
pub fn prepare(v: &Value) -> Value {
    let dir = std::path::PathBuf::from(v["dir"].as_str().unwrap());
    std::fs::create_dir_all(&dir).unwrap();
    let git = |args: &[&str]| {
        let o = std::process::Command::new("git")
            .args(args)
            .current_dir(&dir)
            .env("GIT_AUTHOR_NAME", "v")
            .env("GIT_AUTHOR_EMAIL", "v@v")
            .env("GIT_COMMITTER_NAME", "v")
            .env("GIT_COMMITTER_EMAIL", "v@v")
            .output()
            .unwrap();
        assert!(o.status.success(), "git {:?}: {}", args, String::from_utf8_lossy(&o.stderr));
        String::from_utf8_lossy(&o.stdout).trim().to_string()
    };
    git(&["init", "-q", "."]);
    git(&["config", "user.name", "v"]);
    git(&["config", "user.email", "v@v"]);
    std::fs::write(dir.join("base.txt"), "base\n").unwrap();
    git(&["add", "-A"]);
    git(&["commit", "-q", "-m", "base"]);
    let parent = git(&["rev-parse", "HEAD"]);
    let n = v["prompts"].as_u64().unwrap_or(1);
    for i in 0..n {
        let f = format!("f{i}.txt");
        std::fs::write(dir.join(&f), format!("ai line {i}\nai line two {i}\n")).unwrap();
        let payload = json!({
            "type": "ai_agent",
            "repo_working_dir": dir.to_str().unwrap(),
            "edited_filepaths": [f],
            "transcript": {"messages": [{"type": "user", "text": format!("QQ{i}-secret-conversation")}, {"type": "assistant", "text": "RR-secret-conversation"}]},
            "agent_name": "test-agent",
            "model": "m",
            "conversation_id": format!("conv{i}"),
        });
        std::env::set_current_dir(&dir).unwrap();
        git_ai::commands::git_ai_handlers::handle_git_ai(&["checkpoint".to_string(), "agent-v1".to_string(), "--hook-input".to_string(), payload.to_string()]);
    }
    git(&["add", "-A"]);
    git(&["commit", "-q", "-m", "next"]);
    let commit = git(&["rev-parse", "HEAD"]);
    json!({"parent": parent, "commit": commit})
}

/// K1, step 2 (its own process, so that the environment of the upload queue applies): {dir, parent, commit}
pub fn post_commit(v: &Value) -> Value {
    let dir = v["dir"].as_str().unwrap();
    let commit = v["commit"].as_str().unwrap().to_string();
    let repo = git_ai::git::find_repository_in_path(dir).expect("repo");
    let r = git_ai::authorship::post_commit::post_commit(&repo, Some(v["parent"].as_str().unwrap().to_string()), commit.clone(), "v".to_string(), true);
    let note = std::process::Command::new("git").args(["notes", "--ref=ai", "show", &commit]).current_dir(dir).output().unwrap();
    let text = String::from_utf8_lossy(&note.stdout).to_string();
    json!({"ok": r.is_ok(), "error": r.err().map(|e| e.to_string()), "note_has_conversation": text.contains("secret-conversation"), "note_len": text.len()})
}
