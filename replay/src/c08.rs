use serde_json::{json, Value};

/// K2: Config::effective_prompt_storage for a real configuration file (HOME/.git-ai/config.json, written by
/// the caller) and a scratch repository with the given remotes.
pub fn policy(v: &Value) -> Value {
    let dir = std::env::temp_dir().join(format!("vreplay-c08-{}", std::process::id()));
    let _ = std::fs::remove_dir_all(&dir);
    std::fs::create_dir_all(&dir).unwrap();
    let repo = if v["no_repo"].as_bool().unwrap_or(false) {
        None
    } else {
        let st = std::process::Command::new("git").args(["init", "-q", "."]).current_dir(&dir).output().unwrap();
        assert!(st.status.success());
        if let Some(rs) = v["remotes"].as_array() {
            for (i, r) in rs.iter().enumerate() {
                let st = std::process::Command::new("git")
                    .args(["remote", "add", &format!("r{i}"), r.as_str().unwrap()])
                    .current_dir(&dir)
                    .output()
                    .unwrap();
                assert!(st.status.success());
            }
        }
        Some(git_ai::git::find_repository_in_path(dir.to_str().unwrap()).expect("repo"))
    };
    let mode = git_ai::config::Config::get().effective_prompt_storage(&repo);
    let _ = std::fs::remove_dir_all(&dir);
    json!({"mode": mode.as_str()})
}

/// K1: the real post_commit on a scratch repository whose working log holds an agent checkpoint with a
/// transcript. Configuration (HOME/.git-ai/config.json), GIT_AI_API_BASE_URL and the database path are set by
/// the caller. {prompts: n}
pub fn post_commit(v: &Value) -> Value {
    let dir = std::env::temp_dir().join(format!("vreplay-c08p-{}", std::process::id()));
    let _ = std::fs::remove_dir_all(&dir);
    std::fs::create_dir_all(&dir).unwrap();
    let git = |args: &[&str]| {
        let o = std::process::Command::new("git")
            .args(args)
            .current_dir(&dir)
            .env("GIT_AUTHOR_NAME", "v")
            .env("GIT_AUTHOR_EMAIL", "v@v")
            .env("GIT_COMMITTER_NAME", "v")
            .env("GIT_COMMITTER_EMAIL", "v@v")
            .output()
            .unwrap();
        assert!(o.status.success(), "git {:?}: {}", args, String::from_utf8_lossy(&o.stderr));
        String::from_utf8_lossy(&o.stdout).trim().to_string()
    };
    git(&["init", "-q", "."]);
    git(&["config", "user.name", "v"]);
    git(&["config", "user.email", "v@v"]);
    std::fs::write(dir.join("base.txt"), "base\n").unwrap();
    git(&["add", "-A"]);
    git(&["commit", "-q", "-m", "base"]);
    let parent = git(&["rev-parse", "HEAD"]);
    let n = v["prompts"].as_u64().unwrap_or(1);
    for i in 0..n {
        let f = format!("f{i}.txt");
        std::fs::write(dir.join(&f), format!("ai line {i}\nai line two {i}\n")).unwrap();
        let payload = json!({
            "type": "ai_agent",
            "repo_working_dir": dir.to_str().unwrap(),
            "edited_filepaths": [f],
            "transcript": {"messages": [{"type": "user", "text": format!("QQ{i}-secret-conversation")}, {"type": "assistant", "text": "RR-secret-conversation"}]},
            "agent_name": "test-agent",
            "model": "m",
            "conversation_id": format!("conv{i}"),
        });
        std::env::set_current_dir(&dir).unwrap();
        git_ai::commands::git_ai_handlers::handle_git_ai(&["checkpoint".to_string(), "agent-v1".to_string(), "--hook-input".to_string(), payload.to_string()]);
    }
    git(&["add", "-A"]);
    git(&["commit", "-q", "-m", "next"]);
    let commit = git(&["rev-parse", "HEAD"]);
    if let Some(p) = v["break_db_after_checkpoint"].as_str() {
        // SAFETY: single-threaded replay binary
        unsafe {
            std::env::set_var("GIT_AI_TEST_DB_PATH", p);
            std::env::set_var("GITAI_TEST_DB_PATH", p);
        }
    }
    let repo = git_ai::git::find_repository_in_path(dir.to_str().unwrap()).expect("repo");
    let r = git_ai::authorship::post_commit::post_commit(&repo, Some(parent), commit.clone(), "v".to_string(), true);
    let note = std::process::Command::new("git").args(["notes", "--ref=ai", "show", &commit]).current_dir(&dir).output().unwrap();
    let text = String::from_utf8_lossy(&note.stdout).to_string();
    let _ = std::fs::remove_dir_all(&dir);
    json!({"ok": r.is_ok(), "error": r.err().map(|e| e.to_string()), "note_has_conversation": text.contains("secret-conversation"), "note_len": text.len()})
}
