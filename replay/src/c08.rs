use serde_json::{json, Value};

/// K2: Config::effective_prompt_storage for a real configuration file (HOME/.git-ai/config.json, written by
/// the caller) and a scratch repository with the given remotes.
pub fn policy(v: &Value) -> Value {
    let dir = std::env::temp_dir().join(format!("vreplay-c08-{}", std::process::id()));
    let _ = std::fs::remove_dir_all(&dir);
    std::fs::create_dir_all(&dir).unwrap();
    let repo = if v["no_repo"].as_bool().unwrap_or(false) {
        None
    } else {
        let st = std::process::Command::new("git").args(["init", "-q", "."]).current_dir(&dir).output().unwrap();
        assert!(st.status.success());
        if let Some(rs) = v["remotes"].as_array() {
            for (i, r) in rs.iter().enumerate() {
                let st = std::process::Command::new("git")
                    .args(["remote", "add", &format!("r{i}"), r.as_str().unwrap()])
                    .current_dir(&dir)
                    .output()
                    .unwrap();
                assert!(st.status.success());
            }
        }
        Some(git_ai::git::find_repository_in_path(dir.to_str().unwrap()).expect("repo"))
    };
    let mode = git_ai::config::Config::get().effective_prompt_storage(&repo);
    let _ = std::fs::remove_dir_all(&dir);
    json!({"mode": mode.as_str()})
}
