use crate::bytes_of;
use git_ai::commands::git_handlers::verif_hooks;
use serde_json::{json, Value};

/// {args: [...], override: bytes|null}; the configured git (HOME/.git-ai/config.json) is a recorder script
pub fn handoff(v: &Value) -> Value {
    let args: Vec<String> = v["args"].as_array().unwrap().iter().map(|a| String::from_utf8(bytes_of(a)).unwrap()).collect();
    let ov: Option<String> = if v["override"].is_null() { None } else { Some(String::from_utf8(bytes_of(&v["override"])).unwrap()) };
    let exit_on_completion = v["exit_on_completion"].as_bool().unwrap_or(false);
    // with exit_on_completion the wrapper ends this process itself (exit_with_status): the caller observes how
    let st = verif_hooks::proxy_to_git(&args, exit_on_completion, ov.as_deref());
    #[cfg(unix)]
    let sig = {
        use std::os::unix::process::ExitStatusExt;
        st.signal()
    };
    #[cfg(not(unix))]
    let sig: Option<i32> = None;
    json!({"code": st.code(), "signal": sig})
}
