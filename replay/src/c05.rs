use git_ai::authorship::attribution_tracker::{Attribution, LineAttribution};
use git_ai::authorship::authorship_log::LineRange;
use git_ai::authorship::authorship_log_serialization::{
    AttestationEntry, AuthorshipLog, FileAttestation,
};
use git_ai::authorship::rebase_authorship::verif_hooks;
use git_ai::authorship::virtual_attribution::VirtualAttributions;
use serde_json::{json, Value};
use std::collections::{BTreeMap, BTreeSet, HashMap, HashSet};

fn lattrs(v: &Value) -> Vec<LineAttribution> {
    v.as_array()
        .unwrap()
        .iter()
        .map(|x| {
            LineAttribution::new(
                x[0].as_u64().unwrap() as u32,
                x[1].as_u64().unwrap() as u32,
                x[2].as_str().unwrap().to_string(),
                None,
            )
        })
        .collect()
}

/// obligations on one file attestation; returns the failed suffixes
fn check(fa: &FileAttestation, input: &[LineAttribution]) -> Vec<&'static str> {
    let mut failed = Vec::new();
    let mut wf = true;
    let mut seen = HashSet::new();
    let mut listed: HashMap<String, BTreeSet<u64>> = HashMap::new();
    let mut one_based_out = true;
    for e in &fa.entries {
        if e.hash == "human" || !seen.insert(e.hash.clone()) || e.line_ranges.is_empty() {
            wf = false;
        }
        let mut prev: Option<u32> = None;
        for r in &e.line_ranges {
            let (a, b) = match r {
                LineRange::Single(l) => (*l, *l),
                LineRange::Range(s, e2) => {
                    if s >= e2 {
                        wf = false;
                    }
                    (*s, *e2)
                }
            };
            if a < 1 {
                one_based_out = false;
            }
            if let Some(p) = prev {
                if !(a > p && a - p > 1) {
                    wf = false;
                }
            }
            prev = Some(b);
            // sample the endpoints and their neighbours instead of expanding huge ranges
            for x in [a as u64, b as u64, (a as u64 + b as u64) / 2] {
                listed.entry(e.hash.clone()).or_default().insert(x);
            }
        }
    }
    if !wf {
        failed.push("-ranges-wellformed");
    }
    // same lines: check at every endpoint of inputs and outputs and their neighbours
    let mut probes: BTreeSet<u64> = BTreeSet::new();
    for la in input {
        for x in [la.start_line as u64, la.end_line as u64] {
            probes.insert(x);
            probes.insert(x + 1);
            probes.insert(x.saturating_sub(1));
        }
    }
    for e in &fa.entries {
        for r in &e.line_ranges {
            let (a, b) = match r {
                LineRange::Single(l) => (*l, *l),
                LineRange::Range(s, e2) => (*s, *e2),
            };
            for x in [a as u64, b as u64] {
                probes.insert(x);
                probes.insert(x + 1);
                probes.insert(x.saturating_sub(1));
            }
        }
    }
    let mut same = true;
    for who in ["s1", "s2"] {
        for &l in &probes {
            if l > u32::MAX as u64 {
                continue;
            }
            let l = l as u32;
            let want = input.iter().any(|la| la.author_id == who && la.start_line <= l && l <= la.end_line);
            let got = fa.entries.iter().any(|e| e.hash == who && e.line_ranges.iter().any(|r| r.contains(l)));
            if want != got {
                same = false;
            }
        }
    }
    if !same {
        failed.push("-same-lines");
    }
    if input.iter().all(|la| la.start_line >= 1) && !one_based_out {
        failed.push("-one-based");
    }
    failed
}

pub fn ranges(v: &Value) -> Value {
    let input = lattrs(&v["line_attributions"]);
    let has_ai = input.iter().any(|l| l.author_id != "human");
    let mut failed: Vec<String> = Vec::new();
    if v["fn"].as_str() == Some("build") {
        match verif_hooks::build_file_attestation_from_line_attributions("f.txt", &input) {
            None => {
                if has_ai {
                    failed.push("K1-build-some-iff-ai".into());
                }
            }
            Some(fa) => {
                if !has_ai {
                    failed.push("K1-build-some-iff-ai".into());
                }
                if fa.file_path != "f.txt" {
                    failed.push("K1-file-name".into());
                }
                failed.extend(check(&fa, &input).into_iter().map(|s| s.to_string()));
            }
        }
    } else {
        let dir = std::env::temp_dir();
        let _ = dir;
        let repo = git_ai::git::find_repository_in_path(v["repo"].as_str().unwrap_or(".")).expect("repo");
        let mut attributions: HashMap<String, (Vec<Attribution>, Vec<LineAttribution>)> = HashMap::new();
        attributions.insert("f.txt".into(), (Vec::new(), input.clone()));
        let va = VirtualAttributions::new(repo, "c0mmit".into(), attributions, HashMap::new(), 1);
        let log = va.to_authorship_log().expect("to_authorship_log");
        if log.metadata.base_commit_sha != "c0mmit" {
            failed.push("K1-base-is-argument".into());
        }
        if log.attestations.is_empty() {
            if has_ai {
                failed.push("K1-va-some-iff-ai".into());
            }
        } else {
            if log.attestations.len() != 1 {
                failed.push("K1-one-attestation-per-file".into());
            }
            failed.extend(check(&log.attestations[0], &input).into_iter().map(|s| s.to_string()));
        }
    }
    json!({"failed": failed})
}

pub fn upsert(v: &Value) -> Value {
    let input = lattrs(&v["line_attributions"]);
    let exists = v["file_exists"].as_bool().unwrap();
    let mut log = AuthorshipLog::new();
    let mut other = FileAttestation::new("other.txt".into());
    other.add_entry(AttestationEntry::new("s1".into(), vec![LineRange::Single(7)]));
    log.attestations.push(other);
    if v["prior"].as_bool().unwrap() {
        let mut f = FileAttestation::new("f.txt".into());
        f.add_entry(AttestationEntry::new("s2".into(), vec![LineRange::Range(1, 9)]));
        log.attestations.push(f);
    }
    verif_hooks::upsert_file_attestation(&mut log, "f.txt", &input, exists);
    let has_ai = input.iter().any(|l| l.author_id != "human");
    let mut failed: Vec<String> = Vec::new();
    if log.attestations.iter().filter(|f| f.file_path == "other.txt").count() != 1 {
        failed.push("K1-upsert-keeps-other-files".into());
    }
    let n = log.attestations.iter().filter(|f| f.file_path == "f.txt").count();
    if n != usize::from(exists && has_ai) {
        failed.push("K1-upsert-one-attestation".into());
    }
    for f in log.attestations.iter().filter(|f| f.file_path == "f.txt") {
        failed.extend(check(f, &input).into_iter().map(|s| s.to_string()));
    }
    json!({"failed": failed})
}

pub fn state(v: &Value) -> Value {
    let a = lattrs(&v["f.txt"]);
    let b = lattrs(&v["gone.txt"]);
    let mut attributions: HashMap<String, (Vec<Attribution>, Vec<LineAttribution>)> = HashMap::new();
    attributions.insert("f.txt".into(), (Vec::new(), a.clone()));
    attributions.insert("gone.txt".into(), (Vec::new(), b));
    let mut existing = HashSet::new();
    existing.insert("f.txt".to_string());
    let log = verif_hooks::build_authorship_log_from_state("deadbeef", &BTreeMap::new(), &attributions, &existing);
    let mut failed: Vec<String> = Vec::new();
    if log.metadata.base_commit_sha != "deadbeef" {
        failed.push("K1-base-is-argument".into());
    }
    if log.attestations.iter().any(|f| f.file_path == "gone.txt") {
        failed.push("K1-only-existing-files".into());
    }
    let has_ai = a.iter().any(|l| l.author_id != "human");
    if log.attestations.iter().filter(|f| f.file_path == "f.txt").count() != usize::from(has_ai) {
        failed.push("K1-one-attestation-per-file".into());
    }
    for f in log.attestations.iter().filter(|f| f.file_path == "f.txt") {
        failed.extend(check(f, &a).into_iter().map(|s| s.to_string()));
    }
    json!({"failed": failed})
}

pub fn compress(v: &Value) -> Value {
    let lines: Vec<u32> = v["lines"].as_array().unwrap().iter().map(|x| x.as_u64().unwrap() as u32).collect();
    let rs = LineRange::compress_lines(&lines);
    let mut failed: Vec<String> = Vec::new();
    let mut prev: Option<u32> = None;
    let mut listed: BTreeSet<u32> = BTreeSet::new();
    for r in &rs {
        let (a, b) = match r {
            LineRange::Single(l) => (*l, *l),
            LineRange::Range(s, e) => {
                if s >= e {
                    failed.push("K1-compress-wellformed".into());
                }
                (*s, *e)
            }
        };
        if let Some(p) = prev {
            if !(a > p && a - p > 1) {
                failed.push("K1-compress-wellformed".into());
            }
        }
        prev = Some(b);
        if b - a < 100000 {
            listed.extend(a..=b);
        }
    }
    let want: BTreeSet<u32> = lines.iter().copied().collect();
    if listed != want {
        failed.push("K1-compress-same-lines".into());
    }
    json!({"failed": failed})
}

/// K3: {entries: [[commit index 0..2, text]..], existing: ["none"|"flat"|"fanout" x3]} on a real repository
pub fn notes_batch(v: &Value) -> Value {
    let dir = std::env::temp_dir().join(format!("vreplay-c05n-{}", std::process::id()));
    let _ = std::fs::remove_dir_all(&dir);
    std::fs::create_dir_all(&dir).unwrap();
    let git_in = |args: &[&str], input: Option<&[u8]>| -> String {
        use std::io::Write;
        let mut c = std::process::Command::new("git");
        c.args(args)
            .current_dir(&dir)
            .env("GIT_AUTHOR_NAME", "v")
            .env("GIT_AUTHOR_EMAIL", "v@v")
            .env("GIT_COMMITTER_NAME", "v")
            .env("GIT_COMMITTER_EMAIL", "v@v")
            .stdin(std::process::Stdio::piped())
            .stdout(std::process::Stdio::piped())
            .stderr(std::process::Stdio::piped());
        let mut ch = c.spawn().unwrap();
        if let Some(i) = input {
            ch.stdin.as_mut().unwrap().write_all(i).unwrap();
        }
        drop(ch.stdin.take());
        let o = ch.wait_with_output().unwrap();
        assert!(o.status.success(), "git {:?}: {}", args, String::from_utf8_lossy(&o.stderr));
        String::from_utf8_lossy(&o.stdout).trim().to_string()
    };
    git_in(&["init", "-q", "."], None);
    git_in(&["config", "user.name", "v"], None);
    git_in(&["config", "user.email", "v@v"], None);
    let mut shas = Vec::new();
    for i in 0..3 {
        std::fs::write(dir.join("f"), format!("{i}\n")).unwrap();
        git_in(&["add", "-A"], None);
        git_in(&["commit", "-q", "-m", "c"], None);
        shas.push(git_in(&["rev-parse", "HEAD"], None));
    }
    // existing notes, laid out the way git may have laid them out
    let mut stream = String::new();
    let mut any = false;
    let mut body = String::new();
    for (i, sha) in shas.iter().enumerate() {
        let text = format!("old-{i}");
        let path = match v["existing"][i].as_str().unwrap_or("none") {
            "flat" => sha.clone(),
            "fanout" => format!("{}/{}", &sha[..2], &sha[2..]),
            _ => continue,
        };
        any = true;
        body.push_str(&format!("M 100644 inline {}\ndata {}\n{}\n", path, text.len(), text));
    }
    if any {
        stream.push_str("commit refs/notes/ai\ncommitter v <v@v> 1700000000 +0000\ndata 0\n");
        stream.push_str(&body);
        stream.push('\n');
        git_in(&["fast-import", "--quiet"], Some(stream.as_bytes()));
    }
    let repo = git_ai::git::find_repository_in_path(dir.to_str().unwrap()).expect("repo");
    let entries: Vec<(String, String)> = v["entries"]
        .as_array()
        .unwrap()
        .iter()
        .map(|e| (shas[e[0].as_u64().unwrap() as usize].clone(), e[1].as_str().unwrap().to_string()))
        .collect();
    let r = git_ai::git::refs::notes_add_batch(&repo, &entries);
    let listing = git_in(&["ls-tree", "-r", "--name-only", "refs/notes/ai"], None);
    let mut per: Vec<Value> = Vec::new();
    for sha in &shas {
        let paths: Vec<String> = listing.lines().filter(|p| p.replace('/', "") == *sha).map(|p| p.to_string()).collect();
        let texts: Vec<String> = paths
            .iter()
            .map(|p| git_in(&["cat-file", "-p", &format!("refs/notes/ai:{p}")], None))
            .collect();
        per.push(json!({"paths": paths, "texts": texts}));
    }
    let _ = std::fs::remove_dir_all(&dir);
    json!({"ok": r.is_ok(), "error": r.err().map(|e| e.to_string()), "commits": per})
}

/// {file, sessions: [[hash, [line..]]..], base, records: [hash..]}: the text of a note attesting those lines
pub fn note_text(v: &Value) -> Value {
    use git_ai::authorship::authorship_log::{LineRange, PromptRecord};
    use git_ai::authorship::authorship_log_serialization::{AttestationEntry, AuthorshipLog};
    use git_ai::authorship::working_log::AgentId;
    let mut log = AuthorshipLog::new();
    log.metadata.base_commit_sha = v["base"].as_str().unwrap().to_string();
    for r in v["records"].as_array().unwrap() {
        let h = r.as_str().unwrap();
        log.metadata.prompts.insert(
            h.to_string(),
            PromptRecord {
                agent_id: AgentId { tool: format!("tool-{h}"), id: format!("id-{h}"), model: "m".into() },
                human_author: None,
                messages: vec![],
                total_additions: 0,
                total_deletions: 0,
                accepted_lines: 0,
                overriden_lines: 0,
                messages_url: None,
            },
        );
    }
    let file = v["file"].as_str().unwrap();
    for s in v["sessions"].as_array().unwrap() {
        let lines: Vec<u32> = s[1].as_array().unwrap().iter().map(|x| x.as_u64().unwrap() as u32).collect();
        let fa = log.get_or_create_file(file);
        fa.add_entry(AttestationEntry::new(s[0].as_str().unwrap().to_string(), LineRange::compress_lines(&lines)));
    }
    json!({"text": log.serialize_to_string().unwrap()})
}

/// K4: {repo, original_head, originals: [sha..], news: [sha..]}: the real slow-path rewrite
pub fn rebase_loop(v: &Value) -> Value {
    let repo = git_ai::git::find_repository_in_path(v["repo"].as_str().unwrap()).expect("repo");
    let list = |k: &str| -> Vec<String> { v[k].as_array().unwrap().iter().map(|x| x.as_str().unwrap().to_string()).collect() };
    let r = git_ai::authorship::rebase_authorship::rewrite_authorship_after_rebase_v2(
        &repo,
        v["original_head"].as_str().unwrap(),
        &list("originals"),
        &list("news"),
        "Human",
    );
    json!({"ok": r.is_ok(), "error": r.err().map(|e| e.to_string())})
}
