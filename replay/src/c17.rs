use crate::{bytes_of, string_of};
use git_ai::authorship::authorship_log::LineRange;
use git_ai::authorship::authorship_log_serialization::{
    AttestationEntry, AuthorshipLog, FileAttestation,
};
use serde_json::{json, Value};

fn build(v: &Value) -> AuthorshipLog {
    let mut log = AuthorshipLog::new();
    log.metadata.base_commit_sha = string_of(&v["base_sha"]);
    for f in v["files"].as_array().unwrap() {
        let mut fa = FileAttestation::new(string_of(&f["path"]));
        for e in f["entries"].as_array().unwrap() {
            let mut ranges = Vec::new();
            for r in e["ranges"].as_array().unwrap() {
                if let Some(s) = r.get("s") {
                    ranges.push(LineRange::Single(s.as_u64().unwrap() as u32));
                } else {
                    let a = r["r"][0].as_u64().unwrap() as u32;
                    let b = r["r"][1].as_u64().unwrap() as u32;
                    ranges.push(LineRange::Range(a, b));
                }
            }
            fa.add_entry(AttestationEntry::new(string_of(&e["hash"]), ranges));
        }
        log.attestations.push(fa);
    }
    log
}

fn sorted(mut v: Vec<LineRange>) -> Vec<LineRange> {
    v.sort();
    v
}

/// same files (with >= 1 entry) in order, same hashes, same multiset of ranges per entry, same metadata
fn equivalent(a: &AuthorshipLog, b: &AuthorshipLog) -> bool {
    let fa: Vec<&FileAttestation> = a.attestations.iter().filter(|f| f.entries.iter().any(|e| !e.line_ranges.is_empty())).collect();
    let fb: Vec<&FileAttestation> = b.attestations.iter().collect();
    if fa.len() != fb.len() {
        return false;
    }
    for (x, y) in fa.iter().zip(fb.iter()) {
        let live: Vec<&AttestationEntry> = x.entries.iter().filter(|e| !e.line_ranges.is_empty()).collect();
        if x.file_path != y.file_path || live.len() != y.entries.len() {
            return false;
        }
        for (u, w) in live.iter().zip(y.entries.iter()) {
            if u.hash != w.hash || sorted(u.line_ranges.clone()) != sorted(w.line_ranges.clone()) {
                return false;
            }
        }
    }
    a.metadata == b.metadata
}

/// the standard's attestation grammar, written independently of the serializer.
/// Quotes are required for paths containing space, tab or newline and permitted otherwise,
/// so every permitted quoting is generated.
fn reference_attestations(log: &AuthorshipLog) -> Vec<String> {
    let n = log.attestations.len();
    let mut all = Vec::new();
    for mask in 0..(1u32 << n) {
        let mut out = String::new();
        let mut ok = true;
        for (i, f) in log.attestations.iter().enumerate() {
            let p = &f.file_path;
            let must = p.contains(' ') || p.contains('\t') || p.contains('\n');
            let quoted = mask & (1 << i) != 0;
            if must && !quoted {
                ok = false;
                break;
            }
            if quoted {
                out.push('"');
                out.push_str(p);
                out.push('"');
            } else {
                out.push_str(p);
            }
            out.push('\n');
            for e in &f.entries {
                if e.line_ranges.is_empty() {
                    continue;
                }
                out.push_str("  ");
                out.push_str(&e.hash);
                out.push(' ');
                let mut rs = e.line_ranges.clone();
                rs.sort_by_key(|r| match r {
                    LineRange::Single(l) => *l,
                    LineRange::Range(s, _) => *s,
                });
                let parts: Vec<String> = rs
                    .iter()
                    .map(|r| match r {
                        LineRange::Single(l) => format!("{}", l),
                        LineRange::Range(s, e) => format!("{}-{}", s, e),
                    })
                    .collect();
                out.push_str(&parts.join(","));
                out.push('\n');
            }
        }
        if ok {
            out.push_str("---\n");
            all.push(out);
        }
    }
    all
}

pub fn roundtrip(v: &Value) -> Value {
    let log = build(v);
    let text = match log.serialize_to_string() {
        Ok(t) => t,
        Err(_) => return json!({"serialize_ok": false, "roundtrip_ok": false, "grammar_ok": false}),
    };
    let grammar_ok = reference_attestations(&log).iter().any(|reference| {
        text.starts_with(reference.as_str())
            && serde_json::from_str::<Value>(&text[reference.len()..]).map(|j| j.is_object()).unwrap_or(false)
    });
    match AuthorshipLog::deserialize_from_string(&text) {
        Ok(back) => {
            let eq = equivalent(&log, &back);
            json!({"serialize_ok": true, "deserialize_ok": true, "roundtrip_ok": eq, "grammar_ok": grammar_ok, "text": text})
        }
        Err(e) => json!({"serialize_ok": true, "deserialize_ok": false, "roundtrip_ok": false, "grammar_ok": grammar_ok,
                         "error": e.to_string(), "text": text}),
    }
}

pub fn parse(v: &Value) -> Value {
    let text = String::from_utf8(bytes_of(&v["text"])).expect("utf8");
    match AuthorshipLog::deserialize_from_string(&text) {
        Ok(l) => json!({"ok": true, "files": l.attestations.len()}),
        Err(e) => json!({"ok": false, "error": e.to_string()}),
    }
}

pub fn remap(v: &Value) -> Value {
    let log = build(v);
    let target = string_of(&v["target"]);
    let text = log.serialize_to_string().expect("serialize");
    let out = git_ai::authorship::rebase_authorship::verif_hooks::remap_note_content_for_target_commit(&text, &target);
    match AuthorshipLog::deserialize_from_string(&out) {
        Ok(back) => {
            let mut want = log.clone();
            want.metadata.base_commit_sha = target.clone();
            json!({"parses": true, "holds": equivalent(&want, &back), "out": out})
        }
        Err(e) => json!({"parses": false, "holds": false, "error": e.to_string(), "out": out}),
    }
}
