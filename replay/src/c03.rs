use git_ai::authorship::attribution_tracker::LineAttribution;
use git_ai::authorship::working_log::{Checkpoint, CheckpointKind, WorkingLogEntry};
use git_ai::commands::hooks::checkout_hooks::verif_hooks;
use serde_json::{json, Value};
use std::collections::HashMap;

fn scratch_repo() -> (std::path::PathBuf, git_ai::git::repository::Repository) {
    let dir = std::env::temp_dir().join(format!("vreplay-c03-{}", std::process::id()));
    let _ = std::fs::remove_dir_all(&dir);
    std::fs::create_dir_all(&dir).unwrap();
    let st = std::process::Command::new("git").args(["init", "-q", "."]).current_dir(&dir).output().unwrap();
    assert!(st.status.success());
    let repo = git_ai::git::find_repository_in_path(dir.to_str().unwrap()).expect("repo");
    (dir, repo)
}

fn seed(v: &Value, wl: &git_ai::git::repo_storage::PersistedWorkingLog) -> HashMap<String, (u32, u32)> {
    let mut files: HashMap<String, Vec<LineAttribution>> = HashMap::new();
    let mut lines = HashMap::new();
    for (f, se) in v["initial"].as_object().unwrap() {
        let s = se[0].as_u64().unwrap() as u32;
        let e = se[1].as_u64().unwrap() as u32;
        lines.insert(f.clone(), (s, e));
        files.insert(f.clone(), vec![LineAttribution::new(s, e, "s1".into(), None)]);
    }
    if !files.is_empty() {
        wl.write_initial_attributions(files, HashMap::new()).unwrap();
    }
    let mut cks = Vec::new();
    for (i, c) in v["checkpoints"].as_array().unwrap().iter().enumerate() {
        let entries: Vec<WorkingLogEntry> = c
            .as_array()
            .unwrap()
            .iter()
            .enumerate()
            .map(|(j, f)| {
                WorkingLogEntry::new(
                    f.as_str().unwrap().to_string(),
                    format!("b{i}{j}"),
                    vec![],
                    vec![LineAttribution::new(1, 1, "s1".into(), None)],
                )
            })
            .collect();
        cks.push(Checkpoint::new(CheckpointKind::AiAgent, "d".into(), "ai".into(), entries));
    }
    wl.write_all_checkpoints(&cks).unwrap();
    lines
}

fn matches(file: &str, specs: &[String]) -> bool {
    specs.iter().any(|p| file == p || (p.ends_with('/') && file.starts_with(p.as_str())) || file.starts_with(&format!("{p}/")))
}

pub fn checkout_paths(v: &Value) -> Value {
    let (dir, repo) = scratch_repo();
    let wl = repo.storage.working_log_for_base_commit("head");
    let lines = seed(v, &wl);
    let specs: Vec<String> = v["pathspecs"].as_array().unwrap().iter().map(|x| x.as_str().unwrap().to_string()).collect();
    verif_hooks::remove_attributions_for_pathspecs(&repo, "head", &specs);
    let init = wl.read_initial_attributions();
    let cks = wl.read_all_checkpoints();
    let mut failed: Vec<&str> = Vec::new();
    if !specs.iter().any(|s| s == ".") {
        if init.files.keys().any(|f| matches(f, &specs)) {
            failed.push("K2-checked-out-paths-leave-INITIAL");
        }
        for (f, (s, e)) in &lines {
            if matches(f, &specs) {
                continue;
            }
            match init.files.get(f) {
                Some(l) if l.len() == 1 && l[0].start_line == *s && l[0].end_line == *e => {}
                _ => failed.push("K2-other-paths-untouched-in-INITIAL"),
            }
        }
        match cks {
            Err(_) => failed.push("K2-checkpoints-readable"),
            Ok(c) => {
                let flat: Vec<String> = c.iter().flat_map(|x| x.entries.iter().map(|e| e.file.clone())).collect();
                if flat.iter().any(|f| matches(f, &specs)) {
                    failed.push("K2-checked-out-paths-leave-checkpoints");
                }
                let want: Vec<String> = v["checkpoints"]
                    .as_array()
                    .unwrap()
                    .iter()
                    .flat_map(|c| c.as_array().unwrap().iter().map(|f| f.as_str().unwrap().to_string()))
                    .filter(|f| !matches(f, &specs))
                    .collect();
                if flat != want {
                    failed.push("K2-other-checkpoint-entries-untouched");
                }
            }
        }
    }
    let named: Vec<String> = init.files.keys().cloned().collect();
    let _ = std::fs::remove_dir_all(&dir);
    json!({"failed": failed, "initial_names": named})
}

pub fn reset(v: &Value) -> Value {
    let (dir, repo) = scratch_repo();
    let wl = repo.storage.working_log_for_base_commit("head");
    seed(v, &wl);
    let r = wl.reset_working_log();
    let init = wl.read_initial_attributions();
    let cks = wl.read_all_checkpoints();
    let mut failed: Vec<&str> = Vec::new();
    if r.is_err() {
        failed.push("K2-reset-ok");
    }
    if !init.files.is_empty() {
        failed.push("K2-reset-clears-INITIAL");
    }
    if !matches!(cks, Ok(ref c) if c.is_empty()) {
        failed.push("K2-reset-clears-checkpoints");
    }
    let _ = std::fs::remove_dir_all(&dir);
    json!({"failed": failed})
}
