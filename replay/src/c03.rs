use git_ai::authorship::attribution_tracker::LineAttribution;
use git_ai::authorship::working_log::{Checkpoint, CheckpointKind, WorkingLogEntry};
use git_ai::commands::hooks::checkout_hooks::verif_hooks;
use serde_json::{json, Value};
use std::collections::HashMap;

fn scratch_repo() -> (std::path::PathBuf, git_ai::git::repository::Repository) {
    let dir = std::env::temp_dir().join(format!("vreplay-c03-{}", std::process::id()));
    let _ = std::fs::remove_dir_all(&dir);
    std::fs::create_dir_all(&dir).unwrap();
    let st = std::process::Command::new("git").args(["init", "-q", "."]).current_dir(&dir).output().unwrap();
    assert!(st.status.success());
    let repo = git_ai::git::find_repository_in_path(dir.to_str().unwrap()).expect("repo");
    (dir, repo)
}

fn seed(v: &Value, wl: &git_ai::git::repo_storage::PersistedWorkingLog) -> HashMap<String, (u32, u32)> {
    let mut files: HashMap<String, Vec<LineAttribution>> = HashMap::new();
    let mut lines = HashMap::new();
    for (f, se) in v["initial"].as_object().unwrap() {
        let s = se[0].as_u64().unwrap() as u32;
        let e = se[1].as_u64().unwrap() as u32;
        lines.insert(f.clone(), (s, e));
        files.insert(f.clone(), vec![LineAttribution::new(s, e, "s1".into(), None)]);
    }
    if !files.is_empty() {
        wl.write_initial_attributions(files, HashMap::new()).unwrap();
    }
    let mut cks = Vec::new();
    for (i, c) in v["checkpoints"].as_array().unwrap().iter().enumerate() {
        let entries: Vec<WorkingLogEntry> = c
            .as_array()
            .unwrap()
            .iter()
            .enumerate()
            .map(|(j, f)| {
                WorkingLogEntry::new(
                    f.as_str().unwrap().to_string(),
                    format!("b{i}{j}"),
                    vec![],
                    vec![LineAttribution::new(1, 1, "s1".into(), None)],
                )
            })
            .collect();
        cks.push(Checkpoint::new(CheckpointKind::AiAgent, "d".into(), "ai".into(), entries));
    }
    wl.write_all_checkpoints(&cks).unwrap();
    lines
}

fn matches(file: &str, specs: &[String]) -> bool {
    specs.iter().any(|p| file == p || (p.ends_with('/') && file.starts_with(p.as_str())) || file.starts_with(&format!("{p}/")))
}

pub fn checkout_paths(v: &Value) -> Value {
    let (dir, repo) = scratch_repo();
    let wl = repo.storage.working_log_for_base_commit("head");
    let lines = seed(v, &wl);
    let specs: Vec<String> = v["pathspecs"].as_array().unwrap().iter().map(|x| x.as_str().unwrap().to_string()).collect();
    verif_hooks::remove_attributions_for_pathspecs(&repo, "head", &specs);
    let init = wl.read_initial_attributions();
    let cks = wl.read_all_checkpoints();
    let mut failed: Vec<&str> = Vec::new();
    if !specs.iter().any(|s| s == ".") {
        if init.files.keys().any(|f| matches(f, &specs)) {
            failed.push("K2-checked-out-paths-leave-INITIAL");
        }
        for (f, (s, e)) in &lines {
            if matches(f, &specs) {
                continue;
            }
            match init.files.get(f) {
                Some(l) if l.len() == 1 && l[0].start_line == *s && l[0].end_line == *e => {}
                _ => failed.push("K2-other-paths-untouched-in-INITIAL"),
            }
        }
        match cks {
            Err(_) => failed.push("K2-checkpoints-readable"),
            Ok(c) => {
                let flat: Vec<String> = c.iter().flat_map(|x| x.entries.iter().map(|e| e.file.clone())).collect();
                if flat.iter().any(|f| matches(f, &specs)) {
                    failed.push("K2-checked-out-paths-leave-checkpoints");
                }
                let want: Vec<String> = v["checkpoints"]
                    .as_array()
                    .unwrap()
                    .iter()
                    .flat_map(|c| c.as_array().unwrap().iter().map(|f| f.as_str().unwrap().to_string()))
                    .filter(|f| !matches(f, &specs))
                    .collect();
                if flat != want {
                    failed.push("K2-other-checkpoint-entries-untouched");
                }
            }
        }
    }
    let named: Vec<String> = init.files.keys().cloned().collect();
    let _ = std::fs::remove_dir_all(&dir);
    json!({"failed": failed, "initial_names": named})
}

pub fn reset(v: &Value) -> Value {
    let (dir, repo) = scratch_repo();
    let wl = repo.storage.working_log_for_base_commit("head");
    seed(v, &wl);
    let r = wl.reset_working_log();
    let init = wl.read_initial_attributions();
    let cks = wl.read_all_checkpoints();
    let mut failed: Vec<&str> = Vec::new();
    if r.is_err() {
        failed.push("K2-reset-ok");
    }
    if !init.files.is_empty() {
        failed.push("K2-reset-clears-INITIAL");
    }
    if !matches!(cks, Ok(ref c) if c.is_empty()) {
        failed.push("K2-reset-clears-checkpoints");
    }
    let _ = std::fs::remove_dir_all(&dir);
    json!({"failed": failed})
}

/// K3: fold INITIAL and the checkpoints of one file through the real from_just_working_log
pub fn fold(v: &Value) -> Value {
    use git_ai::authorship::attribution_tracker::Attribution;
    use git_ai::authorship::virtual_attribution::VirtualAttributions;
    let (dir, repo) = scratch_repo();
    std::fs::write(dir.join("f"), "l1\nl2\nl3\n").unwrap();
    let wl = repo.storage.working_log_for_base_commit("head");
    if let Some(i) = v["initial"].as_array() {
        let mut files: HashMap<String, Vec<LineAttribution>> = HashMap::new();
        files.insert(
            "f".into(),
            vec![LineAttribution::new(i[0].as_u64().unwrap() as u32, i[1].as_u64().unwrap() as u32, "s0".into(), None)],
        );
        wl.write_initial_attributions(files, HashMap::new()).unwrap();
    }
    let mut cks = Vec::new();
    let mut want: Option<(String, u32, u32)> = v["initial"].as_array().map(|i| ("s0".to_string(), i[0].as_u64().unwrap() as u32, i[1].as_u64().unwrap() as u32));
    for (i, e) in v["entries"].as_array().unwrap().iter().enumerate() {
        let kind = e["kind"].as_str().unwrap();
        let who = format!("s{}", i + 1);
        let (mut at, mut la) = (Vec::new(), Vec::new());
        let mut ck_kind = CheckpointKind::Human;
        match kind {
            "ai" | "ai_chars_only" => {
                let s = e["lines"][0].as_u64().unwrap() as u32;
                let t = e["lines"][1].as_u64().unwrap() as u32;
                ck_kind = CheckpointKind::AiAgent;
                if kind == "ai" {
                    la.push(LineAttribution::new(s, t, who.clone(), None));
                    at.push(Attribution::new(0, 9, who.clone(), i as u128));
                } else {
                    at.push(Attribution::new(((s - 1) * 3) as usize, (t * 3) as usize, who.clone(), i as u128));
                }
                want = Some((who.clone(), s, t));
            }
            "human_all" => {
                at.push(Attribution::new(0, 9, "human".into(), i as u128));
                want = None;
            }
            _ => {}
        }
        let entry = WorkingLogEntry::new("f".into(), format!("b{i}"), at, la);
        cks.push(Checkpoint::new(ck_kind, "d".into(), "x".into(), vec![entry]));
    }
    wl.write_all_checkpoints(&cks).unwrap();
    let repo2 = git_ai::git::find_repository_in_path(dir.to_str().unwrap()).expect("repo");
    let va = VirtualAttributions::from_just_working_log(repo2, "head".into(), None);
    let mut failed: Vec<&str> = Vec::new();
    let mut got: Vec<(String, u32, u32)> = Vec::new();
    match va {
        Err(_) => failed.push("K3-fold-ok"),
        Ok(va) => {
            if let Some(las) = va.get_line_attributions("f") {
                for la in las {
                    got.push((la.author_id.clone(), la.start_line, la.end_line));
                }
            }
            let lines_of = |who: &str| -> Vec<u32> {
                let mut v: Vec<u32> = got.iter().filter(|g| g.0 == who).flat_map(|g| g.1..=g.2).collect();
                v.sort();
                v.dedup();
                v
            };
            match &want {
                None => {
                    if got.iter().any(|g| g.0 != "human") {
                        failed.push("K3-human-rewrite-clears-earlier-AI-claims");
                    }
                }
                Some((who, s, t)) => {
                    if got.is_empty() || got.iter().any(|g| &g.0 != who) {
                        failed.push("K3-newest-entry-decides-the-session");
                    } else if lines_of(who) != (*s..=*t).collect::<Vec<u32>>() {
                        failed.push("K3-newest-entry-decides-the-lines");
                    }
                }
            }
        }
    }
    let _ = std::fs::remove_dir_all(&dir);
    json!({"failed": failed, "got": got})
}

/// K2: the real post_reset_hook after a successful `git reset --hard [<target>]`
pub fn reset_hard(v: &Value) -> Value {
    let (dir, _) = scratch_repo();
    let git = |args: &[&str]| {
        let o = std::process::Command::new("git")
            .args(args)
            .current_dir(&dir)
            .env("GIT_AUTHOR_NAME", "v")
            .env("GIT_AUTHOR_EMAIL", "v@v")
            .env("GIT_COMMITTER_NAME", "v")
            .env("GIT_COMMITTER_EMAIL", "v@v")
            .output()
            .unwrap();
        assert!(o.status.success(), "git {:?}: {}", args, String::from_utf8_lossy(&o.stderr));
        String::from_utf8_lossy(&o.stdout).trim().to_string()
    };
    std::fs::write(dir.join("f"), "one\n").unwrap();
    git(&["add", "-A"]);
    git(&["commit", "-q", "-m", "c1"]);
    let first = git(&["rev-parse", "HEAD"]);
    std::fs::write(dir.join("f"), "one\ntwo\n").unwrap();
    git(&["commit", "-q", "-am", "c2"]);
    let head = git(&["rev-parse", "HEAD"]);
    let mut repo = git_ai::git::find_repository_in_path(dir.to_str().unwrap()).expect("repo");
    let wl = repo.storage.working_log_for_base_commit(&head);
    let mut files: HashMap<String, Vec<LineAttribution>> = HashMap::new();
    files.insert("f".into(), vec![LineAttribution::new(1, 1, "s1".into(), None)]);
    wl.write_initial_attributions(files, HashMap::new()).unwrap();
    let entry = WorkingLogEntry::new("f".into(), "b0".into(), vec![], vec![LineAttribution::new(2, 2, "s1".into(), None)]);
    wl.write_all_checkpoints(&[Checkpoint::new(CheckpointKind::AiAgent, "d".into(), "ai".into(), vec![entry])]).unwrap();
    let same = v["same"].as_bool().unwrap();
    let target = if same { head.clone() } else { first.clone() };
    // the reset itself (git's part)
    git(&["reset", "-q", "--hard", &target]);
    repo.pre_command_base_commit = Some(head.clone());
    repo.pre_reset_target_commit = if v["pre_resolved"].as_bool().unwrap() { Some(target.clone()) } else { None };
    let mut argv: Vec<String> = v["argv"].as_array().unwrap().iter().map(|a| a.as_str().unwrap().to_string()).collect();
    // the symbolic run uses placeholder revisions; name the real one
    for a in argv.iter_mut() {
        if a == "HEAD~1" || a == "abc123" || a == "HEAD" {
            *a = target.clone();
        }
    }
    let parsed = git_ai::git::cli_parser::parse_git_cli_args(&argv);
    let status = std::process::Command::new("true").status().unwrap();
    git_ai::commands::hooks::reset_hooks::post_reset_hook(&parsed, &mut repo, status);
    let wl_dir = dir.join(".git").join("ai").join("working_logs").join(&head);
    let mut failed: Vec<&str> = Vec::new();
    if wl_dir.exists() {
        failed.push("K2-hard-reset-discards-pending-attribution");
    }
    let _ = std::fs::remove_dir_all(&dir);
    json!({"failed": failed})
}

/// K2: the real post_checkout_hook / post_switch_hook after a successful forced checkout / switch
pub fn force_checkout(v: &Value) -> Value {
    let (dir, _) = scratch_repo();
    let git = |args: &[&str]| {
        let o = std::process::Command::new("git")
            .args(args)
            .current_dir(&dir)
            .env("GIT_AUTHOR_NAME", "v")
            .env("GIT_AUTHOR_EMAIL", "v@v")
            .env("GIT_COMMITTER_NAME", "v")
            .env("GIT_COMMITTER_EMAIL", "v@v")
            .output()
            .unwrap();
        assert!(o.status.success(), "git {:?}: {}", args, String::from_utf8_lossy(&o.stderr));
        String::from_utf8_lossy(&o.stdout).trim().to_string()
    };
    std::fs::write(dir.join("f"), "one\n").unwrap();
    git(&["add", "-A"]);
    git(&["commit", "-q", "-m", "c1"]);
    git(&["checkout", "-q", "-B", "work"]);
    git(&["branch", "-f", "main"]);
    let same = v["same"].as_bool().unwrap();
    if !same {
        std::fs::write(dir.join("f"), "one\ntwo\n").unwrap();
        git(&["commit", "-q", "-am", "c2"]);
    }
    let head = git(&["rev-parse", "HEAD"]);
    let mut repo = git_ai::git::find_repository_in_path(dir.to_str().unwrap()).expect("repo");
    let wl = repo.storage.working_log_for_base_commit(&head);
    let mut files: HashMap<String, Vec<LineAttribution>> = HashMap::new();
    files.insert("f".into(), vec![LineAttribution::new(1, 1, "s1".into(), None)]);
    wl.write_initial_attributions(files, HashMap::new()).unwrap();
    let entry = WorkingLogEntry::new("f".into(), "b0".into(), vec![], vec![LineAttribution::new(2, 2, "s1".into(), None)]);
    wl.write_all_checkpoints(&[Checkpoint::new(CheckpointKind::AiAgent, "d".into(), "ai".into(), vec![entry])]).unwrap();
    std::fs::write(dir.join("f"), "one\npending ai line\n").unwrap();
    let argv: Vec<String> = v["force_argv"].as_array().unwrap().iter().map(|a| a.as_str().unwrap().to_string()).collect();
    // git's part (main is c1: the same commit as HEAD when `same`, another one otherwise)
    let mut real: Vec<&str> = argv.iter().map(|s| s.as_str()).collect();
    real.insert(1, "-q");
    git(&real);
    let new_head = git(&["rev-parse", "HEAD"]);
    repo.pre_command_base_commit = Some(head.clone());
    let parsed = git_ai::git::cli_parser::parse_git_cli_args(&argv);
    let status = std::process::Command::new("true").status().unwrap();
    let mut ctx = git_ai::commands::git_handlers::CommandHooksContext {
        pre_commit_hook_result: None,
        rebase_original_head: None,
        rebase_onto: None,
        fetch_authorship_handle: None,
        stash_sha: None,
        push_authorship_handle: None,
        stashed_va: None,
    };
    if argv[0] == "checkout" {
        git_ai::commands::hooks::checkout_hooks::post_checkout_hook(&parsed, &mut repo, status, &mut ctx);
    } else {
        git_ai::commands::hooks::switch_hooks::post_switch_hook(&parsed, &mut repo, status, &mut ctx);
    }
    let logs = dir.join(".git").join("ai").join("working_logs");
    let mut failed: Vec<&str> = Vec::new();
    if logs.join(&head).exists() || (new_head != head && logs.join(&new_head).exists()) {
        failed.push("K2-forced-checkout-discards-pending-attribution");
    }
    let _ = std::fs::remove_dir_all(&dir);
    json!({"failed": failed, "head_moved": new_head != head})
}

/// K2: the real pre_checkout_hook / pre_switch_hook before `--merge`: an agent's line is pending, a person typed a line
/// above it without a checkpoint; the captured attribution must not claim the person's line
pub fn merge_checkout(v: &Value) -> Value {
    let (dir, _) = scratch_repo();
    let git = |args: &[&str]| {
        let o = std::process::Command::new("git")
            .args(args)
            .current_dir(&dir)
            .env("GIT_AUTHOR_NAME", "v")
            .env("GIT_AUTHOR_EMAIL", "v@v")
            .env("GIT_COMMITTER_NAME", "v")
            .env("GIT_COMMITTER_EMAIL", "v@v")
            .output()
            .unwrap();
        assert!(o.status.success(), "git {:?}: {}", args, String::from_utf8_lossy(&o.stderr));
        String::from_utf8_lossy(&o.stdout).trim().to_string()
    };
    git(&["config", "user.name", "v"]);
    git(&["config", "user.email", "v@v"]);
    std::fs::write(dir.join("f"), "base 1\nbase 2\n").unwrap();
    git(&["add", "-A"]);
    git(&["commit", "-q", "-m", "c1"]);
    git(&["checkout", "-q", "-B", "work"]);
    git(&["branch", "-f", "main"]);
    let mut repo = git_ai::git::find_repository_in_path(dir.to_str().unwrap()).expect("repo");
    let dirty = v["dirty"].as_bool().unwrap();
    if dirty {
        // the agent appends a line and reports it
        std::fs::write(dir.join("f"), "base 1\nbase 2\nai 1\n").unwrap();
        git_ai::commands::checkpoint::run(&repo, "v", CheckpointKind::AiAgent, false, false, true, Some(mock_agent_run(&dir)), false).unwrap();
        // a person types a line above it; nobody reports that
        std::fs::write(dir.join("f"), "base 1\nbase 2\nperson 1\nai 1\n").unwrap();
    }
    let argv: Vec<String> = v["merge_argv"].as_array().unwrap().iter().map(|a| a.as_str().unwrap().to_string()).collect();
    let parsed = git_ai::git::cli_parser::parse_git_cli_args(&argv);
    let mut ctx = git_ai::commands::git_handlers::CommandHooksContext {
        pre_commit_hook_result: None,
        rebase_original_head: None,
        rebase_onto: None,
        fetch_authorship_handle: None,
        stash_sha: None,
        push_authorship_handle: None,
        stashed_va: None,
    };
    if argv[0] == "checkout" {
        git_ai::commands::hooks::checkout_hooks::pre_checkout_hook(&parsed, &mut repo, &mut ctx);
    } else {
        git_ai::commands::hooks::switch_hooks::pre_switch_hook(&parsed, &mut repo, &mut ctx);
    }
    let mut failed: Vec<&str> = Vec::new();
    let mut captured: Vec<(u32, u32, String)> = Vec::new();
    let is_merge = argv.iter().any(|a| a == "-m" || a == "--merge");
    match &ctx.stashed_va {
        Some(va) => {
            if let Some(las) = va.get_line_attributions("f") {
                for la in las {
                    captured.push((la.start_line, la.end_line, la.author_id.clone()));
                    // line 3 is the person's, line 4 the agent's
                    if la.author_id != "human" && la.start_line <= 3 && 3 <= la.end_line {
                        failed.push("K2-merge-checkout-records-the-persons-edits-first");
                    }
                }
            }
        }
        None => {
            if is_merge && dirty {
                failed.push("K2-merge-checkout-captures-pending-attribution");
            }
        }
    }
    let _ = std::fs::remove_dir_all(&dir);
    json!({"failed": failed, "captured": captured})
}

fn mock_agent_run(dir: &std::path::Path) -> git_ai::commands::checkpoint_agent::agent_presets::AgentRunResult {
    use git_ai::authorship::working_log::AgentId;
    git_ai::commands::checkpoint_agent::agent_presets::AgentRunResult {
        agent_id: AgentId { tool: "mock_ai".into(), id: "s1".into(), model: "m".into() },
        agent_metadata: None,
        checkpoint_kind: CheckpointKind::AiAgent,
        transcript: None,
        repo_working_dir: Some(dir.to_string_lossy().to_string()),
        edited_filepaths: Some(vec!["f".to_string()]),
        will_edit_filepaths: None,
        dirty_files: None,
    }
}

/// a concrete history: a person adds a line and stages it; an agent rewrites that line (reported, not staged);
/// the index is committed.  Returns the sessions the note names for the committed line.
pub fn staged_then_rewritten(_v: &Value) -> Value {
    let (dir, _) = scratch_repo();
    let git = |args: &[&str]| {
        let o = std::process::Command::new("git")
            .args(args)
            .current_dir(&dir)
            .env("GIT_AUTHOR_NAME", "v")
            .env("GIT_AUTHOR_EMAIL", "v@v")
            .env("GIT_COMMITTER_NAME", "v")
            .env("GIT_COMMITTER_EMAIL", "v@v")
            .output()
            .unwrap();
        assert!(o.status.success(), "git {:?}: {}", args, String::from_utf8_lossy(&o.stderr));
        String::from_utf8_lossy(&o.stdout).trim().to_string()
    };
    git(&["config", "user.name", "v"]);
    git(&["config", "user.email", "v@v"]);
    std::fs::write(dir.join("f"), "base 1\nbase 2\n").unwrap();
    git(&["add", "-A"]);
    git(&["commit", "-q", "-m", "c1"]);
    let parent = git(&["rev-parse", "HEAD"]);
    let repo = git_ai::git::find_repository_in_path(dir.to_str().unwrap()).expect("repo");
    std::fs::write(dir.join("f"), "base 1\nbase 2\nperson 1\n").unwrap();
    git_ai::commands::checkpoint::run(&repo, "v", CheckpointKind::Human, false, false, true, None, false).unwrap();
    git(&["add", "f"]);
    std::fs::write(dir.join("f"), "base 1\nbase 2\nai rewrote this\n").unwrap();
    git_ai::commands::checkpoint::run(&repo, "v", CheckpointKind::AiAgent, false, false, true, Some(mock_agent_run(&dir)), false).unwrap();
    git(&["commit", "-q", "-m", "index only"]);
    let commit = git(&["rev-parse", "HEAD"]);
    let r = git_ai::authorship::post_commit::post_commit(&repo, Some(parent), commit.clone(), "v".to_string(), true);
    let mut claimed: Vec<String> = Vec::new();
    if let Ok((_, log)) = &r {
        for fa in &log.attestations {
            if fa.file_path == "f" {
                for e in &fa.entries {
                    if e.line_ranges.iter().any(|lr| lr.contains(3)) {
                        claimed.push(e.hash.clone());
                    }
                }
            }
        }
    }
    let _ = std::fs::remove_dir_all(&dir);
    json!({"ok": r.is_ok(), "committed_line_3": "person 1", "sessions_claiming_line_3": claimed})
}

/// K2: the real pre_reset_hook: an agent's line is pending, a person typed a line above it without a checkpoint;
/// after the hook the working log must know the person's line (a Human checkpoint entry for the file)
pub fn pre_reset(v: &Value) -> Value {
    let (dir, _) = scratch_repo();
    let git = |args: &[&str]| {
        let o = std::process::Command::new("git")
            .args(args)
            .current_dir(&dir)
            .env("GIT_AUTHOR_NAME", "v")
            .env("GIT_AUTHOR_EMAIL", "v@v")
            .env("GIT_COMMITTER_NAME", "v")
            .env("GIT_COMMITTER_EMAIL", "v@v")
            .output()
            .unwrap();
        assert!(o.status.success(), "git {:?}: {}", args, String::from_utf8_lossy(&o.stderr));
        String::from_utf8_lossy(&o.stdout).trim().to_string()
    };
    git(&["config", "user.name", "v"]);
    git(&["config", "user.email", "v@v"]);
    std::fs::write(dir.join("f"), "base 1\n").unwrap();
    git(&["add", "-A"]);
    git(&["commit", "-q", "-m", "c1"]);
    std::fs::write(dir.join("f"), "base 1\nbase 2\n").unwrap();
    git(&["commit", "-q", "-am", "c2"]);
    let head = git(&["rev-parse", "HEAD"]);
    let mut repo = git_ai::git::find_repository_in_path(dir.to_str().unwrap()).expect("repo");
    std::fs::write(dir.join("f"), "base 1\nbase 2\nai 1\n").unwrap();
    git_ai::commands::checkpoint::run(&repo, "v", CheckpointKind::AiAgent, false, false, true, Some(mock_agent_run(&dir)), false).unwrap();
    std::fs::write(dir.join("f"), "base 1\nbase 2\nperson 1\nai 1\n").unwrap();
    let argv: Vec<String> = v["pre_reset_argv"].as_array().unwrap().iter().map(|a| a.as_str().unwrap().to_string()).collect();
    let parsed = git_ai::git::cli_parser::parse_git_cli_args(&argv);
    git_ai::commands::hooks::reset_hooks::pre_reset_hook(&parsed, &mut repo);
    let wl = repo.storage.working_log_for_base_commit(&head);
    let cks = wl.read_all_checkpoints().unwrap_or_default();
    let humans = cks.iter().filter(|c| c.kind == CheckpointKind::Human && c.entries.iter().any(|e| e.file == "f")).count();
    let mut failed: Vec<&str> = Vec::new();
    if humans == 0 {
        failed.push("K2-reset-records-the-persons-edits-first");
    }
    let _ = std::fs::remove_dir_all(&dir);
    json!({"failed": failed, "checkpoints": cks.len(), "human_checkpoints_for_f": humans})
}

/// K2: {files: [..], stash_pathspec: text | null}: pending agent lines in every file, a real
/// `git stash push [-- <pathspec>]`, the real post_stash_hook; which files the stash note lists
pub fn stash_scope(v: &Value) -> Value {
    let (dir, _) = scratch_repo();
    let git = |args: &[&str]| {
        let o = std::process::Command::new("git")
            .args(args)
            .current_dir(&dir)
            .env("GIT_AUTHOR_NAME", "v")
            .env("GIT_AUTHOR_EMAIL", "v@v")
            .env("GIT_COMMITTER_NAME", "v")
            .env("GIT_COMMITTER_EMAIL", "v@v")
            .output()
            .unwrap();
        (o.status.success(), String::from_utf8_lossy(&o.stdout).trim().to_string(), String::from_utf8_lossy(&o.stderr).to_string())
    };
    git(&["config", "user.name", "v"]);
    git(&["config", "user.email", "v@v"]);
    let files: Vec<String> = v["files"].as_array().unwrap().iter().map(|x| x.as_str().unwrap().to_string()).collect();
    for f in &files {
        if let Some(p) = std::path::Path::new(f).parent() {
            std::fs::create_dir_all(dir.join(p)).unwrap();
        }
        std::fs::write(dir.join(f), "base\n").unwrap();
    }
    git(&["add", "-A"]);
    git(&["commit", "-q", "-m", "c1"]);
    let mut repo = git_ai::git::find_repository_in_path(dir.to_str().unwrap()).expect("repo");
    for f in &files {
        std::fs::write(dir.join(f), "base\nai 1\nai 2\n").unwrap();
    }
    let mut run = mock_agent_run(&dir);
    run.edited_filepaths = Some(files.clone());
    git_ai::commands::checkpoint::run(&repo, "v", CheckpointKind::AiAgent, false, false, true, Some(run), false).unwrap();
    let mut argv: Vec<String> = vec!["stash".into(), "push".into()];
    let spec: Option<String> = if v["stash_pathspec"].is_null() { None } else { Some(String::from_utf8(crate::bytes_of(&v["stash_pathspec"])).unwrap()) };
    if let Some(s) = &spec {
        argv.push("--".into());
        argv.push(s.clone());
    }
    let real: Vec<&str> = argv.iter().map(|s| s.as_str()).collect();
    let (ok, _, err) = git(&real);
    if !ok {
        let _ = std::fs::remove_dir_all(&dir);
        return json!({"stashed": false, "git_error": err});
    }
    let stashed: Vec<String> = files.iter().filter(|f| std::fs::read_to_string(dir.join(f)).map(|c| c == "base\n").unwrap_or(false)).cloned().collect();
    let parsed = git_ai::git::cli_parser::parse_git_cli_args(&argv);
    let ctx = git_ai::commands::git_handlers::CommandHooksContext {
        pre_commit_hook_result: None,
        rebase_original_head: None,
        rebase_onto: None,
        fetch_authorship_handle: None,
        stash_sha: None,
        push_authorship_handle: None,
        stashed_va: None,
    };
    let status = std::process::Command::new("true").status().unwrap();
    git_ai::commands::hooks::stash_hooks::post_stash_hook(&ctx, &parsed, &mut repo, status);
    let (_, sha, _) = git(&["rev-parse", "stash@{0}"]);
    let (has, note, _) = git(&["notes", "--ref=ai-stash", "show", &sha]);
    let listed: Vec<String> = if has {
        note.split("\n---").next().unwrap_or("").lines().filter(|l| !l.is_empty() && !l.starts_with(' ')).map(|l| l.trim_matches('"').to_string()).collect()
    } else {
        vec![]
    };
    let _ = std::fs::remove_dir_all(&dir);
    json!({"stashed": true, "stashed_files": stashed, "listed": listed})
}
