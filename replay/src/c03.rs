use git_ai::authorship::attribution_tracker::LineAttribution;
use git_ai::authorship::working_log::{Checkpoint, CheckpointKind, WorkingLogEntry};
use git_ai::commands::hooks::checkout_hooks::verif_hooks;
use serde_json::{json, Value};
use std::collections::HashMap;

fn scratch_repo() -> (std::path::PathBuf, git_ai::git::repository::Repository) {
    let dir = std::env::temp_dir().join(format!("vreplay-c03-{}", std::process::id()));
    let _ = std::fs::remove_dir_all(&dir);
    std::fs::create_dir_all(&dir).unwrap();
    let st = std::process::Command::new("git").args(["init", "-q", "."]).current_dir(&dir).output().unwrap();
    assert!(st.status.success());
    let repo = git_ai::git::find_repository_in_path(dir.to_str().unwrap()).expect("repo");
    (dir, repo)
}

fn seed(v: &Value, wl: &git_ai::git::repo_storage::PersistedWorkingLog) -> HashMap<String, (u32, u32)> {
    let mut files: HashMap<String, Vec<LineAttribution>> = HashMap::new();
    let mut lines = HashMap::new();
    for (f, se) in v["initial"].as_object().unwrap() {
        let s = se[0].as_u64().unwrap() as u32;
        let e = se[1].as_u64().unwrap() as u32;
        lines.insert(f.clone(), (s, e));
        files.insert(f.clone(), vec![LineAttribution::new(s, e, "s1".into(), None)]);
    }
    if !files.is_empty() {
        wl.write_initial_attributions(files, HashMap::new()).unwrap();
    }
    let mut cks = Vec::new();
    for (i, c) in v["checkpoints"].as_array().unwrap().iter().enumerate() {
        let entries: Vec<WorkingLogEntry> = c
            .as_array()
            .unwrap()
            .iter()
            .enumerate()
            .map(|(j, f)| {
                WorkingLogEntry::new(
                    f.as_str().unwrap().to_string(),
                    format!("b{i}{j}"),
                    vec![],
                    vec![LineAttribution::new(1, 1, "s1".into(), None)],
                )
            })
            .collect();
        cks.push(Checkpoint::new(CheckpointKind::AiAgent, "d".into(), "ai".into(), entries));
    }
    wl.write_all_checkpoints(&cks).unwrap();
    lines
}

fn matches(file: &str, specs: &[String]) -> bool {
    specs.iter().any(|p| file == p || (p.ends_with('/') && file.starts_with(p.as_str())) || file.starts_with(&format!("{p}/")))
}

pub fn checkout_paths(v: &Value) -> Value {
    let (dir, repo) = scratch_repo();
    let wl = repo.storage.working_log_for_base_commit("head");
    let lines = seed(v, &wl);
    let specs: Vec<String> = v["pathspecs"].as_array().unwrap().iter().map(|x| x.as_str().unwrap().to_string()).collect();
    verif_hooks::remove_attributions_for_pathspecs(&repo, "head", &specs);
    let init = wl.read_initial_attributions();
    let cks = wl.read_all_checkpoints();
    let mut failed: Vec<&str> = Vec::new();
    if !specs.iter().any(|s| s == ".") {
        if init.files.keys().any(|f| matches(f, &specs)) {
            failed.push("K2-checked-out-paths-leave-INITIAL");
        }
        for (f, (s, e)) in &lines {
            if matches(f, &specs) {
                continue;
            }
            match init.files.get(f) {
                Some(l) if l.len() == 1 && l[0].start_line == *s && l[0].end_line == *e => {}
                _ => failed.push("K2-other-paths-untouched-in-INITIAL"),
            }
        }
        match cks {
            Err(_) => failed.push("K2-checkpoints-readable"),
            Ok(c) => {
                let flat: Vec<String> = c.iter().flat_map(|x| x.entries.iter().map(|e| e.file.clone())).collect();
                if flat.iter().any(|f| matches(f, &specs)) {
                    failed.push("K2-checked-out-paths-leave-checkpoints");
                }
                let want: Vec<String> = v["checkpoints"]
                    .as_array()
                    .unwrap()
                    .iter()
                    .flat_map(|c| c.as_array().unwrap().iter().map(|f| f.as_str().unwrap().to_string()))
                    .filter(|f| !matches(f, &specs))
                    .collect();
                if flat != want {
                    failed.push("K2-other-checkpoint-entries-untouched");
                }
            }
        }
    }
    let named: Vec<String> = init.files.keys().cloned().collect();
    let _ = std::fs::remove_dir_all(&dir);
    json!({"failed": failed, "initial_names": named})
}

pub fn reset(v: &Value) -> Value {
    let (dir, repo) = scratch_repo();
    let wl = repo.storage.working_log_for_base_commit("head");
    seed(v, &wl);
    let r = wl.reset_working_log();
    let init = wl.read_initial_attributions();
    let cks = wl.read_all_checkpoints();
    let mut failed: Vec<&str> = Vec::new();
    if r.is_err() {
        failed.push("K2-reset-ok");
    }
    if !init.files.is_empty() {
        failed.push("K2-reset-clears-INITIAL");
    }
    if !matches!(cks, Ok(ref c) if c.is_empty()) {
        failed.push("K2-reset-clears-checkpoints");
    }
    let _ = std::fs::remove_dir_all(&dir);
    json!({"failed": failed})
}

/// K3: fold INITIAL and the checkpoints of one file through the real from_just_working_log
pub fn fold(v: &Value) -> Value {
    use git_ai::authorship::attribution_tracker::Attribution;
    use git_ai::authorship::virtual_attribution::VirtualAttributions;
    let (dir, repo) = scratch_repo();
    std::fs::write(dir.join("f"), "l1\nl2\nl3\n").unwrap();
    let wl = repo.storage.working_log_for_base_commit("head");
    if let Some(i) = v["initial"].as_array() {
        let mut files: HashMap<String, Vec<LineAttribution>> = HashMap::new();
        files.insert(
            "f".into(),
            vec![LineAttribution::new(i[0].as_u64().unwrap() as u32, i[1].as_u64().unwrap() as u32, "s0".into(), None)],
        );
        wl.write_initial_attributions(files, HashMap::new()).unwrap();
    }
    let mut cks = Vec::new();
    let mut want: Option<(String, u32, u32)> = v["initial"].as_array().map(|i| ("s0".to_string(), i[0].as_u64().unwrap() as u32, i[1].as_u64().unwrap() as u32));
    for (i, e) in v["entries"].as_array().unwrap().iter().enumerate() {
        let kind = e["kind"].as_str().unwrap();
        let who = format!("s{}", i + 1);
        let (mut at, mut la) = (Vec::new(), Vec::new());
        let mut ck_kind = CheckpointKind::Human;
        match kind {
            "ai" | "ai_chars_only" => {
                let s = e["lines"][0].as_u64().unwrap() as u32;
                let t = e["lines"][1].as_u64().unwrap() as u32;
                ck_kind = CheckpointKind::AiAgent;
                if kind == "ai" {
                    la.push(LineAttribution::new(s, t, who.clone(), None));
                    at.push(Attribution::new(0, 9, who.clone(), i as u128));
                } else {
                    at.push(Attribution::new(((s - 1) * 3) as usize, (t * 3) as usize, who.clone(), i as u128));
                }
                want = Some((who.clone(), s, t));
            }
            "human_all" => {
                at.push(Attribution::new(0, 9, "human".into(), i as u128));
                want = None;
            }
            _ => {}
        }
        let entry = WorkingLogEntry::new("f".into(), format!("b{i}"), at, la);
        cks.push(Checkpoint::new(ck_kind, "d".into(), "x".into(), vec![entry]));
    }
    wl.write_all_checkpoints(&cks).unwrap();
    let repo2 = git_ai::git::find_repository_in_path(dir.to_str().unwrap()).expect("repo");
    let va = VirtualAttributions::from_just_working_log(repo2, "head".into(), None);
    let mut failed: Vec<&str> = Vec::new();
    let mut got: Vec<(String, u32, u32)> = Vec::new();
    match va {
        Err(_) => failed.push("K3-fold-ok"),
        Ok(va) => {
            if let Some(las) = va.get_line_attributions("f") {
                for la in las {
                    got.push((la.author_id.clone(), la.start_line, la.end_line));
                }
            }
            let lines_of = |who: &str| -> Vec<u32> {
                let mut v: Vec<u32> = got.iter().filter(|g| g.0 == who).flat_map(|g| g.1..=g.2).collect();
                v.sort();
                v.dedup();
                v
            };
            match &want {
                None => {
                    if got.iter().any(|g| g.0 != "human") {
                        failed.push("K3-human-rewrite-clears-earlier-AI-claims");
                    }
                }
                Some((who, s, t)) => {
                    if got.is_empty() || got.iter().any(|g| &g.0 != who) {
                        failed.push("K3-newest-entry-decides-the-session");
                    } else if lines_of(who) != (*s..=*t).collect::<Vec<u32>>() {
                        failed.push("K3-newest-entry-decides-the-lines");
                    }
                }
            }
        }
    }
    let _ = std::fs::remove_dir_all(&dir);
    json!({"failed": failed, "got": got})
}

/// K2: the real post_reset_hook after a successful `git reset --hard [<target>]`
pub fn reset_hard(v: &Value) -> Value {
    let (dir, _) = scratch_repo();
    let git = |args: &[&str]| {
        let o = std::process::Command::new("git")
            .args(args)
            .current_dir(&dir)
            .env("GIT_AUTHOR_NAME", "v")
            .env("GIT_AUTHOR_EMAIL", "v@v")
            .env("GIT_COMMITTER_NAME", "v")
            .env("GIT_COMMITTER_EMAIL", "v@v")
            .output()
            .unwrap();
        assert!(o.status.success(), "git {:?}: {}", args, String::from_utf8_lossy(&o.stderr));
        String::from_utf8_lossy(&o.stdout).trim().to_string()
    };
    std::fs::write(dir.join("f"), "one\n").unwrap();
    git(&["add", "-A"]);
    git(&["commit", "-q", "-m", "c1"]);
    let first = git(&["rev-parse", "HEAD"]);
    std::fs::write(dir.join("f"), "one\ntwo\n").unwrap();
    git(&["commit", "-q", "-am", "c2"]);
    let head = git(&["rev-parse", "HEAD"]);
    let mut repo = git_ai::git::find_repository_in_path(dir.to_str().unwrap()).expect("repo");
    let wl = repo.storage.working_log_for_base_commit(&head);
    let mut files: HashMap<String, Vec<LineAttribution>> = HashMap::new();
    files.insert("f".into(), vec![LineAttribution::new(1, 1, "s1".into(), None)]);
    wl.write_initial_attributions(files, HashMap::new()).unwrap();
    let entry = WorkingLogEntry::new("f".into(), "b0".into(), vec![], vec![LineAttribution::new(2, 2, "s1".into(), None)]);
    wl.write_all_checkpoints(&[Checkpoint::new(CheckpointKind::AiAgent, "d".into(), "ai".into(), vec![entry])]).unwrap();
    let same = v["same"].as_bool().unwrap();
    let target = if same { head.clone() } else { first.clone() };
    // the reset itself (git's part)
    git(&["reset", "-q", "--hard", &target]);
    repo.pre_command_base_commit = Some(head.clone());
    repo.pre_reset_target_commit = if v["pre_resolved"].as_bool().unwrap() { Some(target.clone()) } else { None };
    let mut argv: Vec<String> = v["argv"].as_array().unwrap().iter().map(|a| a.as_str().unwrap().to_string()).collect();
    // the symbolic run uses placeholder revisions; name the real one
    for a in argv.iter_mut() {
        if a == "HEAD~1" || a == "abc123" || a == "HEAD" {
            *a = target.clone();
        }
    }
    let parsed = git_ai::git::cli_parser::parse_git_cli_args(&argv);
    let status = std::process::Command::new("true").status().unwrap();
    git_ai::commands::hooks::reset_hooks::post_reset_hook(&parsed, &mut repo, status);
    let wl_dir = dir.join(".git").join("ai").join("working_logs").join(&head);
    let mut failed: Vec<&str> = Vec::new();
    if wl_dir.exists() {
        failed.push("K2-hard-reset-discards-pending-attribution");
    }
    let _ = std::fs::remove_dir_all(&dir);
    json!({"failed": failed})
}
