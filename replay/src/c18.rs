use git_ai::commands::git_handlers::verif_hooks;
use git_ai::git::cli_parser::parse_git_cli_args;
use serde_json::{json, Value};

fn strs(v: &Value) -> Vec<String> {
    v.as_array().unwrap().iter().map(|x| x.as_str().unwrap().to_string()).collect()
}

pub fn parse(v: &Value) -> Value {
    let argv = strs(&v["argv"]);
    let p = parse_git_cli_args(&argv);
    json!({"vec": p.to_invocation_vec(), "command": p.command, "global_args": p.global_args,
           "command_args": p.command_args, "is_help": p.is_help})
}

pub fn alias_tokens(v: &Value) -> Value {
    let value = v["value"].as_str().unwrap();
    json!({"tokens": verif_hooks::parse_alias_tokens(value)})
}

/// aliases: [[name, value]..], argv: the user's invocation; a scratch repository carries the aliases
pub fn alias_resolve(v: &Value) -> Value {
    let argv = strs(&v["argv"]);
    let dir = std::env::temp_dir().join(format!("vreplay-alias-{}", std::process::id()));
    let _ = std::fs::remove_dir_all(&dir);
    std::fs::create_dir_all(&dir).unwrap();
    let run = |args: &[&str]| {
        let st = std::process::Command::new("git").args(args).current_dir(&dir).output().unwrap();
        assert!(st.status.success(), "git {:?} failed: {}", args, String::from_utf8_lossy(&st.stderr));
    };
    run(&["init", "-q", "."]);
    for a in v["aliases"].as_array().unwrap() {
        let k = format!("alias.{}", a[0].as_str().unwrap());
        run(&["config", &k, a[1].as_str().unwrap()]);
    }
    let parsed = parse_git_cli_args(&argv);
    let globals = vec!["-C".to_string(), dir.to_string_lossy().to_string()];
    let repo = git_ai::git::find_repository(&globals).expect("repository");
    let resolved = verif_hooks::resolve_alias_impl(&parsed, &repo);
    let passed = match &resolved {
        Some(p) => p.to_invocation_vec(),
        None => argv.clone(),
    };
    let _ = std::fs::remove_dir_all(&dir);
    let hook_command = match &resolved {
        Some(p) => p.command.clone(),
        None => parsed.command.clone(),
    };
    json!({"resolved": resolved.is_some(), "passed": passed, "hook_command": hook_command})
}
