use crate::bytes_of;
use git_ai::git::rewrite_log::{deserialize_events_from_jsonl, RewriteLogEvent};
use serde_json::{json, Value};

fn event(id: u64) -> RewriteLogEvent {
    RewriteLogEvent::commit(None, format!("id{id}"))
}

fn event_id(e: &RewriteLogEvent) -> Option<u64> {
    match e {
        RewriteLogEvent::Commit { commit } => commit.commit_sha.strip_prefix("id").and_then(|x| x.parse().ok()),
        _ => None,
    }
}

/// {lines: [{kind: ev|sym|ws|blank, id?, bytes?}], final_newline}
pub fn journal_parse(v: &Value) -> Value {
    let mut text: Vec<u8> = Vec::new();
    let mut want: Vec<u64> = Vec::new();
    let lines = v["lines"].as_array().unwrap();
    for (i, l) in lines.iter().enumerate() {
        match l["kind"].as_str().unwrap() {
            "ev" => {
                let id = l["id"].as_u64().unwrap();
                text.extend(serde_json::to_string(&event(id)).unwrap().as_bytes());
                want.push(id);
            }
            "sym" => text.extend(bytes_of(&l["bytes"])),
            "ws" => text.extend(b" \t"),
            _ => {}
        }
        if i + 1 < lines.len() || v["final_newline"].as_bool().unwrap_or(true) {
            text.push(b'\n');
        }
    }
    let text = String::from_utf8(text).expect("utf8");
    let mut failed: Vec<&str> = Vec::new();
    match deserialize_events_from_jsonl(&text) {
        Ok(evs) => {
            let got: Vec<u64> = evs.iter().filter_map(event_id).collect();
            // a 3-byte symbolic line can itself be valid JSON only if it parses as an event: it cannot
            if got != want || got.len() != evs.len() {
                failed.push("K3-journal-keeps-wellformed-events-in-order");
            }
        }
        Err(_) => failed.push("K3-journal-parse-always-ok"),
    }
    json!({"failed": failed})
}

/// {which: initial|checkpoints, kind, content}
pub fn state_read(v: &Value) -> Value {
    let dir = std::env::temp_dir().join(format!("vreplay-c07-{}", std::process::id()));
    let _ = std::fs::remove_dir_all(&dir);
    std::fs::create_dir_all(&dir).unwrap();
    let st = std::process::Command::new("git").args(["init", "-q", "."]).current_dir(&dir).output().unwrap();
    assert!(st.status.success());
    let repo = git_ai::git::find_repository_in_path(dir.to_str().unwrap()).expect("repo");
    let wl = repo.storage.working_log_for_base_commit("head");
    let kind = v["kind"].as_str().unwrap();
    let content = bytes_of(&v["content"]);
    let mut failed: Vec<&str> = Vec::new();
    if v["which"].as_str() == Some("initial") {
        if kind != "missing" && kind != "fault" && kind != "valid" && kind != "valid_garbage" {
            std::fs::write(&wl.initial_file, &content).unwrap();
            let r = wl.read_initial_attributions();
            if !r.files.is_empty() {
                failed.push("K3-initial-corrupt-reads-empty");
            }
        }
    } else if kind != "missing" && kind != "fault" && kind != "valid" && kind != "valid_garbage" {
        std::fs::write(wl.dir.join("checkpoints.jsonl"), &content).unwrap();
        match wl.read_all_checkpoints() {
            Ok(c) if !c.is_empty() => failed.push("K3-checkpoints-corrupt-invents-nothing"),
            _ => {}
        }
    }
    let _ = std::fs::remove_dir_all(&dir);
    json!({"failed": failed})
}
