use crate::bytes_of;
use git_ai::git::rewrite_log::{deserialize_events_from_jsonl, RewriteLogEvent};
use serde_json::{json, Value};

fn event(id: u64) -> RewriteLogEvent {
    RewriteLogEvent::commit(None, format!("id{id}"))
}

fn event_id(e: &RewriteLogEvent) -> Option<u64> {
    match e {
        RewriteLogEvent::Commit { commit } => commit.commit_sha.strip_prefix("id").and_then(|x| x.parse().ok()),
        _ => None,
    }
}

/// {lines: [{kind: ev|sym|ws|blank, id?, bytes?}], final_newline}
pub fn journal_parse(v: &Value) -> Value {
    let mut text: Vec<u8> = Vec::new();
    let mut want: Vec<u64> = Vec::new();
    let lines = v["lines"].as_array().unwrap();
    for (i, l) in lines.iter().enumerate() {
        match l["kind"].as_str().unwrap() {
            "ev" => {
                let id = l["id"].as_u64().unwrap();
                text.extend(serde_json::to_string(&event(id)).unwrap().as_bytes());
                want.push(id);
            }
            "sym" => text.extend(bytes_of(&l["bytes"])),
            "ws" => text.extend(b" \t"),
            _ => {}
        }
        if i + 1 < lines.len() || v["final_newline"].as_bool().unwrap_or(true) {
            text.push(b'\n');
        }
    }
    let text = String::from_utf8(text).expect("utf8");
    let mut failed: Vec<&str> = Vec::new();
    match deserialize_events_from_jsonl(&text) {
        Ok(evs) => {
            let got: Vec<u64> = evs.iter().filter_map(event_id).collect();
            // a 3-byte symbolic line can itself be valid JSON only if it parses as an event: it cannot
            if got != want || got.len() != evs.len() {
                failed.push("K3-journal-keeps-wellformed-events-in-order");
            }
        }
        Err(_) => failed.push("K3-journal-parse-always-ok"),
    }
    json!({"failed": failed})
}

/// {which: initial|checkpoints, kind, content}
pub fn state_read(v: &Value) -> Value {
    let dir = std::env::temp_dir().join(format!("vreplay-c07-{}", std::process::id()));
    let _ = std::fs::remove_dir_all(&dir);
    std::fs::create_dir_all(&dir).unwrap();
    let st = std::process::Command::new("git").args(["init", "-q", "."]).current_dir(&dir).output().unwrap();
    assert!(st.status.success());
    let repo = git_ai::git::find_repository_in_path(dir.to_str().unwrap()).expect("repo");
    let wl = repo.storage.working_log_for_base_commit("head");
    let kind = v["kind"].as_str().unwrap();
    let content = bytes_of(&v["content"]);
    let mut failed: Vec<&str> = Vec::new();
    if v["which"].as_str() == Some("initial") {
        if kind != "missing" && kind != "fault" && kind != "valid" && kind != "valid_garbage" {
            std::fs::write(&wl.initial_file, &content).unwrap();
            let r = wl.read_initial_attributions();
            if !r.files.is_empty() {
                failed.push("K3-initial-corrupt-reads-empty");
            }
        }
    } else if kind != "missing" && kind != "fault" && kind != "valid" && kind != "valid_garbage" {
        std::fs::write(wl.dir.join("checkpoints.jsonl"), &content).unwrap();
        match wl.read_all_checkpoints() {
            Ok(c) if !c.is_empty() => failed.push("K3-checkpoints-corrupt-invents-nothing"),
            _ => {}
        }
    }
    let _ = std::fs::remove_dir_all(&dir);
    json!({"failed": failed})
}

/// K1: the journal step of a post-command hook on a journal that cannot be read back.
/// {pre: "dir" | "non_utf8" | null}. Ends by returning (prints JSON), by a panic (exit 101, absorbed by the
/// guard around the hook bodies in the real binary) — or, if the code ends the process itself, by that status.
pub fn post_hook_journal(v: &Value) -> Value {
    let dir = std::env::temp_dir().join(format!("vreplay-c07j-{}", std::process::id()));
    let _ = std::fs::remove_dir_all(&dir);
    std::fs::create_dir_all(&dir).unwrap();
    let st = std::process::Command::new("git").args(["init", "-q", "."]).current_dir(&dir).output().unwrap();
    assert!(st.status.success());
    let mut repo = git_ai::git::find_repository_in_path(dir.to_str().unwrap()).expect("repo");
    let journal = repo.storage.rewrite_log.clone();
    match v["pre"].as_str() {
        Some("dir") => {
            let _ = std::fs::remove_file(&journal);
            std::fs::create_dir_all(journal.join("x")).unwrap();
        }
        Some("non_utf8") => std::fs::write(&journal, [0xff, 0xfe, b'\n']).unwrap(),
        Some("stale_lock") => {
            std::fs::write(journal.with_extension("lock"), b"").unwrap();
            std::fs::write(journal.with_extension("tmp"), b"half").unwrap();
        }
        _ => {}
    }
    repo.handle_rewrite_log_event(event(7), "A <a@b>".to_string(), true, false);
    let _ = std::fs::remove_dir_all(&dir);
    json!({"returned": true})
}

/// K2: commit_pre_command_hook on a working log whose checkpoints cannot be read (the pre-commit step fails)
/// {argv: [...], pre_commit: ok|fails}
pub fn pre_commit_refusal(v: &Value) -> Value {
    let dir = std::env::temp_dir().join(format!("vreplay-c07p-{}", std::process::id()));
    let _ = std::fs::remove_dir_all(&dir);
    std::fs::create_dir_all(&dir).unwrap();
    let git = |args: &[&str]| {
        let o = std::process::Command::new("git")
            .args(args)
            .current_dir(&dir)
            .env("GIT_AUTHOR_NAME", "v")
            .env("GIT_AUTHOR_EMAIL", "v@v")
            .env("GIT_COMMITTER_NAME", "v")
            .env("GIT_COMMITTER_EMAIL", "v@v")
            .output()
            .unwrap();
        assert!(o.status.success(), "git {:?}: {}", args, String::from_utf8_lossy(&o.stderr));
        String::from_utf8_lossy(&o.stdout).trim().to_string()
    };
    git(&["init", "-q", "."]);
    std::fs::write(dir.join("f"), "one\n").unwrap();
    git(&["add", "-A"]);
    git(&["commit", "-q", "-m", "c1"]);
    let head = git(&["rev-parse", "HEAD"]);
    std::fs::write(dir.join("f"), "one\ntwo\n").unwrap();
    git(&["add", "-A"]);
    let mut repo = git_ai::git::find_repository_in_path(dir.to_str().unwrap()).expect("repo");
    if v["pre_commit"].as_str() == Some("fails") {
        // pending AI attribution (so the pre-commit step does not take its early exit) and an unreadable log
        let wl = repo.storage.working_log_for_base_commit(&head);
        let mut files = std::collections::HashMap::new();
        files.insert(
            "f".to_string(),
            vec![git_ai::authorship::attribution_tracker::LineAttribution::new(2, 2, "s1".into(), None)],
        );
        wl.write_initial_attributions(files, std::collections::HashMap::new()).unwrap();
        std::fs::write(wl.dir.join("checkpoints.jsonl"), "{\"kind\":\"AiAgent\",\"diff\":\"d\",\"auth").unwrap();
    }
    let argv: Vec<String> = v["argv"].as_array().unwrap().iter().map(|a| a.as_str().unwrap().to_string()).collect();
    let parsed = git_ai::git::cli_parser::parse_git_cli_args(&argv);
    let let_run = git_ai::commands::hooks::commit_hooks::commit_pre_command_hook(&parsed, &mut repo);
    let _ = std::fs::remove_dir_all(&dir);
    json!({"let_git_run": true, "hook_result": let_run})
}

/// K4: {obstacle: path under /w | null}: the real storage constructor with something in the way under .git/ai
pub fn storage_ctor(v: &Value) -> Value {
    let dir = std::env::temp_dir().join(format!("vreplay-c07s-{}", std::process::id()));
    let _ = std::fs::remove_dir_all(&dir);
    std::fs::create_dir_all(dir.join(".git")).unwrap();
    if let Some(ob) = v["obstacle"].as_str() {
        let rel = ob.trim_start_matches("/w/");
        let p = dir.join(rel);
        if let Some(parent) = p.parent() {
            std::fs::create_dir_all(parent).unwrap();
        }
        if rel.ends_with("rewrite_log") {
            std::fs::create_dir_all(&p).unwrap();
        } else {
            std::fs::write(&p, "in the way\n").unwrap();
        }
    }
    let d2 = dir.clone();
    let r = std::panic::catch_unwind(move || {
        let _ = git_ai::git::repo_storage::RepoStorage::for_repo_path(&d2.join(".git"), &d2);
    });
    let _ = std::fs::remove_dir_all(&dir);
    json!({"panicked": r.is_err()})
}
