use crate::bytes_of;
use git_ai::authorship::attribution_tracker::{Attribution, LineAttribution};
use git_ai::authorship::working_log::{Checkpoint, CheckpointKind, WorkingLogEntry};
use git_ai::commands::checkpoint::verif_hooks as ck;
use git_ai::git::repo_storage::verif_hooks as rs;
use serde_json::{json, Value};

fn scratch() -> (std::path::PathBuf, git_ai::git::repository::Repository) {
    let dir = std::env::temp_dir().join(format!("vreplay-c14-{}", std::process::id()));
    let _ = std::fs::remove_dir_all(&dir);
    std::fs::create_dir_all(&dir).unwrap();
    let st = std::process::Command::new("git").args(["init", "-q", "."]).current_dir(&dir).output().unwrap();
    assert!(st.status.success());
    let repo = git_ai::git::find_repository_in_path(dir.to_str().unwrap()).expect("repo");
    (dir, repo)
}

fn kind(s: &str) -> CheckpointKind {
    match s {
        "Human" => CheckpointKind::Human,
        "AiAgent" => CheckpointKind::AiAgent,
        _ => CheckpointKind::AiTab,
    }
}

/// {old, new, kind, pre_commit, initial, touched, prev_end}
pub fn entry(v: &Value) -> Value {
    let (dir, repo) = scratch();
    let wl = repo.storage.working_log_for_base_commit("head");
    let old = bytes_of(&v["old"]);
    let new = bytes_of(&v["new"]);
    std::fs::create_dir_all(wl.dir.join("blobs")).unwrap();
    std::fs::write(wl.dir.join("blobs").join("b0"), &old).unwrap();
    std::fs::write(dir.join("f.txt"), &new).unwrap();
    let prev = Some(("b0".to_string(), vec![Attribution::new(0, v["prev_end"].as_u64().unwrap_or(0) as usize, "s1".into(), 5)]));
    let initial = if v["initial"].as_bool().unwrap_or(false) { vec![LineAttribution::new(1, 1, "s2".into(), None)] } else { vec![] };
    let r = ck::entry_for_file(
        repo,
        wl,
        "f.txt",
        kind(v["kind"].as_str().unwrap()),
        v["pre_commit"].as_bool().unwrap_or(false),
        prev,
        v["touched"].as_bool().unwrap_or(true),
        "newhash",
        "s9",
        initial,
        100,
    );
    let _ = std::fs::remove_dir_all(&dir);
    match r {
        Ok(None) => json!({"ok": true, "entry": null}),
        Ok(Some(e)) => json!({"ok": true, "entry": {"file": e.file, "blob_sha": e.blob_sha,
            "authors": e.line_attributions.iter().map(|l| l.author_id.clone()).collect::<Vec<_>>()}}),
        Err(e) => json!({"ok": false, "error": e.to_string()}),
    }
}

/// {checkpoints: [{kind, entries: [{file, ai_lines}]}]}
pub fn prune_select(v: &Value) -> Value {
    let (dir, repo) = scratch();
    let wl = repo.storage.working_log_for_base_commit("head");
    let mut cks: Vec<Checkpoint> = Vec::new();
    for (i, c) in v["checkpoints"].as_array().unwrap().iter().enumerate() {
        let entries: Vec<WorkingLogEntry> = c["entries"]
            .as_array()
            .unwrap()
            .iter()
            .map(|e| {
                let who = if e["ai_lines"].as_bool().unwrap() { "s1" } else { "human" };
                let f = e["file"].as_str().unwrap();
                WorkingLogEntry::new(
                    f.to_string(),
                    format!("b{i}_{f}"),
                    vec![Attribution::new(0, 1, who.into(), i as u128)],
                    vec![LineAttribution::new(1, 1, who.into(), None)],
                )
            })
            .collect();
        cks.push(Checkpoint::new(kind(c["kind"].as_str().unwrap()), "d".into(), "x".into(), entries));
    }
    rs::prune_old_char_attributions(&wl, &mut cks);
    let (m, t) = ck::previous_state_summary(&cks);
    let kept: Vec<Vec<(String, usize)>> = cks.iter().map(|c| c.entries.iter().map(|e| (e.file.clone(), e.attributions.len())).collect()).collect();
    let mut touched: Vec<String> = t.into_iter().collect();
    touched.sort();
    let _ = std::fs::remove_dir_all(&dir);
    json!({"selected": m, "kept": kept, "touched": touched})
}

/// K4: {kinds: [...], files: [...], initial: bool}: all_ai_touched_files and the pre-commit early exit on a real repository
pub fn pre_commit_skip(v: &Value) -> Value {
    let (dir, _) = scratch();
    let git = |args: &[&str]| {
        let o = std::process::Command::new("git")
            .args(args)
            .current_dir(&dir)
            .env("GIT_AUTHOR_NAME", "v")
            .env("GIT_AUTHOR_EMAIL", "v@v")
            .env("GIT_COMMITTER_NAME", "v")
            .env("GIT_COMMITTER_EMAIL", "v@v")
            .output()
            .unwrap();
        assert!(o.status.success(), "git {:?}: {}", args, String::from_utf8_lossy(&o.stderr));
        String::from_utf8_lossy(&o.stdout).trim().to_string()
    };
    std::fs::write(dir.join("a"), "x\n").unwrap();
    std::fs::write(dir.join("b"), "y\n").unwrap();
    git(&["add", "-A"]);
    git(&["commit", "-q", "-m", "c1"]);
    let head = git(&["rev-parse", "HEAD"]);
    // pending work in both files
    std::fs::write(dir.join("a"), "x\nmore\n").unwrap();
    std::fs::write(dir.join("b"), "y\nmore\n").unwrap();
    let repo = git_ai::git::find_repository_in_path(dir.to_str().unwrap()).expect("repo");
    let wl = repo.storage.working_log_for_base_commit(&head);
    let kinds: Vec<&str> = v["kinds"].as_array().unwrap().iter().map(|k| k.as_str().unwrap()).collect();
    let files: Vec<&str> = v["files"].as_array().unwrap().iter().map(|k| k.as_str().unwrap()).collect();
    let mut cks = Vec::new();
    for (i, (k, f)) in kinds.iter().zip(files.iter()).enumerate() {
        let la = if *k == "Human" { vec![] } else { vec![LineAttribution::new(1, 1, "s1".into(), None)] };
        let e = WorkingLogEntry::new(f.to_string(), format!("b{i}"), vec![], la);
        cks.push(Checkpoint::new(kind(k), "d".into(), "x".into(), vec![e]));
    }
    wl.write_all_checkpoints(&cks).unwrap();
    if v["initial"].as_bool().unwrap_or(false) {
        let mut m = std::collections::HashMap::new();
        m.insert("a".to_string(), vec![LineAttribution::new(1, 1, "s0".into(), None)]);
        wl.write_initial_attributions(m, std::collections::HashMap::new()).unwrap();
    }
    let mut touched: Vec<String> = wl.all_ai_touched_files().map(|s| s.into_iter().collect()).unwrap_or_default();
    touched.sort();
    let r = git_ai::commands::checkpoint::run(&repo, "user", CheckpointKind::Human, false, false, true, None, true);
    let out = match r {
        Ok((a, b, c)) => json!({"ok": true, "result": [a, b, c]}),
        Err(e) => json!({"ok": false, "error": e.to_string()}),
    };
    let _ = std::fs::remove_dir_all(&dir);
    json!({"touched": touched, "run": out})
}

/// K4b: {kinds: [...], pre_commit}: the file of every checkpoint entry is an UNTRACKED file `a` that changed
/// since; the real checkpoint::run reports how many files it looked at
pub fn pre_commit_untracked(v: &Value) -> Value {
    let (dir, _) = scratch();
    let git = |args: &[&str]| {
        let o = std::process::Command::new("git")
            .args(args)
            .current_dir(&dir)
            .env("GIT_AUTHOR_NAME", "v")
            .env("GIT_AUTHOR_EMAIL", "v@v")
            .env("GIT_COMMITTER_NAME", "v")
            .env("GIT_COMMITTER_EMAIL", "v@v")
            .output()
            .unwrap();
        assert!(o.status.success(), "git {:?}: {}", args, String::from_utf8_lossy(&o.stderr));
        String::from_utf8_lossy(&o.stdout).trim().to_string()
    };
    std::fs::write(dir.join("z"), "z\n").unwrap();
    git(&["add", "z"]);
    git(&["commit", "-q", "-m", "c1"]);
    let head = git(&["rev-parse", "HEAD"]);
    std::fs::write(dir.join("a"), "one\n").unwrap();
    let repo = git_ai::git::find_repository_in_path(dir.to_str().unwrap()).expect("repo");
    let wl = repo.storage.working_log_for_base_commit(&head);
    let mut cks = Vec::new();
    for (i, k) in v["kinds"].as_array().unwrap().iter().enumerate() {
        let k = k.as_str().unwrap();
        let la = if k == "Human" { vec![] } else { vec![LineAttribution::new(1, 1, "s1".into(), None)] };
        let e = WorkingLogEntry::new("a".to_string(), format!("b{i}"), vec![], la);
        cks.push(Checkpoint::new(kind(k), "d".into(), "x".into(), vec![e]));
    }
    wl.write_all_checkpoints(&cks).unwrap();
    std::fs::write(dir.join("a"), "zero\none\n").unwrap();
    let pre = v["pre_commit"].as_bool().unwrap_or(true);
    let r = git_ai::commands::checkpoint::run(&repo, "user", CheckpointKind::Human, false, false, true, None, pre);
    let out = match r {
        Ok((a, b, c)) => json!({"ok": true, "result": [a, b, c]}),
        Err(e) => json!({"ok": false, "error": e.to_string()}),
    };
    let _ = std::fs::remove_dir_all(&dir);
    json!({"run": out})
}

/// K5: {staged_files: [..]}: an agent's line is pending, a person typed a line without reporting it; `staged_files`
/// says what the index holds; the real pre_commit must leave a Human checkpoint entry for the file
pub fn pre_commit_always(v: &Value) -> Value {
    use git_ai::authorship::working_log::CheckpointKind;
    let dir = std::env::temp_dir().join(format!("vreplay-c14c-{}", std::process::id()));
    let _ = std::fs::remove_dir_all(&dir);
    std::fs::create_dir_all(&dir).unwrap();
    let git = |args: &[&str]| {
        let o = std::process::Command::new("git")
            .args(args)
            .current_dir(&dir)
            .env("GIT_AUTHOR_NAME", "v")
            .env("GIT_AUTHOR_EMAIL", "v@v")
            .env("GIT_COMMITTER_NAME", "v")
            .env("GIT_COMMITTER_EMAIL", "v@v")
            .output()
            .unwrap();
        assert!(o.status.success(), "git {:?}: {}", args, String::from_utf8_lossy(&o.stderr));
        String::from_utf8_lossy(&o.stdout).trim().to_string()
    };
    git(&["init", "-q", "."]);
    git(&["config", "user.name", "v"]);
    git(&["config", "user.email", "v@v"]);
    std::fs::write(dir.join("f"), "base 1\n").unwrap();
    std::fs::write(dir.join("g"), "g\n").unwrap();
    git(&["add", "-A"]);
    git(&["commit", "-q", "-m", "c1"]);
    let head = git(&["rev-parse", "HEAD"]);
    let repo = git_ai::git::find_repository_in_path(dir.to_str().unwrap()).expect("repo");
    std::fs::write(dir.join("f"), "base 1\nai 1\n").unwrap();
    let run = git_ai::commands::checkpoint_agent::agent_presets::AgentRunResult {
        agent_id: git_ai::authorship::working_log::AgentId { tool: "mock_ai".into(), id: "s1".into(), model: "m".into() },
        agent_metadata: None,
        checkpoint_kind: CheckpointKind::AiAgent,
        transcript: None,
        repo_working_dir: Some(dir.to_string_lossy().to_string()),
        edited_filepaths: Some(vec!["f".to_string()]),
        will_edit_filepaths: None,
        dirty_files: None,
    };
    git_ai::commands::checkpoint::run(&repo, "v", CheckpointKind::AiAgent, false, false, true, Some(run), false).unwrap();
    std::fs::write(dir.join("f"), "base 1\nperson 1\nai 1\n").unwrap();
    std::fs::write(dir.join("g"), "g\ng2\n").unwrap();
    for f in v["staged_files"].as_array().unwrap() {
        git(&["add", f.as_str().unwrap()]);
    }
    let r = git_ai::authorship::pre_commit::pre_commit(&repo, "v".to_string());
    let wl = repo.storage.working_log_for_base_commit(&head);
    let cks = wl.read_all_checkpoints().unwrap_or_default();
    let humans = cks.iter().filter(|c| c.kind == CheckpointKind::Human && c.entries.iter().any(|e| e.file == "f")).count();
    let mut failed: Vec<&str> = Vec::new();
    if humans == 0 {
        failed.push("K5-commit-time-checkpoint-is-always-taken");
    }
    let _ = std::fs::remove_dir_all(&dir);
    json!({"ok": r.is_ok(), "failed": failed, "checkpoints": cks.len()})
}

/// K6: {previous: [kind?], new_kind, same_tree}: the real append_checkpoint on a real working log
pub fn append_stores(v: &Value) -> Value {
    use git_ai::authorship::working_log::{Checkpoint, CheckpointKind, WorkingLogEntry};
    let dir = std::env::temp_dir().join(format!("vreplay-c14a-{}", std::process::id()));
    let _ = std::fs::remove_dir_all(&dir);
    std::fs::create_dir_all(&dir).unwrap();
    let o = std::process::Command::new("git").args(["init", "-q", "."]).current_dir(&dir).output().unwrap();
    assert!(o.status.success());
    let repo = git_ai::git::find_repository_in_path(dir.to_str().unwrap()).expect("repo");
    let wl = repo.storage.working_log_for_base_commit("0123456789012345678901234567890123456789");
    let kind = |s: &str| if s == "Human" { CheckpointKind::Human } else { CheckpointKind::AiAgent };
    let prev: Vec<String> = v["previous"].as_array().unwrap().iter().map(|x| x.as_str().unwrap().to_string()).collect();
    if let Some(k0) = prev.first() {
        let c0 = Checkpoint::new(kind(k0), "tree1".into(), "x".into(), vec![WorkingLogEntry::new("a".into(), "b0_a".into(), vec![], vec![])]);
        wl.write_all_checkpoints(&[c0]).unwrap();
    }
    let diff = if v["same_tree"].as_bool().unwrap() { "tree1" } else { "tree2" };
    let c1 = Checkpoint::new(
        kind(v["new_kind"].as_str().unwrap()),
        diff.into(),
        "x".into(),
        vec![WorkingLogEntry::new("a".into(), "b1_a".into(), vec![], vec![]), WorkingLogEntry::new("b".into(), "b1_b".into(), vec![], vec![])],
    );
    let r = wl.append_checkpoint(&c1);
    let cks = wl.read_all_checkpoints().unwrap_or_default();
    let mut failed: Vec<&str> = Vec::new();
    if r.is_err() {
        failed.push("K6-append-ok");
    }
    if cks.len() != prev.len() + 1 {
        failed.push("K6-every-checkpoint-is-stored");
    } else if cks.last().map(|c| c.entries.len()) != Some(2) {
        failed.push("K6-stored-checkpoint-keeps-its-entries");
    }
    let _ = std::fs::remove_dir_all(&dir);
    json!({"failed": failed, "stored": cks.len()})
}
