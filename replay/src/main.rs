//! vreplay <kind>: read one JSON object from stdin, run the real git-ai code on
//! the concrete input, print one JSON object on the last line of stdout.
//! A panic is reported through exit code 101 (the default hook), which the
//! driver treats as "panicked".
use serde_json::{json, Value};
use std::io::Read;

mod c01;
mod c02;
mod c03;
mod c04;
mod c05;
mod c06;
mod c07;
mod c08;
mod c09;
mod c12;
mod c14;
mod c15;
mod c16;
mod c17;
mod c18;
mod c19;
mod c20;

pub fn bytes_of(v: &Value) -> Vec<u8> {
    if let Some(s) = v.get("utf8").and_then(|x| x.as_str()) {
        return s.as_bytes().to_vec();
    }
    if let Some(a) = v.get("bytes").and_then(|x| x.as_array()) {
        return a.iter().map(|b| b.as_u64().unwrap() as u8).collect();
    }
    if let Some(s) = v.as_str() {
        return s.as_bytes().to_vec();
    }
    panic!("bad byte string {v}");
}

pub fn string_of(v: &Value) -> String {
    String::from_utf8(bytes_of(v)).expect("replay input is not UTF-8")
}

fn main() {
    let kind = std::env::args().nth(1).expect("kind");
    let mut input = String::new();
    // VREPLAY_INPUT=<file>: take the input from a file (replays that need stdin to be a terminal)
    if let Ok(f) = std::env::var("VREPLAY_INPUT") {
        input = std::fs::read_to_string(f).unwrap();
    } else {
        std::io::stdin().read_to_string(&mut input).unwrap();
    }
    let v: Value = serde_json::from_str(&input).expect("json input");
    let out = match kind.as_str() {
        "c17_roundtrip" => c17::roundtrip(&v),
        "c17_parse" => c17::parse(&v),
        "c17_remap" => c17::remap(&v),
        "c01_added_lines" => c01::added_lines(&v),
        "c02_shift" => c02::shift(&v),
        "c02_blob_reader" => c02::blob_reader(&v),
        "c02_pair_contents" => c02::pair_contents(&v),
        "c02_blob_mode" => c02::blob_mode(&v),
        "c02_replay_step" => c02::replay_step(&v),
        "c02_hook_inert" => c02::hook_inert(&v),
        "c03_checkout_paths" => c03::checkout_paths(&v),
        "c03_reset" => c03::reset(&v),
        "c03_fold" => c03::fold(&v),
        "c03_reset_hard" => c03::reset_hard(&v),
        "c03_force_checkout" => c03::force_checkout(&v),
        "c03_merge_checkout" => c03::merge_checkout(&v),
        "c03_pre_reset" => c03::pre_reset(&v),
        "c03_stash_scope" => c03::stash_scope(&v),
        "c03_staged_then_rewritten" => c03::staged_then_rewritten(&v),
        "c04_split" => c04::split(&v),
        "c04_post_commit_scope" => c04::post_commit_scope(&v),
        "c04_amend_scope" => c04::amend_scope(&v),
        "c05_ranges" => c05::ranges(&v),
        "c05_upsert" => c05::upsert(&v),
        "c05_state" => c05::state(&v),
        "c05_compress" => c05::compress(&v),
        "c05_notes_batch" => c05::notes_batch(&v),
        "c05_note_text" => c05::note_text(&v),
        "c05_rebase_loop" => c05::rebase_loop(&v),
        "c06_handoff" => c06::handoff(&v),
        "c14_entry" => c14::entry(&v),
        "c14_prune_select" => c14::prune_select(&v),
        "c14_pre_commit_skip" => c14::pre_commit_skip(&v),
        "c14_pre_commit_untracked" => c14::pre_commit_untracked(&v),
        "c14_pre_commit_always" => c14::pre_commit_always(&v),
        "c14_append_stores" => c14::append_stores(&v),
        "c15_comparator" => c15::comparator(&v),
        "c15_guards" => c15::guards(&v),
        "c07_journal_parse" => c07::journal_parse(&v),
        "c07_state_read" => c07::state_read(&v),
        "c07_post_hook_journal" => c07::post_hook_journal(&v),
        "c07_storage_ctor" => c07::storage_ctor(&v),
        "c07_pre_commit_refusal" => c07::pre_commit_refusal(&v),
        "c08_policy" => c08::policy(&v),
        "c08_prepare" => c08::prepare(&v),
        "c08_post_commit" => c08::post_commit(&v),
        "c09_lookup" => c09::lookup(&v),
        "c09_overlay" => c09::overlay(&v),
        "c09_blame" => c09::blame(&v),
        "c09_porcelain" => c09::porcelain(&v),
        "c09_json_lines" => c09::json_lines(&v),
        "c09_note_text" => c09::note_text(&v),
        "c09_split" => c09::split(&v),
        "c12_profile" => c12::profile(&v),
        "c12_callsite" => c12::callsite(&v),
        "c12_repo_root" => c12::repo_root(&v),
        "c16_tokenize" => c16::tokenize(&v),
        "c16_lines" => c16::lines(&v),
        "c16_update" => c16::update(&v),
        "c19_accepted" => c19::accepted(&v),
        "c19_totals" => c19::totals(&v),
        "c19_numstat" => c19::numstat(&v),
        "c20_checkpoint" => c20::checkpoint(&v),
        "c20_hook_path" => c20::hook_path(&v),
        "c18_parse" => c18::parse(&v),
        "c18_alias_tokens" => c18::alias_tokens(&v),
        "c18_alias_resolve" => c18::alias_resolve(&v),
        _ => json!({"error": format!("unknown kind {kind}")}),
    };
    println!("{}", out);
}
