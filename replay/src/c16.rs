use crate::bytes_of;
use git_ai::authorship::attribution_tracker::{
    attributions_to_line_attributions, line_attributions_to_attributions, verif_hooks, Attribution,
    AttributionTracker, LineAttribution,
};
use serde_json::{json, Value};

fn text(v: &Value) -> String {
    String::from_utf8(bytes_of(v)).expect("utf8 text")
}

fn attrs(v: &Value) -> Vec<Attribution> {
    v.as_array()
        .unwrap()
        .iter()
        .map(|a| {
            Attribution::new(
                a[0].as_u64().unwrap() as usize,
                a[1].as_u64().unwrap() as usize,
                a[2].as_str().unwrap().to_string(),
                a[3].as_u64().unwrap() as u128,
            )
        })
        .collect()
}

fn lines_json(l: &[LineAttribution]) -> Value {
    Value::Array(
        l.iter()
            .map(|x| json!([x.start_line, x.end_line, x.author_id, x.overrode]))
            .collect(),
    )
}

pub fn tokenize(v: &Value) -> Value {
    let c = text(&v["content"]);
    let a = v["range"][0].as_u64().unwrap() as usize;
    let b = v["range"][1].as_u64().unwrap() as usize;
    let toks = verif_hooks::tokenize_non_whitespace(&c, (a, b), 1);
    json!({"tokens": toks.iter().map(|t| json!([t.0, t.1, t.2, t.3])).collect::<Vec<_>>()})
}

pub fn lines(v: &Value) -> Value {
    let c = text(&v["content"]);
    let at = attrs(&v["attributions"]);
    let l = attributions_to_line_attributions(&at, &c);
    let back = line_attributions_to_attributions(&l, &c, 42);
    let again = attributions_to_line_attributions(&back, &c);
    json!({"lines": lines_json(&l), "again": lines_json(&again)})
}

pub fn update(v: &Value) -> Value {
    let old = text(&v["old"]);
    let new = text(&v["new"]);
    let at = attrs(&v["attributions"]);
    let author = v["author"].as_str().unwrap();
    let ts = v["ts"].as_u64().unwrap() as u128;
    let tr = AttributionTracker::new();
    match tr.update_attributions(&old, &new, &at, author, ts) {
        Ok(out) => {
            let before = attributions_to_line_attributions(&at, &old);
            let after = attributions_to_line_attributions(&out, &new);
            json!({"ok": true,
                   "out": out.iter().map(|a| json!([a.start, a.end, a.author_id, a.ts as u64])).collect::<Vec<_>>(),
                   "before": lines_json(&before), "after": lines_json(&after)})
        }
        Err(e) => json!({"ok": false, "error": e.to_string()}),
    }
}
