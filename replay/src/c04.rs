use git_ai::authorship::attribution_tracker::{Attribution, LineAttribution};
use git_ai::authorship::authorship_log::LineRange;
use git_ai::authorship::virtual_attribution::VirtualAttributions;
use serde_json::{json, Map, Value};
use std::collections::HashMap;

/// {repo, parent, commit, files: {path: [[start,end,author]..]}}
pub fn split(v: &Value) -> Value {
    let dir = v["repo"].as_str().unwrap();
    let repo = git_ai::git::find_repository_in_path(dir).expect("repo");
    let repo2 = git_ai::git::find_repository_in_path(dir).expect("repo");
    let mut attributions: HashMap<String, (Vec<Attribution>, Vec<LineAttribution>)> = HashMap::new();
    for (path, las) in v["files"].as_object().unwrap() {
        let l: Vec<LineAttribution> = las
            .as_array()
            .unwrap()
            .iter()
            .map(|x| {
                LineAttribution::new(
                    x[0].as_u64().unwrap() as u32,
                    x[1].as_u64().unwrap() as u32,
                    x[2].as_str().unwrap().to_string(),
                    None,
                )
            })
            .collect();
        attributions.insert(path.clone(), (Vec::new(), l));
    }
    // every session of the pending state comes with its prompt record
    let mut prompts: std::collections::BTreeMap<String, std::collections::BTreeMap<String, git_ai::authorship::authorship_log::PromptRecord>> =
        std::collections::BTreeMap::new();
    let mut sessions: Vec<String> = attributions
        .values()
        .flat_map(|(_, l)| l.iter().map(|la| la.author_id.clone()))
        .filter(|a| a != "human")
        .collect();
    sessions.sort();
    sessions.dedup();
    for sname in sessions {
        let rec = git_ai::authorship::authorship_log::PromptRecord {
            agent_id: git_ai::authorship::working_log::AgentId { tool: "t".into(), id: format!("id-{sname}"), model: "m".into() },
            human_author: None,
            messages: vec![],
            total_additions: 0,
            total_deletions: 0,
            accepted_lines: 0,
            overriden_lines: 0,
            messages_url: None,
        };
        let mut m = std::collections::BTreeMap::new();
        m.insert(String::new(), rec);
        prompts.insert(sname, m);
    }
    let va = VirtualAttributions::new_with_prompts(repo, v["commit"].as_str().unwrap().to_string(), attributions, HashMap::new(), prompts, 1);
    match va.to_authorship_log_and_initial_working_log(&repo2, v["parent"].as_str().unwrap(), v["commit"].as_str().unwrap(), None) {
        Ok((log, initial)) => {
            let mut note = Map::new();
            let mut wellformed = true;
            for fa in &log.attestations {
                let mut per = Map::new();
                for e in &fa.entries {
                    if e.hash == "human" || per.contains_key(&e.hash) {
                        wellformed = false;
                    }
                    let mut lines: Vec<u32> = Vec::new();
                    let mut prev_end: Option<u32> = None;
                    for r in &e.line_ranges {
                        let (a, b) = match r {
                            LineRange::Single(l) => (*l, *l),
                            LineRange::Range(s, e2) => {
                                if s >= e2 {
                                    wellformed = false;
                                }
                                (*s, *e2)
                            }
                        };
                        if let Some(p) = prev_end {
                            if a <= p + 1 {
                                wellformed = false;
                            }
                        }
                        prev_end = Some(b);
                        lines.extend(a..=b);
                    }
                    per.insert(e.hash.clone(), json!(lines));
                }
                note.insert(fa.file_path.clone(), Value::Object(per));
            }
            let mut init = Map::new();
            for (path, las) in &initial.files {
                let mut per: HashMap<String, Vec<u32>> = HashMap::new();
                for la in las {
                    per.entry(la.author_id.clone()).or_default().extend(la.start_line..=la.end_line);
                }
                init.insert(path.clone(), json!(per));
            }
            let initial_prompts: Vec<String> = initial.prompts.keys().cloned().collect();
            let note_prompts: Vec<String> = log.metadata.prompts.keys().cloned().collect();
            json!({"ok": true, "note": note, "initial": init, "note_wellformed": wellformed, "initial_prompts": initial_prompts, "note_prompts": note_prompts})
        }
        Err(e) => json!({"ok": false, "error": e.to_string()}),
    }
}

/// post-commit scope: {initial: [files], commit_files: [files], checkpoints: [[kind, file, has_attr]..]}
/// a real repository: INITIAL of the parent names `initial` (untracked files with two lines each), the commit
/// touches `commit_files`; after the real post_commit the INITIAL of the new commit must still name every
/// pending file the commit did not take.
pub fn post_commit_scope(v: &Value) -> Value {
    use git_ai::authorship::working_log::{Checkpoint, CheckpointKind, WorkingLogEntry};
    let dir = std::env::temp_dir().join(format!("vreplay-c04p-{}", std::process::id()));
    let _ = std::fs::remove_dir_all(&dir);
    std::fs::create_dir_all(&dir).unwrap();
    let git = |args: &[&str]| {
        let o = std::process::Command::new("git")
            .args(args)
            .current_dir(&dir)
            .env("GIT_AUTHOR_NAME", "v")
            .env("GIT_AUTHOR_EMAIL", "v@v")
            .env("GIT_COMMITTER_NAME", "v")
            .env("GIT_COMMITTER_EMAIL", "v@v")
            .output()
            .unwrap();
        assert!(o.status.success(), "git {:?}: {}", args, String::from_utf8_lossy(&o.stderr));
        String::from_utf8_lossy(&o.stdout).trim().to_string()
    };
    git(&["init", "-q", "."]);
    git(&["config", "user.name", "v"]);
    git(&["config", "user.email", "v@v"]);
    std::fs::write(dir.join("base.txt"), "base\n").unwrap();
    git(&["add", "base.txt"]);
    git(&["commit", "-q", "-m", "base"]);
    let parent = git(&["rev-parse", "HEAD"]);
    let names = |k: &str| -> Vec<String> { v[k].as_array().unwrap().iter().map(|x| x.as_str().unwrap().to_string()).collect() };
    let initial = names("initial");
    let commit_files = names("commit_files");
    for f in &initial {
        std::fs::write(dir.join(f), "pending one\npending two\n").unwrap();
    }
    for f in &commit_files {
        std::fs::write(dir.join(f), "committed one\ncommitted two\n").unwrap();
    }
    let repo = git_ai::git::find_repository_in_path(dir.to_str().unwrap()).expect("repo");
    let wl = repo.storage.working_log_for_base_commit(&parent);
    if !initial.is_empty() {
        let mut files = HashMap::new();
        for f in &initial {
            files.insert(f.clone(), vec![LineAttribution::new(1, 2, "s1".into(), None)]);
        }
        wl.write_initial_attributions(files, HashMap::new()).unwrap();
    }
    let mut cks = Vec::new();
    for (i, c) in v["checkpoints"].as_array().unwrap().iter().enumerate() {
        let kind = match c[0].as_str().unwrap() {
            "Human" => CheckpointKind::Human,
            "AiAgent" => CheckpointKind::AiAgent,
            _ => CheckpointKind::AiTab,
        };
        let who = if c[0] == "Human" { "human" } else { "s1" };
        let la = if c[2].as_bool().unwrap_or(false) { vec![LineAttribution::new(1, 1, who.into(), None)] } else { vec![] };
        let e = WorkingLogEntry::new(c[1].as_str().unwrap().to_string(), format!("b{i}"), vec![], la);
        cks.push(Checkpoint::new(kind, "d".into(), "x".into(), vec![e]));
    }
    wl.write_all_checkpoints(&cks).unwrap();
    for f in &commit_files {
        git(&["add", f]);
    }
    git(&["commit", "-q", "--allow-empty", "-m", "next"]);
    let commit = git(&["rev-parse", "HEAD"]);
    let r = git_ai::authorship::post_commit::post_commit(&repo, Some(parent.clone()), commit.clone(), "v".to_string(), true);
    let wl2 = repo.storage.working_log_for_base_commit(&commit);
    let mut still: Vec<String> = wl2.read_initial_attributions().files.keys().cloned().collect();
    still.sort();
    let lost: Vec<String> = initial.iter().filter(|f| !commit_files.contains(f) && !still.contains(f)).cloned().collect();
    let _ = std::fs::remove_dir_all(&dir);
    json!({"ok": r.is_ok(), "error": r.err().map(|e| e.to_string()), "initial_after": still, "lost": lost})
}

/// a real repository: the working log of a commit names pending AI lines in entries of any checkpoint kind; the
/// commit is amended (taking `commit_files`); after the real amend rewrite every pending AI file must still be
/// accounted for: in the note when the amended commit took it, in the new INITIAL otherwise.
pub fn amend_scope(v: &Value) -> Value {
    use git_ai::authorship::working_log::{Checkpoint, CheckpointKind, WorkingLogEntry};
    let dir = std::env::temp_dir().join(format!("vreplay-c04a-{}", std::process::id()));
    let _ = std::fs::remove_dir_all(&dir);
    std::fs::create_dir_all(&dir).unwrap();
    let git = |args: &[&str]| {
        let o = std::process::Command::new("git")
            .args(args)
            .current_dir(&dir)
            .env("GIT_AUTHOR_NAME", "v")
            .env("GIT_AUTHOR_EMAIL", "v@v")
            .env("GIT_COMMITTER_NAME", "v")
            .env("GIT_COMMITTER_EMAIL", "v@v")
            .output()
            .unwrap();
        assert!(o.status.success(), "git {:?}: {}", args, String::from_utf8_lossy(&o.stderr));
        String::from_utf8_lossy(&o.stdout).trim().to_string()
    };
    git(&["init", "-q", "."]);
    git(&["config", "user.name", "v"]);
    git(&["config", "user.email", "v@v"]);
    std::fs::write(dir.join("base.txt"), "base\n").unwrap();
    git(&["add", "base.txt"]);
    git(&["commit", "-q", "-m", "base"]);
    std::fs::write(dir.join("orig.txt"), "orig\n").unwrap();
    git(&["add", "orig.txt"]);
    git(&["commit", "-q", "-m", "orig"]);
    let orig = git(&["rev-parse", "HEAD"]);
    let commit_files: Vec<String> = v["commit_files"].as_array().unwrap().iter().map(|x| x.as_str().unwrap().to_string()).collect();
    let mut pending: Vec<String> = Vec::new();
    let mut cks = Vec::new();
    for (i, c) in v["checkpoints"].as_array().unwrap().iter().enumerate() {
        let kind = match c[0].as_str().unwrap() {
            "Human" => CheckpointKind::Human,
            "AiAgent" => CheckpointKind::AiAgent,
            _ => CheckpointKind::AiTab,
        };
        let file = c[1].as_str().unwrap().to_string();
        std::fs::write(dir.join(&file), "pending one\n").unwrap();
        let la = match c[2].as_str() {
            Some(who) => {
                if who != "human" && !pending.contains(&file) {
                    pending.push(file.clone());
                }
                vec![LineAttribution::new(1, 1, who.to_string(), None)]
            }
            None => vec![],
        };
        let e = WorkingLogEntry::new(file, format!("b{i}"), vec![], la);
        cks.push(Checkpoint::new(kind, "d".into(), "x".into(), vec![e]));
    }
    for f in &commit_files {
        if !dir.join(f).exists() {
            std::fs::write(dir.join(f), "committed one\n").unwrap();
        }
    }
    let repo = git_ai::git::find_repository_in_path(dir.to_str().unwrap()).expect("repo");
    let wl = repo.storage.working_log_for_base_commit(&orig);
    wl.write_all_checkpoints(&cks).unwrap();
    for f in &commit_files {
        git(&["add", f]);
    }
    git(&["commit", "-q", "--amend", "-m", "amended"]);
    let amended = git(&["rev-parse", "HEAD"]);
    let r = git_ai::authorship::rebase_authorship::rewrite_authorship_after_commit_amend(&repo, &orig, &amended, "Human".to_string());
    let wl2 = repo.storage.working_log_for_base_commit(&amended);
    let mut still: Vec<String> = wl2.read_initial_attributions().files.keys().cloned().collect();
    still.sort();
    let noted: Vec<String> = match &r {
        Ok(log) => log.attestations.iter().map(|a| a.file_path.clone()).collect(),
        Err(_) => vec![],
    };
    let lost: Vec<String> = pending
        .iter()
        .filter(|f| if commit_files.contains(f) { !noted.contains(f) } else { !still.contains(f) })
        .cloned()
        .collect();
    let _ = std::fs::remove_dir_all(&dir);
    json!({"ok": r.is_ok(), "error": r.err().map(|e| e.to_string()), "initial_after": still, "noted": noted, "lost": lost})
}
