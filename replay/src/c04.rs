use git_ai::authorship::attribution_tracker::{Attribution, LineAttribution};
use git_ai::authorship::authorship_log::LineRange;
use git_ai::authorship::virtual_attribution::VirtualAttributions;
use serde_json::{json, Map, Value};
use std::collections::HashMap;

/// {repo, parent, commit, files: {path: [[start,end,author]..]}}
pub fn split(v: &Value) -> Value {
    let dir = v["repo"].as_str().unwrap();
    let repo = git_ai::git::find_repository_in_path(dir).expect("repo");
    let repo2 = git_ai::git::find_repository_in_path(dir).expect("repo");
    let mut attributions: HashMap<String, (Vec<Attribution>, Vec<LineAttribution>)> = HashMap::new();
    for (path, las) in v["files"].as_object().unwrap() {
        let l: Vec<LineAttribution> = las
            .as_array()
            .unwrap()
            .iter()
            .map(|x| {
                LineAttribution::new(
                    x[0].as_u64().unwrap() as u32,
                    x[1].as_u64().unwrap() as u32,
                    x[2].as_str().unwrap().to_string(),
                    None,
                )
            })
            .collect();
        attributions.insert(path.clone(), (Vec::new(), l));
    }
    let va = VirtualAttributions::new(repo, v["commit"].as_str().unwrap().to_string(), attributions, HashMap::new(), 1);
    match va.to_authorship_log_and_initial_working_log(&repo2, v["parent"].as_str().unwrap(), v["commit"].as_str().unwrap(), None) {
        Ok((log, initial)) => {
            let mut note = Map::new();
            let mut wellformed = true;
            for fa in &log.attestations {
                let mut per = Map::new();
                for e in &fa.entries {
                    if e.hash == "human" || per.contains_key(&e.hash) {
                        wellformed = false;
                    }
                    let mut lines: Vec<u32> = Vec::new();
                    let mut prev_end: Option<u32> = None;
                    for r in &e.line_ranges {
                        let (a, b) = match r {
                            LineRange::Single(l) => (*l, *l),
                            LineRange::Range(s, e2) => {
                                if s >= e2 {
                                    wellformed = false;
                                }
                                (*s, *e2)
                            }
                        };
                        if let Some(p) = prev_end {
                            if a <= p + 1 {
                                wellformed = false;
                            }
                        }
                        prev_end = Some(b);
                        lines.extend(a..=b);
                    }
                    per.insert(e.hash.clone(), json!(lines));
                }
                note.insert(fa.file_path.clone(), Value::Object(per));
            }
            let mut init = Map::new();
            for (path, las) in &initial.files {
                let mut per: HashMap<String, Vec<u32>> = HashMap::new();
                for la in las {
                    per.entry(la.author_id.clone()).or_default().extend(la.start_line..=la.end_line);
                }
                init.insert(path.clone(), json!(per));
            }
            json!({"ok": true, "note": note, "initial": init, "note_wellformed": wellformed})
        }
        Err(e) => json!({"ok": false, "error": e.to_string()}),
    }
}
