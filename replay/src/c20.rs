use serde_json::{json, Value};

/// run the real `git-ai checkpoint ...` entry point in-process, in the given working directory.
/// The caller observes the exit status (0 = returned or exit(0), 101 = panic) and the scratch layout.
pub fn checkpoint(v: &Value) -> Value {
    let cwd = v["cwd"].as_str().unwrap();
    std::env::set_current_dir(cwd).expect("chdir");
    let mut args: Vec<String> = vec!["checkpoint".to_string()];
    for a in v["args"].as_array().unwrap() {
        args.push(a.as_str().unwrap().to_string());
    }
    git_ai::commands::git_ai_handlers::handle_git_ai(&args);
    json!({"returned": true})
}
