use serde_json::{json, Value};

/// run the real `git-ai checkpoint ...` entry point in-process, in the given working directory.
/// The caller observes the exit status (0 = returned or exit(0), 101 = panic) and the scratch layout.
pub fn checkpoint(v: &Value) -> Value {
    let cwd = v["cwd"].as_str().unwrap();
    std::env::set_current_dir(cwd).expect("chdir");
    let mut args: Vec<String> = vec!["checkpoint".to_string()];
    for a in v["args"].as_array().unwrap() {
        args.push(a.as_str().unwrap().to_string());
    }
    git_ai::commands::git_ai_handlers::handle_git_ai(&args);
    json!({"returned": true})
}

/// K3: {raw, cwd}: the VS Code hook path normaliser on the counterexample's text
pub fn hook_path(v: &Value) -> Value {
    let raw = String::from_utf8(crate::bytes_of(&v["raw"])).unwrap();
    let p = git_ai::commands::checkpoint_agent::agent_presets::verif_hooks::copilot_normalize_hook_path(&raw, v["cwd"].as_str().unwrap());
    json!({"path": p})
}
