"""Symbolic values for the MIR interpreter.

Scalars are fixed-width bit-vectors (python int when concrete, z3 BitVecRef when
symbolic) or booleans (python bool / z3 BoolRef, width 0).  Aggregates are
mutable python objects; a reference is a (container, key) slot.  Lengths of
strings / vectors are concrete on every path.
"""
import z3


class Unsupported(Exception):
    """The interpreter met something it has no semantics for -> inconclusive."""


class Panic(Exception):
    """The interpreted program panicked on this path."""

    def __init__(self, msg):
        Exception.__init__(self, msg)
        self.msg = msg


class ProcessExit(Exception):
    def __init__(self, code):
        Exception.__init__(self, 'exit(%r)' % (code,))
        self.code = code


def mask(w):
    return (1 << w) - 1


_BVV = {}


class Sc:
    """scalar: integer of width w (signed flag s) or bool (w == 0)."""
    __slots__ = ('v', 'w', 's')

    def __init__(self, v, w, s=False):
        if w and isinstance(v, int):
            v &= (1 << w) - 1
        self.v = v
        self.w = w
        self.s = s

    @property
    def concrete(self):
        return isinstance(self.v, (int, bool))

    def z(self):
        """as z3 expression"""
        v = self.v
        if self.w == 0:
            return z3.BoolVal(v) if isinstance(v, bool) else v
        if isinstance(v, int):
            k = (v, self.w)
            r = _BVV.get(k)
            if r is None:
                r = z3.BitVecVal(v, self.w)
                if len(_BVV) < 100000:
                    _BVV[k] = r
            return r
        return v

    def sval(self):
        """concrete value interpreted with signedness"""
        v = self.v
        if self.w == 0:
            return v
        if self.s and v >> (self.w - 1):
            return v - (1 << self.w)
        return v

    def __repr__(self):
        if self.w == 0:
            return 'Bool(%s)' % (self.v,)
        if isinstance(self.v, int):
            return '%d_%s%d' % (self.sval(), 'i' if self.s else 'u', self.w)
        return 'Sym%s%d(%s)' % ('i' if self.s else 'u', self.w, self.v)


def mk_bool(b):
    if isinstance(b, bool):
        return Sc(b, 0)
    if z3.is_true(b):
        return Sc(True, 0)
    if z3.is_false(b):
        return Sc(False, 0)
    return Sc(b, 0)


TRUE = Sc(True, 0)
FALSE = Sc(False, 0)
UNIT = None  # the unit value is represented by an empty Agg; see interp.unit()


def usize(n):
    return Sc(n, 64, False)


def u8(n):
    return Sc(n, 8, False)


def u32(n):
    return Sc(n, 32, False)


class Cell:
    """storage of one MIR local"""
    __slots__ = ('v',)

    def __init__(self, v=None):
        self.v = v

    def getk(self, k):
        return self.v

    def setk(self, k, v):
        self.v = v


class Agg:
    """struct / tuple / closure / fixed array"""
    __slots__ = ('ty', 'f')

    def __init__(self, ty, f):
        self.ty = ty
        self.f = f

    def getk(self, k):
        f = self.f
        return f[k] if k < len(f) else None

    def setk(self, k, v):
        f = self.f
        while len(f) <= k:
            f.append(None)
        f[k] = v

    def __repr__(self):
        return 'Agg(%s %r)' % (self.ty.rsplit('::', 1)[-1] if self.ty else '', self.f)


class En:
    """enum value.  var is the variant name; for field-less enums the
    discriminant may be symbolic (disc is an Sc, var is None)."""
    __slots__ = ('ty', 'var', 'f', 'disc')

    def __init__(self, ty, var, f=None, disc=None):
        self.ty = ty
        self.var = var
        self.f = f if f is not None else []
        self.disc = disc

    def getk(self, k):
        return self.f[k]

    def setk(self, k, v):
        f = self.f
        while len(f) <= k:
            f.append(None)
        f[k] = v

    def __repr__(self):
        if self.var is None:
            return 'En(%s disc=%r)' % (self.ty, self.disc)
        return '%s::%s%r' % (self.ty.rsplit('::', 1)[-1] if self.ty else '', self.var, tuple(self.f) if self.f else '')


class Ref:
    """thin reference to a slot"""
    __slots__ = ('cont', 'key')

    def __init__(self, cont, key=None):
        self.cont = cont
        self.key = key

    def get(self):
        return self.cont.getk(self.key)

    def set(self, v):
        self.cont.setk(self.key, v)

    def __repr__(self):
        try:
            return '&%r' % (self.get(),)
        except Exception:
            return '&<?>'


class ByteBuf:
    """backing store of a str/String: list of byte values (int or z3 BV8)"""
    __slots__ = ('b',)

    def __init__(self, b):
        self.b = b


class StrRef:
    """&str (or the unsized str place behind it): view into a ByteBuf"""
    __slots__ = ('buf', 'a', 'b')

    def __init__(self, buf, a, b):
        self.buf = buf
        self.a = a
        self.b = b

    def bytes(self):
        return self.buf.b[self.a:self.b]

    def __len__(self):
        return self.b - self.a

    def __repr__(self):
        return 'str(%s)' % show_bytes(self.bytes())


class StringV:
    """String (owned)"""
    __slots__ = ('buf',)

    def __init__(self, b):
        self.buf = ByteBuf(list(b))

    def view(self):
        return StrRef(self.buf, 0, len(self.buf.b))

    def __repr__(self):
        return 'String(%s)' % show_bytes(self.buf.b)


class VecV:
    """Vec<T> / VecDeque<T> / Box<[T]> / array backing"""
    __slots__ = ('e', 'ty')

    def __init__(self, e, ty=None):
        self.e = e
        self.ty = ty

    def getk(self, k):
        return self.e[k]

    def setk(self, k, v):
        self.e[k] = v

    def __repr__(self):
        return 'Vec%r' % (self.e,)


class SliceRef:
    """&[T] (or the unsized [T] place): view into a VecV / Agg array"""
    __slots__ = ('vec', 'a', 'b')

    def __init__(self, vec, a, b):
        self.vec = vec
        self.a = a
        self.b = b

    def elems(self):
        return self._list()[self.a:self.b]

    def _list(self):
        return self.vec.e if isinstance(self.vec, VecV) else self.vec.f

    def __len__(self):
        return self.b - self.a

    def __repr__(self):
        return '&%r' % (self.elems(),)


class BoxV:
    """Box<T> / Rc<T> / Arc<T> / RefCell etc: single owned slot"""
    __slots__ = ('v', 'kind')

    def __init__(self, v, kind='Box'):
        self.v = v
        self.kind = kind

    def getk(self, k):
        return self.v

    def setk(self, k, v):
        self.v = v

    def __repr__(self):
        return '%s(%r)' % (self.kind, self.v)


class MapV:
    """HashMap / BTreeMap / HashSet / BTreeSet as association list.
    entries: list of [key, value] (value None for sets)."""
    __slots__ = ('ent', 'kind', 'ty')

    def __init__(self, kind, ent=None, ty=None):
        self.kind = kind     # 'hash' | 'btree'
        self.ent = ent if ent is not None else []
        self.ty = ty

    def __repr__(self):
        return '%sMap%r' % (self.kind, self.ent)


class Opaque:
    """std value modelled only by a tag and a python payload"""
    __slots__ = ('tag', 'p')

    def __init__(self, tag, p=None):
        self.tag = tag
        self.p = p

    def __repr__(self):
        return 'Opaque(%s %r)' % (self.tag, self.p)


class FnItem:
    __slots__ = ('path',)

    def __init__(self, path):
        self.path = path

    def __repr__(self):
        return 'fn{%s}' % self.path


class IterV:
    """python-level iterator model; subclasses implement next(I) -> value or None
    (None == exhausted) and optionally next_back(I)."""

    def next(self, I):
        raise NotImplementedError

    def next_back(self, I):
        raise Unsupported('next_back on %s' % type(self).__name__)


def show_bytes(bs):
    out = []
    for b in bs:
        if isinstance(b, int):
            if 32 <= b < 127 and b not in (34, 92):
                out.append(chr(b))
            else:
                out.append('\\x%02x' % b)
        else:
            out.append('{%s}' % b)
    return '"' + ''.join(out) + '"'
