"""Light scanner over /repo/src/**/*.rs.

Gives the interpreter the few facts the MIR dump does not print:
  * enum variant order / explicit discriminants  (variant name -> discriminant)
  * struct field order (field name -> index), for harnesses that build values by name
  * the `impl` header text at a source span, to map
        mod::<impl at FILE:L:C: L:C>::method   ->   mod::Type::method / (Trait, Type, method)
It is a token-level scanner, not a Rust parser; anything it cannot make sense of
is simply absent from the tables, and a lookup miss is an inconclusive run.
"""
import os
import re


def _strip_comments_and_strings(src):
    """Replace comments/strings by spaces (keeping newlines and offsets)."""
    out = list(src)
    i = 0
    n = len(src)
    while i < n:
        c = src[i]
        if c == '/' and i + 1 < n and src[i + 1] == '/':
            j = src.find('\n', i)
            if j == -1:
                j = n
            for k in range(i, j):
                out[k] = ' '
            i = j
        elif c == '/' and i + 1 < n and src[i + 1] == '*':
            depth = 1
            j = i + 2
            while j < n and depth:
                if src.startswith('/*', j):
                    depth += 1
                    j += 2
                elif src.startswith('*/', j):
                    depth -= 1
                    j += 2
                else:
                    j += 1
            for k in range(i, j):
                if out[k] != '\n':
                    out[k] = ' '
            i = j
        elif c == '"':
            j = i + 1
            while j < n and src[j] != '"':
                if src[j] == '\\':
                    j += 1
                j += 1
            for k in range(i + 1, min(j, n)):
                if out[k] != '\n':
                    out[k] = ' '
            i = j + 1
        elif c == 'r' and i + 1 < n and src[i + 1] in '#"' and (i == 0 or not (src[i - 1].isalnum() or src[i - 1] == '_')):
            m = re.match(r'r(#*)"', src[i:])
            if m:
                closer = '"' + m.group(1)
                j = src.find(closer, i + len(m.group(0)))
                if j == -1:
                    j = n
                for k in range(i + len(m.group(0)), j):
                    if out[k] != '\n':
                        out[k] = ' '
                i = j + len(closer)
            else:
                i += 1
        elif c == "'":
            # char literal or lifetime
            m = re.match(r"'(\\.[^']*|[^'\\])'", src[i:])
            if m:
                for k in range(i + 1, i + len(m.group(0)) - 1):
                    out[k] = ' '
                i += len(m.group(0))
            else:
                i += 1
        else:
            i += 1
    return ''.join(out)


def _match_brace(s, i):
    depth = 0
    n = len(s)
    while i < n:
        c = s[i]
        if c == '{':
            depth += 1
        elif c == '}':
            depth -= 1
            if depth == 0:
                return i
        i += 1
    return n - 1


def _split_top_commas(s):
    out = []
    depth = 0
    start = 0
    for i, c in enumerate(s):
        if c in '([{<':
            depth += 1
        elif c in ')]}':
            depth -= 1
        elif c == '>' and not (i > 0 and s[i - 1] in '-='):
            depth -= 1
        elif c == ',' and depth == 0:
            out.append(s[start:i])
            start = i + 1
    out.append(s[start:])
    return [x for x in out if x.strip()]


_ATTR = re.compile(r'#\s*!?\[')
# items compiled out of the build whose MIR is executed (default features, unix, not(test))
_CFG_OFF = re.compile(r'#\s*\[\s*cfg\s*\(\s*(feature\s*=\s*"[^"]*"|test|windows|target_os\s*=\s*"windows")\s*\)\s*\]')


def _drop_cfg_disabled(body):
    """remove the comma-separated items (enum variants, struct fields) gated by a cfg that is off"""
    if '#' not in body or 'cfg' not in body:
        return body
    keep = []
    for part in _split_top_commas(body):
        # leading attribute region of the item
        i = 0
        n = len(part)
        off = False
        while True:
            while i < n and part[i].isspace():
                i += 1
            m = _ATTR.match(part, i)
            if not m:
                break
            depth = 0
            j = m.end() - 1
            while j < n:
                if part[j] == '[':
                    depth += 1
                elif part[j] == ']':
                    depth -= 1
                    if depth == 0:
                        break
                j += 1
            if _CFG_OFF.match(part, i):
                off = True
            i = j + 1
        if not off:
            keep.append(part)
    return ','.join(keep)


def _strip_attrs(s):
    """remove #[...] attributes from a clean (comment-free) item body"""
    out = []
    i = 0
    n = len(s)
    while i < n:
        m = _ATTR.match(s, i)
        if m:
            depth = 0
            j = m.end() - 1
            while j < n:
                if s[j] == '[':
                    depth += 1
                elif s[j] == ']':
                    depth -= 1
                    if depth == 0:
                        break
                j += 1
            i = j + 1
        else:
            out.append(s[i])
            i += 1
    return ''.join(out)


class SrcInfo:
    def __init__(self, repo='/repo'):
        self.repo = repo
        self.enums = {}      # 'mod::path::Enum' -> [(variant, discr)]
        self.structs = {}    # 'mod::path::Struct' -> [field names] (tuple structs: ['0','1',..])
        self._files = {}
        self._scan()

    # -- public -----------------------------------------------------------
    def enum_variants(self, path):
        path = _strip_generics(path)
        v = self.enums.get(path)
        if v is None:
            # try by last segment if unique
            last = path.rsplit('::', 1)[-1]
            c = [k for k in self.enums if k.rsplit('::', 1)[-1] == last]
            if len(c) == 1:
                v = self.enums[c[0]]
        return v

    def struct_fields(self, path):
        path = _strip_generics(path)
        v = self.structs.get(path)
        if v is None:
            last = path.rsplit('::', 1)[-1]
            c = [k for k in self.structs if k.rsplit('::', 1)[-1] == last]
            if len(c) == 1:
                v = self.structs[c[0]]
        return v

    def text_at(self, file, l1, c1, l2, c2):
        lines = self._lines(file)
        if lines is None:
            return None
        if l1 == l2:
            return lines[l1 - 1][c1 - 1:c2 - 1]
        parts = [lines[l1 - 1][c1 - 1:]]
        for l in range(l1, l2 - 1):
            parts.append(lines[l])
        parts.append(lines[l2 - 1][:c2 - 1])
        return '\n'.join(parts)

    def impl_header(self, file, l1, c1, l2, c2):
        """Returns (trait or None, self type text) for the impl at the span, or
        ('derive', TraitName) when the span is a derive token."""
        t = self.text_at(file, l1, c1, l2, c2)
        if t is None:
            return None
        t = t.strip()
        if not t.startswith('impl'):
            return ('derive', t)
        # the span usually covers only 'impl ... Type'; extend to the '{' to be safe
        lines = self._lines(file)
        full = '\n'.join(lines[l1 - 1:l1 + 12])
        full = full[c1 - 1:]
        k = full.find('{')
        hdr = full[:k] if k != -1 else t
        w = hdr.find(' where ')
        if w == -1:
            w = hdr.find('\nwhere')
        if w != -1:
            hdr = hdr[:w]
        hdr = ' '.join(hdr.split())
        m = re.match(r'impl(<.*?>)?\s+(.*)$', hdr)
        if not m:
            return None
        rest = m.group(2)
        # careful: generics of impl may contain '>' nested; do a proper skip
        if hdr.startswith('impl<'):
            depth = 0
            for i, c in enumerate(hdr[4:]):
                if c == '<':
                    depth += 1
                elif c == '>':
                    depth -= 1
                    if depth == 0:
                        rest = hdr[4 + i + 1:].strip()
                        break
        k = _find_top_for(rest)
        if k == -1:
            return (None, rest.strip())
        return (rest[:k].strip().lstrip('!'), rest[k + 5:].strip())

    # -- scanning ---------------------------------------------------------
    def _lines(self, file):
        if file not in self._files:
            p = os.path.join(self.repo, file)
            try:
                with open(p, encoding='utf-8') as f:
                    self._files[file] = f.read().split('\n')
            except OSError:
                self._files[file] = None
        return self._files[file]

    def _scan(self):
        root = os.path.join(self.repo, 'src')
        for dp, dn, fn in os.walk(root):
            for f in fn:
                if f.endswith('.rs'):
                    p = os.path.join(dp, f)
                    rel = os.path.relpath(p, root)
                    mod = rel[:-3].split(os.sep)
                    if mod[-1] in ('mod', 'lib', 'main'):
                        mod = mod[:-1]
                    try:
                        src = open(p, encoding='utf-8').read()
                    except OSError:
                        continue
                    self._scan_src(_strip_comments_and_strings(src), mod)

    def _scan_src(self, s, mod):
        # track inline modules by brace matching
        self._scan_region(s, 0, len(s), list(mod))

    def _scan_region(self, s, a, b, mod):
        item = re.compile(r'\b(mod|enum|struct)\s+([A-Za-z_][A-Za-z0-9_]*)')
        i = a
        while True:
            m = item.search(s, i, b)
            if not m:
                return
            kind, name = m.group(1), m.group(2)
            j = m.end()
            # find what follows: '{', '(', ';', '<'
            k = j
            depth = 0
            while k < b:
                c = s[k]
                if c == '<':
                    depth += 1
                elif c == '>' and s[k - 1] not in '-=':
                    depth -= 1
                elif depth == 0 and c in '{(;':
                    break
                k += 1
            if k >= b:
                return
            if kind == 'mod':
                if s[k] == '{':
                    e = _match_brace(s, k)
                    self._scan_region(s, k + 1, e, mod + [name])
                    i = e + 1
                else:
                    i = k + 1
                continue
            path = '::'.join(mod + [name])
            if s[k] == ';':
                if kind == 'struct':
                    self.structs.setdefault(path, [])
                i = k + 1
                continue
            if s[k] == '(':
                # tuple struct
                depth = 0
                e = k
                while e < b:
                    if s[e] == '(':
                        depth += 1
                    elif s[e] == ')':
                        depth -= 1
                        if depth == 0:
                            break
                    e += 1
                if kind == 'struct':
                    n = len(_split_top_commas(_strip_attrs(s[k + 1:e])))
                    self.structs.setdefault(path, [str(x) for x in range(n)])
                i = e + 1
                continue
            # where clauses: the '{' found might belong to ... fine
            e = _match_brace(s, k)
            body = _strip_attrs(_drop_cfg_disabled(s[k + 1:e]))
            if kind == 'enum':
                vs = []
                nxt = 0
                for part in _split_top_commas(body):
                    p = part.strip()
                    mm = re.match(r'([A-Za-z_][A-Za-z0-9_]*)', p)
                    if not mm:
                        continue
                    vname = mm.group(1)
                    dm = re.search(r'=\s*(-?\d+)\s*$', p)
                    if dm and '{' not in p and '(' not in p:
                        nxt = int(dm.group(1))
                    vs.append((vname, nxt))
                    nxt += 1
                self.enums.setdefault(path, vs)
            else:
                fs = []
                for part in _split_top_commas(body):
                    p = part.strip()
                    mm = re.match(r'(?:pub(?:\([^)]*\))?\s+)?([A-Za-z_][A-Za-z0-9_]*)\s*:', p)
                    if mm:
                        fs.append(mm.group(1))
                self.structs.setdefault(path, fs)
            i = e + 1


def _find_top_for(s):
    depth = 0
    for i, c in enumerate(s):
        if c == '<':
            depth += 1
        elif c == '>' and not (i > 0 and s[i - 1] in '-='):
            depth -= 1
        elif depth == 0 and s.startswith(' for ', i):
            return i
    return -1


import functools


@functools.lru_cache(maxsize=None)
def _strip_generics(path):
    out = []
    depth = 0
    i = 0
    n = len(path)
    while i < n:
        c = path[i]
        if c == '<':
            if depth == 0 and out[-2:] == [':', ':']:
                out = out[:-2]
            depth += 1
        elif c == '>' and not (i > 0 and path[i - 1] in '-='):
            depth -= 1
        elif depth == 0:
            out.append(c)
        i += 1
    return ''.join(out)


STD_ENUMS = {
    'std::option::Option': [('None', 0), ('Some', 1)],
    'core::option::Option': [('None', 0), ('Some', 1)],
    'std::result::Result': [('Ok', 0), ('Err', 1)],
    'core::result::Result': [('Ok', 0), ('Err', 1)],
    'std::ops::ControlFlow': [('Continue', 0), ('Break', 1)],
    'core::ops::ControlFlow': [('Continue', 0), ('Break', 1)],
    'std::cmp::Ordering': [('Less', -1), ('Equal', 0), ('Greater', 1)],
    'core::cmp::Ordering': [('Less', -1), ('Equal', 0), ('Greater', 1)],
    'std::borrow::Cow': [('Borrowed', 0), ('Owned', 1)],
    'std::ops::Bound': [('Included', 0), ('Excluded', 1), ('Unbounded', 2)],
    'std::collections::hash_map::Entry': [('Occupied', 0), ('Vacant', 1)],
    'std::collections::btree_map::Entry': [('Vacant', 0), ('Occupied', 1)],
    'std::path::Component': [('Prefix', 0), ('RootDir', 1), ('CurDir', 2), ('ParentDir', 3), ('Normal', 4)],
    'serde_json::Value': [('Null', 0), ('Bool', 1), ('Number', 2), ('String', 3), ('Array', 4), ('Object', 5)],
    'serde_json::value::Value': [('Null', 0), ('Bool', 1), ('Number', 2), ('String', 3), ('Array', 4), ('Object', 5)],
    'std::io::ErrorKind': [('NotFound', 0), ('PermissionDenied', 1), ('AlreadyExists', 12), ('Other', 39)],
}
