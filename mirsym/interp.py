"""MIR symbolic interpreter: one Path object executes one path; Explorer
re-executes with recorded decision prefixes until every feasible path is done.
"""
import os
import re
import sys
import time
import z3

from . import mir as M
from .values import *
from . import rsrc

sys.setrecursionlimit(20000)


LIBC_CONSTS = {'libc::SIG_DFL': (0, 64, False), 'libc::SIG_IGN': (1, 64, False), 'libc::SIGHUP': (1, 32, True), 'libc::SIGINT': (2, 32, True),
               'libc::STDIN_FILENO': (0, 32, True), 'libc::STDOUT_FILENO': (1, 32, True), 'libc::STDERR_FILENO': (2, 32, True),
               'libc::SIGQUIT': (3, 32, True), 'libc::SIGTERM': (15, 32, True), 'libc::SIGKILL': (9, 32, True), 'libc::SIGPIPE': (13, 32, True)}


class Inconclusive(Exception):
    """solver unknown / budget exhausted -> exit 2"""


class Infeasible(Exception):
    """path condition became unsatisfiable (assume false)"""


# ---------------------------------------------------------------------------
# callee parsing

class Callee:
    __slots__ = ('raw', 'key', 'selfty', 'trait', 'traitgen', 'method', 'gen', 'pathgen')

    def __repr__(self):
        return 'Callee(%s)' % self.raw


_LIFETIME = re.compile(r"'[a-z_][a-z0-9_]*\b(?!')(, | )?")


import functools


@functools.lru_cache(maxsize=None)
def strip_lifetimes(s):
    s = re.sub(r"::<'[a-z_][a-z0-9_]*(, '[a-z_][a-z0-9_]*)*>", '', s)
    s = re.sub(r"<'[a-z_][a-z0-9_]*(, '[a-z_][a-z0-9_]*)*>", '', s)
    s = re.sub(r"'[a-z_][a-z0-9_]*, ", '', s)
    s = re.sub(r"&'[a-z_][a-z0-9_]* ", '&', s)
    s = re.sub(r"'[a-z_][a-z0-9_]*\b ?", '', s)
    return s


def norm_std(s):
    if s.startswith('core::') or s.startswith('alloc::'):
        s = 'std::' + s.split('::', 1)[1]
    return s


def split_generic_suffix(s):
    """'a::b::<X, Y>' -> ('a::b', ['X','Y'])"""
    if s.endswith('>'):
        # find matching '<' for final '>'
        depth = 0
        i = len(s) - 1
        while i >= 0:
            c = s[i]
            if c == '>' and not (i > 0 and s[i - 1] in '-='):
                depth += 1
            elif c == '<':
                depth -= 1
                if depth == 0:
                    break
            i -= 1
        if i >= 2 and s[i - 2:i] == '::':
            return s[:i - 2], M.split_top(s[i + 1:-1])
    return s, []


def strip_all_generics(path):
    """remove every ::<...> and Type<...> generic list outside of <impl ..> segments"""
    out = []
    depth = 0
    i = 0
    n = len(path)
    while i < n:
        c = path[i]
        if c == '<':
            if path.startswith('<impl ', i) and depth == 0:
                j = M.find_matching(path, i)
                seg = path[i:j + 1]
                out.append(_norm_impl_seg(seg))
                i = j + 1
                continue
            if depth == 0 and len(out) >= 2 and out[-1] == ':' and out[-2] == ':':
                out = out[:-2]
            depth += 1
        elif c == '>' and not (i > 0 and path[i - 1] in '-='):
            depth -= 1
        elif depth == 0:
            out.append(c)
        i += 1
    return ''.join(out)


def _norm_impl_seg(seg):
    inner = seg[6:-1]
    if inner.startswith('[') and inner.endswith(']'):
        return '<impl [T]>'
    if inner.startswith('*const ') or inner.startswith('*mut '):
        return '<impl *T>'
    base = inner.split('<')[0]
    return '<impl %s>' % base


def parse_callee(raw):
    c = Callee()
    c.raw = raw
    s = strip_lifetimes(raw)
    c.selfty = None
    c.trait = None
    c.traitgen = []
    c.pathgen = []
    qualified = False
    if s.startswith('<'):
        close0 = M.find_matching(s, 0)
        qualified = not s.startswith('<impl ') or M._find_top(s[1:close0], ' as ') != -1
    if qualified:
        close = M.find_matching(s, 0)
        inner = s[1:close]
        rest = s[close + 1:]
        k = M._find_top(inner, ' as ')
        if k == -1:
            # <T>::method  (inherent on a type written in angle form)
            c.selfty = inner
            rest, c.gen = split_generic_suffix(rest)
            c.method = rest[2:]
            c.key = 'type::' + c.method
            return c
        c.selfty = inner[:k].strip()
        tr = inner[k + 4:].strip()
        tr_base, tgen = _split_type_generics(tr)
        c.trait = norm_std(tr_base)
        c.traitgen = tgen
        rest, c.gen = split_generic_suffix(rest)
        c.method = rest[2:]
        c.key = c.trait + '::' + c.method
        return c
    body, c.gen = split_generic_suffix(s)
    # generics attached to the type: std::vec::Vec::<T>::len
    m = re.search(r'::<', body)
    if m:
        # take the first generic list as pathgen
        i = m.start()
        j = M.find_matching(body, i + 2)
        c.pathgen = M.split_top(body[i + 3:j])
    k = re.search(r'<impl ([^<>]*(<.*>)?[^<>]*)>', body)
    if k and c.selfty is None:
        c.selfty = k.group(1)
    c.key = norm_std(strip_all_generics(body))
    c.method = c.key.rsplit('::', 1)[-1]
    return c


def _split_type_generics(t):
    """'std::ops::Index<usize>' -> ('std::ops::Index', ['usize'])"""
    i = t.find('<')
    if i == -1 or not t.endswith('>'):
        return t, []
    return t[:i], M.split_top(t[i + 1:-1])


def type_base(t):
    """base path of a type string without refs/generics"""
    t = t.strip()
    while t.startswith('&'):
        t = t[1:].lstrip()
        if t.startswith('mut '):
            t = t[4:]
    return t.split('<')[0]


# ---------------------------------------------------------------------------

class Machine:
    """Everything shared by all paths: MIR, source tables, resolution caches."""

    def __init__(self, mir_path, repo='/repo'):
        self.mir = M.MirIndex(mir_path)
        self.src = rsrc.SrcInfo(repo)
        self.callee_cache = {}
        self.resolve_cache = {}
        self.models = {}          # key -> handler
        self.model_patterns = []  # (regex, handler)
        self.env = {}             # crate fn name -> python handler (environment models)
        self.functions_encoded = {}
        self.stubs_used = set()
        self.inherent_alias = {}  # 'mod::Type::method' -> mir name
        self.trait_impls = {}     # (trait_last, self_last, method) -> [mir name]
        self.derived_impls = set()
        self.crate_overrides = set()
        self.env_patterns = []   # (compiled regex over crate function names, handler): harness-installed environment boundary
        self._build_impl_index()
        self.enum_cache = {}
        self.adt_cache = {}
        self.discr_cache = {}
        self.global_cells = {}

    # -- impl index ------------------------------------------------------
    _IMPL_RE = re.compile(r'<impl at (src/[^:>]+):(\d+):(\d+): (\d+):(\d+)>')

    def _build_impl_index(self):
        hdr_cache = {}
        for name in self.mir.names():
            ms = list(self._IMPL_RE.finditer(name))
            if not ms:
                continue
            m = ms[-1]
            rest = name[m.end():]
            if not rest.startswith('::'):
                continue
            span = m.groups()
            h = hdr_cache.get(span)
            if h is None:
                h = self.src.impl_header(span[0], int(span[1]), int(span[2]), int(span[3]), int(span[4]))
                hdr_cache[span] = h
            if h is None:
                continue
            modpath = name[:ms[0].start()]
            if len(ms) > 1 and not (h[0] == 'derive' and h[1] in ('Default', 'Clone', 'PartialEq', 'Eq', 'PartialOrd', 'Ord', 'Hash')):
                continue  # nested impls (serde derive internals); derives on function-local types are kept
            params, ret = self.mir.signature(name)
            if h[0] == 'derive':
                trait = h[1]
                if not params:
                    if not ret or ret == '()':
                        continue
                    selfty = type_base(ret).rsplit('::', 1)[-1]
                else:
                    selfty = type_base(params[0][1]).rsplit('::', 1)[-1]
                method = rest[2:]
                if '::' in method:
                    continue
                self.trait_impls.setdefault((trait, selfty, method), []).append(name)
                self.derived_impls.add(name)
            elif h[0] is None:
                ty = h[1].split('<')[0].strip().rsplit('::', 1)[-1]
                alias = modpath + ty + rest
                self.inherent_alias[alias] = name
            else:
                trait = h[0].split('<')[0].strip().rsplit('::', 1)[-1]
                selfty = type_base(h[1]).rsplit('::', 1)[-1]
                method = rest[2:]
                if '::' in method:
                    # closure inside a trait method: alias by full text, rarely called directly
                    continue
                self.trait_impls.setdefault((trait, selfty, method), []).append(name)

    # -- enums ------------------------------------------------------------
    def enum_table(self, path):
        """path without generics -> [(variant, discr)] or None"""
        t = self.enum_cache.get(path, 0)
        if t != 0:
            return t
        p = norm_std(path)
        t = rsrc.STD_ENUMS.get(p)
        if t is None and not p.startswith('std::'):
            t = self.src.enums.get(path)
            if t is None:
                # enums declared inside a function body: mod::function::Enum
                t = self.src.enum_variants(path)
        self.enum_cache[path] = t
        return t

    def discr_of(self, en):
        if en.disc is not None:
            return en.disc
        hit = self.discr_cache.get((en.ty, en.var))
        if hit is not None:
            return hit
        r = self._discr_of(en)
        self.discr_cache[(en.ty, en.var)] = r
        return r

    def _discr_of(self, en):
        t = self.enum_table(rsrc._strip_generics(en.ty))
        if t is None:
            t = self.src.enum_variants(en.ty)
        if t is None:
            raise Unsupported('unknown enum %s' % en.ty)
        for (v, d) in t:
            if v == en.var:
                return Sc(d, 64, True)
        raise Unsupported('unknown variant %s::%s' % (en.ty, en.var))

    # -- callee resolution ------------------------------------------------
    def callee(self, raw):
        c = self.callee_cache.get(raw)
        if c is None:
            c = parse_callee(raw)
            self.callee_cache[raw] = c
        return c

    def resolve(self, raw):
        """-> ('env', handler) | ('mir', name) | ('model', handler, callee)"""
        r = self.resolve_cache.get(raw)
        if r is not None:
            return r
        r = self._resolve(raw)
        self.resolve_cache[raw] = r
        return r

    def candidate(self, raw):
        """name resolution only: the MIR function a callee text denotes, or None"""
        c = self.callee(raw)
        mir = self.mir
        # exact
        cand = None
        if mir.has(raw):
            cand = raw
        else:
            s = strip_lifetimes(raw)
            if mir.has(s):
                cand = s
            else:
                nog = strip_all_generics(s) if not s.startswith('<') else None
                if nog and mir.has(nog):
                    cand = nog
                elif nog and nog in self.inherent_alias:
                    cand = self.inherent_alias[nog]
                elif c.trait is not None:
                    tl = c.trait.rsplit('::', 1)[-1]
                    sl = type_base(c.selfty).rsplit('::', 1)[-1]
                    lst = self.trait_impls.get((tl, sl, c.method))
                    if lst:
                        if len(lst) == 1:
                            cand = lst[0]
                        else:
                            cand = self._disambiguate(c, lst)
                elif nog:
                    # closure / nested item of an inherent method:  mod::Type::method::{closure#0}
                    for alias, nm in self.inherent_alias.items():
                        if nog.startswith(alias + '::'):
                            t = nm + nog[len(alias):]
                            if mir.has(t):
                                cand = t
                                break
        if cand is None:
            # 'mod::<impl some::Type>::method' (how a body refers to items nested in an inherent method)
            m = re.match(r'^(.*?)<impl ([^<>]+)>::(.+)$', strip_lifetimes(raw))
            if m:
                alias = m.group(1) + m.group(2).rsplit('::', 1)[-1] + '::' + m.group(3)
                if alias in self.inherent_alias:
                    cand = self.inherent_alias[alias]
        return cand

    def _resolve(self, raw):
        c = self.callee(raw)
        mir = self.mir
        cand = self.candidate(raw)
        if cand is not None:
            key = strip_all_generics(strip_lifetimes(cand)) if not cand.startswith('<') else cand
            for k in (cand, key, c.key):
                if k in self.env:
                    return ('env', self.env[k], c)
            if c.key in self.models and c.key in self.crate_overrides:
                return ('model', self.models[c.key], c)
            for (rx, hnd) in self.env_patterns:
                if rx.match(key) or rx.match(c.key):
                    return ('env', hnd, c)
            # inherent alias names for env lookup
            for alias, nm in self.inherent_alias.items():
                if nm == cand and alias in self.env:
                    return ('env', self.env[alias], c)
            return ('mir', cand, c)
        if c.key in self.env:
            return ('env', self.env[c.key], c)
        h = self.models.get(c.key)
        if h is not None:
            return ('model', h, c)
        for (rx, h) in self.model_patterns:
            if rx.match(c.key):
                return ('model', h, c)
        return ('unknown', None, c)

    def _disambiguate(self, c, lst):
        # choose by trait generic argument text appearing in the impl header
        if c.traitgen:
            want = c.traitgen[0].rsplit('::', 1)[-1]
            hits = []
            for nm in lst:
                m = self._IMPL_RE.search(nm)
                h = self.src.impl_header(m.group(1), int(m.group(2)), int(m.group(3)), int(m.group(4)), int(m.group(5)))
                if h and h[0] and want in h[0]:
                    hits.append(nm)
            if len(hits) == 1:
                return hits[0]
        # choose by first param type == selfty
        hits = []
        for nm in lst:
            params, ret = self.mir.signature(nm)
            if params and type_base(params[0][1]) == type_base(c.selfty):
                hits.append(nm)
        if len(hits) == 1:
            return hits[0]
        raise Unsupported('ambiguous trait impl for %s: %s' % (c.raw, lst))

    def find_fn(self, name):
        """name as written in source terms (mod::Type::method or mod::func) -> MIR name"""
        if self.mir.has(name):
            return name
        if name in self.inherent_alias:
            return self.inherent_alias[name]
        raise Unsupported('function %s not found in MIR (renamed or removed?)' % name)


# ---------------------------------------------------------------------------

# ---------------------------------------------------------------------------
# second opinion: a sample of the deciding queries is re-asked to cvc5 (SMT-LIB2 text of the z3 solver
# state + the assumptions); a different verdict makes the run inconclusive
CROSS = {'left': int(os.environ.get('VERIF_CVC5_SAMPLE', '0') or 0), 'every': int(os.environ.get('VERIF_CVC5_EVERY', '97') or 97),
         'asked': 0, 'agreed': 0, 'skipped': 0, 'secs': 0.0}


def cross_check(solver, assumptions, z3_sat):
    import subprocess
    t = time.time()
    try:
        s2 = z3.Solver()
        s2.add(solver.assertions())
        for a in assumptions:
            s2.add(a)
        text = '(set-logic QF_BV)\n' + s2.to_smt2()
        p = subprocess.run(['cvc5', '--lang', 'smt2', '--tlimit=20000'], input=text.encode(), stdout=subprocess.PIPE, stderr=subprocess.PIPE, timeout=40)
        out = p.stdout.decode('utf-8', 'replace').strip().split('\n')
        verdict = out[0].strip() if out else ''
    except Exception:
        verdict = ''
    CROSS['secs'] += time.time() - t
    CROSS['left'] -= 1
    if verdict not in ('sat', 'unsat'):
        CROSS['skipped'] += 1
        return
    CROSS['asked'] += 1
    if (verdict == 'sat') == z3_sat:
        CROSS['agreed'] += 1
    else:
        raise Inconclusive('z3 says %s, cvc5 says %s on the same query' % ('sat' if z3_sat else 'unsat', verdict))


class Frame:
    __slots__ = ('f', 'cells')


class Path:
    """State of one execution path."""

    def __init__(self, machine, solver, prefix, cfg=None):
        self.M = machine
        self.solver = solver
        self.prefix = prefix
        self.decisions = []
        self.alts = []          # new decision prefixes discovered on this path
        self.pc = []
        self.nfresh = 0
        self.steps = 0
        self.queries = 0
        self.solver_s = 0.0
        self.inputs = {}        # name -> z3 const (harness-created symbols)
        self.events = []        # environment recorder
        self.depth = 0
        cfg = cfg or {}
        self.max_steps = cfg.get('max_steps', 2_000_000)
        self.max_depth = cfg.get('max_depth', 60)
        self.state = {}         # scratch for environment models (fs etc.)
        self.decided = {}       # ast id of a decided condition -> bool (valid for this path only)
        self._keep = []
        from .models import util as _u
        _u.DOMAINS.clear()
        _u.RANGES.clear()
        del _u.KEEP[:]
        self.trace = cfg.get('trace', False)

    # -- symbols -----------------------------------------------------------
    def fresh(self, w, hint='t'):
        self.nfresh += 1
        return z3.BitVec('%s!%d' % (hint, self.nfresh), w)

    def fresh_bool(self, hint='b'):
        self.nfresh += 1
        return z3.Bool('%s!%d' % (hint, self.nfresh))

    def input_bv(self, name, w):
        v = z3.BitVec(name, w)
        self.inputs[name] = v
        return v

    # -- constraints / branching -------------------------------------------
    def assume(self, cond):
        """add a constraint to the path condition (harness assumption)"""
        if isinstance(cond, Sc):
            cond = cond.v
        if isinstance(cond, bool):
            if not cond:
                raise Infeasible()
            return
        self.pc.append(cond)
        self.solver.add(cond)

    def _check(self, *assumptions):
        t = time.time()
        r = self.solver.check(*assumptions)
        self.solver_s += time.time() - t
        self.queries += 1
        if r == z3.unknown:
            raise Inconclusive('solver returned unknown: %s' % self.solver.reason_unknown())
        if CROSS['left'] > 0:
            CROSS['n'] = CROSS.get('n', 0) + 1
            if CROSS['n'] % CROSS['every'] == 0:
                cross_check(self.solver, assumptions, r == z3.sat)
        return r == z3.sat

    def feasible(self, cond):
        if isinstance(cond, bool):
            return cond
        return self._check(cond)

    def _add(self, c):
        if not isinstance(c, bool):
            self.pc.append(c)
            self.solver.add(c)

    def _learn(self, cond, value):
        """remember a decided condition for this path; narrow byte domains on x == const"""
        self.decided[cond.get_id()] = value
        self._keep.append(cond)
        try:
            if z3.is_eq(cond) and cond.num_args() == 2:
                a, b = cond.arg(0), cond.arg(1)
                if z3.is_bv_value(a):
                    a, b = b, a
                if z3.is_bv_value(b) and z3.is_const(a) and a.size() == 8:
                    from .models import util as _u
                    d = _u.DOMAINS.get(a.get_id())
                    if d is not None:
                        v = b.as_long()
                        _u.DOMAINS[a.get_id()] = frozenset([v]) if value else (d - {v})
        except z3.Z3Exception:
            pass

    def branch(self, cond):
        """cond: Sc bool | python bool | z3 Bool.  Returns python bool, forking as needed."""
        if isinstance(cond, Sc):
            cond = cond.v
        if isinstance(cond, bool):
            return cond
        cond = z3.simplify(cond)
        if z3.is_true(cond):
            return True
        if z3.is_false(cond):
            return False
        known = self.decided.get(cond.get_id())
        if known is not None:
            return known
        neg_form = None
        if z3.is_not(cond):
            inner = cond.arg(0)
            k2 = self.decided.get(inner.get_id())
            if k2 is not None:
                return not k2
            neg_form = inner
        k = len(self.decisions)
        if k < len(self.prefix):
            d = self.prefix[k]
            self.decisions.append(d)
            self._add(cond if d == 1 else z3.Not(cond))
            self._learn(cond if neg_form is None else neg_form, (d == 1) if neg_form is None else (d != 1))
            return d == 1
        ncond = z3.Not(cond)
        if not self._check(cond):
            self.decisions.append(0)
            self._add(ncond)
            res = False
        elif not self._check(ncond):
            self.decisions.append(1)
            self._add(cond)
            res = True
        else:
            self.alts.append(self.decisions + [0])
            self.decisions.append(1)
            self._add(cond)
            res = True
        self._learn(cond if neg_form is None else neg_form, res if neg_form is None else (not res))
        return res

    def choose(self, conds):
        """conds: list of z3 Bool / python bool, intended mutually exclusive.
        Returns the index of the alternative taken on this path."""
        k = len(self.decisions)
        if k < len(self.prefix):
            d = self.prefix[k]
            self.decisions.append(d)
            self._add(conds[d])
            return d
        feas = []
        for i, c in enumerate(conds):
            if isinstance(c, bool):
                if c:
                    feas.append(i)
            else:
                c2 = z3.simplify(c)
                if z3.is_false(c2):
                    continue
                if z3.is_true(c2) or self._check(c2):
                    feas.append(i)
        if not feas:
            raise Infeasible()
        for i in feas[1:]:
            self.alts.append(self.decisions + [i])
        d = feas[0]
        self.decisions.append(d)
        self._add(conds[d])
        return d

    def choice(self, n):
        """unconstrained nondeterministic choice among n alternatives"""
        if n == 1:
            return 0
        return self.choose([True] * n)

    def concretize(self, sc, lo, hi):
        """sc: Sc integer; returns python int in [lo, hi] forking over feasible values"""
        if sc.concrete:
            return sc.v
        vals = list(range(lo, hi + 1))
        conds = [sc.v == z3.BitVecVal(v, sc.w) for v in vals]
        return vals[self.choose(conds)]

    # -- execution ---------------------------------------------------------
    def call_named(self, name, args):
        """call a crate function by its source-level name"""
        mname = self.M.find_fn(name)
        return self.run_fn(self.M.mir.get(mname), args)

    def run_fn(self, f, args):
        self.depth += 1
        if self.depth > self.max_depth:
            raise Unsupported('call depth exceeded in %s' % f.name)
        fe = self.M.functions_encoded
        if f.name not in fe:
            fe[f.name] = f.src_hash
        cells = {}
        for idx in f.locals:
            cells[idx] = Cell()
        if 0 not in cells:
            cells[0] = Cell()
        if len(args) != len(f.params):
            raise Unsupported('arity mismatch calling %s: %d args for %d params' % (f.name, len(args), len(f.params)))
        for (loc, ty), a in zip(f.params, args):
            cells[loc].v = a
        bb = 0
        blocks = f.blocks
        try:
            while True:
                blk = blocks[bb]
                self.steps += 1
                if self.steps > self.max_steps:
                    raise Inconclusive('step budget exhausted in %s' % f.name)
                for st in blk.stmts:
                    k = st[0]
                    if k == 'assign':
                        val = self.rvalue(f, cells, st[2])
                        self.assign(f, cells, st[1], val)
                    elif k == 'nop' or k == 'dead':
                        pass
                    elif k == 'setdisc':
                        self.set_discriminant(f, cells, st[1], st[2])
                    elif k == 'assume':
                        pass
                    else:
                        raise Unsupported('statement %r' % (st,))
                t = blk.term
                if t is None:
                    raise Unsupported('entered cleanup block in %s' % f.name)
                k = t.kind
                if k == 'goto':
                    bb = t.a
                elif k == 'switch':
                    bb = self.do_switch(f, cells, t)
                elif k == 'call':
                    res = self.do_call(f, cells, t)
                    if t.d is None:
                        raise Unsupported('diverging call returned: %s' % t.a)
                    if t.c is not None:
                        self.assign(f, cells, t.c, res)
                    bb = t.d
                elif k == 'return':
                    return cells[0].v
                elif k == 'drop':
                    bb = t.b
                elif k == 'assert':
                    v = self.operand(f, cells, t.a)
                    ok = self.branch(v if t.b else self.not_(v))
                    if not ok:
                        raise Panic('assert failed: %s' % t.d)
                    bb = t.c
                elif k == 'callptr':
                    fnv = self.operand(f, cells, t.a)
                    args2 = [self.operand(f, cells, a) for a in t.b]
                    res = self.call_value(fnv, args2)
                    if t.c is not None:
                        self.assign(f, cells, t.c, res)
                    bb = t.d
                elif k == 'unreachable':
                    raise Unsupported('reached `unreachable` in %s bb%d' % (f.name, bb))
                else:
                    raise Unsupported('terminator %s in %s' % (k, f.name))
        finally:
            self.depth -= 1

    # -- places ------------------------------------------------------------
    def resolve(self, f, cells, place):
        """-> Ref (slot) or a view value (StrRef/SliceRef) for unsized places"""
        cur = Ref(cells[place.local], None)
        view = None
        for p in place.proj:
            k = p[0]
            if view is not None:
                # projections on an unsized view
                if k == 'index':
                    idx = self.concretize(cells[p[1]].v, 0, max(len(view) - 1, 0))
                    cur, view = self._view_elem(view, idx), None
                elif k == 'cindex':
                    idx = (len(view) - p[1]) if p[3] else p[1]
                    cur, view = self._view_elem(view, idx), None
                elif k == 'subslice':
                    a = p[1]
                    b = len(view) - p[2] if p[3] else (p[2] if p[2] else len(view))
                    view = type(view)(view.buf if isinstance(view, StrRef) else view.vec, view.a + a, view.a + b)
                else:
                    raise Unsupported('projection %r on view' % (p,))
                continue
            if k == 'deref':
                v = cur.get()
                if isinstance(v, Ref):
                    cur = v
                elif isinstance(v, BoxV):
                    cur = Ref(v, None)
                elif isinstance(v, (StrRef, SliceRef)):
                    view = v
                elif v is None:
                    raise Unsupported('deref of uninitialised local in %s (%r)' % (f.name, place))
                else:
                    raise Unsupported('deref of %s in %s' % (type(v).__name__, f.name))
            elif k == 'field':
                v = cur.get()
                if v is None:
                    v = Agg(f.locals.get(place.local, ''), [])
                    cur.set(v)
                if isinstance(v, (Agg, En)):
                    cur = Ref(v, p[1])
                elif isinstance(v, BoxV) and p[1] == 0:
                    # Box internals: (_b.0: Unique<T>).0: NonNull<T> – the raw pointer of the box
                    cur = Ref(Cell(BoxPtr(v)), None)
                elif isinstance(v, BoxPtr) and p[1] == 0:
                    cur = Ref(Cell(v), None)
                else:
                    raise Unsupported('field .%d of %s in %s' % (p[1], type(v).__name__, f.name))
            elif k == 'downcast':
                v = cur.get()
                if not isinstance(v, En):
                    raise Unsupported('downcast of %s in %s' % (type(v).__name__, f.name))
                if v.var != p[1]:
                    raise Unsupported('downcast to %s but value is %s in %s' % (p[1], v.var, f.name))
            elif k == 'index':
                v = cur.get()
                n = len(v.f) if isinstance(v, Agg) else len(v.e)
                idx = self.concretize(cells[p[1]].v, 0, max(n - 1, 0))
                cur = Ref(v, idx)
            elif k == 'cindex':
                v = cur.get()
                n = len(v.f) if isinstance(v, Agg) else len(v.e)
                cur = Ref(v, (n - p[1]) if p[3] else p[1])
            else:
                raise Unsupported('projection %r' % (p,))
        if view is not None:
            return view
        return cur

    def _view_elem(self, view, idx):
        if isinstance(view, SliceRef):
            if idx < 0 or view.a + idx >= view.b:
                raise Panic('index out of bounds')
            return Ref(view.vec, view.a + idx)
        raise Unsupported('index into str view')

    def read(self, f, cells, place):
        if not place.proj:
            return cells[place.local].v
        r = self.resolve(f, cells, place)
        if isinstance(r, Ref):
            return r.get()
        return r

    def assign(self, f, cells, place, val):
        if not place.proj:
            cells[place.local].v = val
            return
        r = self.resolve(f, cells, place)
        if not isinstance(r, Ref):
            raise Unsupported('assignment to unsized place')
        r.set(val)

    def set_discriminant(self, f, cells, place, idx):
        raise Unsupported('SetDiscriminant')

    # -- operands / rvalues ------------------------------------------------
    def operand(self, f, cells, op):
        k = op.kind
        if k == 'copy':
            return copy_val(self.read(f, cells, op.place))
        if k == 'move':
            return self.read(f, cells, op.place)
        return self.const(op.const)

    def const(self, c):
        k = c[0]
        if k == 'int':
            w, s = M.INT_TYPES[c[2]]
            return Sc(c[1], w, s)
        if k == 'bool':
            return Sc(c[1], 0)
        if k == 'str':
            b = list(c[1])
            return StrRef(ByteBuf(b), 0, len(b))
        if k == 'bstr':
            b = [Sc(x, 8) for x in c[1]]
            return Ref(Cell(Agg('[u8; %d]' % len(b), b)), None)
        if k == 'char':
            return Sc(c[1], 32)
        if k == 'unit':
            return unit()
        if k == 'zst':
            t = c[1]
            if t.startswith('{closure@'):
                return Agg(t, [])
            if t.startswith('fn(') or ' {' in t:
                m = re.search(r'\{(.*)\}$', t)
                if m:
                    return FnItem(m.group(1))
            return Agg(t, [])
        if k == 'fnitem':
            return FnItem(c[1])
        if k == 'named':
            return self.named_const(c[1])
        if k == 'float':
            return Opaque('f64', float(c[1].replace('inf', 'inf')))
        if k == 'alloc':
            return self.static_ref(c[1], c[2])
        raise Unsupported('const %r' % (c,))

    def named_const(self, path):
        Mx = self.M
        # enum unit variants / variants printed as consts
        base, _ = split_generic_suffix(path)
        p = rsrc._strip_generics(strip_lifetimes(path))
        if '::' in p:
            ety, var = p.rsplit('::', 1)
            tab = Mx.enum_table(ety)
            if tab is not None and any(v == var for v, _ in tab):
                return En(ety, var, [])
        # promoted / associated / module constants with a MIR body
        for cand in (path, strip_lifetimes(path), p):
            if Mx.mir.has(cand):
                key = ('const', cand)
                if key in Mx.global_cells:
                    return copy_val(Mx.global_cells[key])
                v = self.run_fn(Mx.mir.get(cand), [])
                # constants evaluate to concrete data; cache is safe when no symbols involved
                return v
        # promoted of a trait method: '<T as Trait>::m::promoted[0]' is printed at the
        # definition as 'mod::<impl at ..>::m::promoted[0]'
        m = re.match(r'(.*)::(promoted\[\d+\])$', path)
        if m:
            r = Mx.resolve(m.group(1))
            base = r[1] if r[0] == 'mir' else Mx.candidate(m.group(1))
            if base:
                cand = base + '::' + m.group(2)
                if Mx.mir.has(cand):
                    return self.run_fn(Mx.mir.get(cand), [])
        if p in ('std::ops::RangeFull', 'core::ops::RangeFull'):
            return Agg('std::ops::RangeFull', [])
        if p in ('std::time::UNIX_EPOCH', 'std::time::SystemTime::UNIX_EPOCH'):
            return Opaque('Instant', None)
        if p in LIBC_CONSTS:
            v, w, sg = LIBC_CONSTS[p]
            return Sc(v, w, sg)
        m = re.fullmatch(r'(?:core|std)::num::<impl ([iu](?:8|16|32|64|128|size))>::(MAX|MIN|BITS)', path)
        if not m:
            m = re.fullmatch(r'(?:std::|core::)?([iu](?:8|16|32|64|128|size))::(MAX|MIN|BITS)', p)
        if m:
            w, sg = M.INT_TYPES[m.group(1)]
            if m.group(2) == 'BITS':
                return Sc(w, 32)
            if m.group(2) == 'MAX':
                return Sc(((1 << (w - 1)) - 1) if sg else ((1 << w) - 1), w, sg)
            return Sc(-(1 << (w - 1)) if sg else 0, w, sg)
        raise Unsupported('named const %s' % path)

    def static_ref(self, alloc, ty):
        """reference to a static: an opaque per-path cell (atomics / locks are modelled at their API)"""
        cells = self.state.setdefault('statics', {})
        c = cells.get(alloc)
        if c is None:
            c = Cell(BoxV(None, 'static'))
            cells[alloc] = c
        return Ref(c, None)

    def not_(self, v):
        if v.w == 0:
            if isinstance(v.v, bool):
                return Sc(not v.v, 0)
            return Sc(z3.Not(v.v), 0)
        if v.concrete:
            return Sc(~v.v, v.w, v.s)
        return Sc(~v.v, v.w, v.s)

    def rvalue(self, f, cells, rv):
        k = rv[0]
        if k == 'use':
            return self.operand(f, cells, rv[1])
        if k == 'ref' or k == 'rawref':
            pl = rv[1]
            r = self.resolve(f, cells, pl)
            return r
        if k == 'binop':
            a = self.operand(f, cells, rv[2])
            b = self.operand(f, cells, rv[3])
            return binop(rv[1], a, b)
        if k == 'unop':
            a = self.operand(f, cells, rv[2])
            op = rv[1]
            if op == 'Not':
                return self.not_(a)
            if op == 'Neg':
                if a.concrete:
                    return Sc(-a.v, a.w, a.s)
                return Sc(-a.v, a.w, a.s)
            if op == 'PtrMetadata':
                if isinstance(a, (StrRef, SliceRef)):
                    return usize(len(a))
                if isinstance(a, Ref):
                    t = a.get()
                    if isinstance(t, Agg):
                        return usize(len(t.f))
                    return unit()
                raise Unsupported('PtrMetadata of %s' % type(a).__name__)
            raise Unsupported('unop %s' % op)
        if k == 'discriminant':
            v = self.read(f, cells, rv[1])
            if isinstance(v, En):
                return self.M.discr_of(v)
            raise Unsupported('discriminant of %s in %s' % (type(v).__name__, f.name))
        if k == 'cast':
            return self.cast(rv[1], self.operand(f, cells, rv[2]), rv[3])
        if k == 'tuple':
            ops = [self.operand(f, cells, o) for o in rv[1]]
            return Agg('()', ops)
        if k == 'array':
            return Agg('[]', [self.operand(f, cells, o) for o in rv[1]])
        if k == 'repeat':
            v = self.operand(f, cells, rv[1])
            try:
                n = int(rv[2].split('_')[0])
            except ValueError:
                raise Unsupported('array repeat count %r' % rv[2])
            if n > 4096:
                raise Unsupported('large array repeat')
            return Agg('[]', [copy_val(v) for _ in range(n)])
        if k == 'adt':
            return self.adt(rv[1], [self.operand(f, cells, o) for o in rv[2]])
        if k == 'closure':
            return Agg(rv[1], [self.operand(f, cells, o) for o in rv[2]])
        if k == 'len':
            v = self.read(f, cells, rv[1])
            if isinstance(v, (StrRef, SliceRef)):
                return usize(len(v))
            if isinstance(v, Agg):
                return usize(len(v.f))
            raise Unsupported('Len of %s' % type(v).__name__)
        raise Unsupported('rvalue %r' % (k,))

    def adt(self, path, ops):
        info = self.M.adt_cache.get(path)
        if info is None:
            p = rsrc._strip_generics(strip_lifetimes(path))
            info = (None, p)
            if '::' in p:
                ety, var = p.rsplit('::', 1)
                tab = self.M.enum_table(ety)
                if tab is not None:
                    for v, d in tab:
                        if v == var:
                            info = (ety, var)
            self.M.adt_cache[path] = info
        if info[0] is not None:
            return En(info[0], info[1], ops)
        return Agg(info[1], ops)

    def cast(self, kind, v, ty):
        if kind == 'IntToInt':
            ty = ty.strip()
            if ty == 'char':
                w, s = 32, False
            elif ty == 'bool':
                raise Unsupported('int to bool cast')
            else:
                w, s = M.INT_TYPES[ty]
            if isinstance(v, En):
                v = self.M.discr_of(v)
            return int_cast(v, w, s)
        if kind.startswith('PointerCoercion(Unsize'):
            if isinstance(v, Ref):
                t = v.get()
                if isinstance(t, Agg) and (t.ty == '[]' or t.ty.startswith('[')) and ty.lstrip('&mut ').startswith('['):
                    return SliceRef(t, 0, len(t.f))
            if isinstance(v, BoxV) and isinstance(v.v, Agg) and v.v.ty == '[]' and 'Box<[' in ty:
                return VecV(v.v.f)
            return v
        if kind.startswith('PointerCoercion(ReifyFnPointer') or kind.startswith('PointerCoercion(ClosureFnPointer'):
            return v
        if kind.startswith('PointerCoercion(MutToConstPointer') or kind in ('PtrToPtr', 'FnPtrToPtr', 'PointerExposeProvenance', 'PointerWithExposedProvenance'):
            return v
        if kind == 'Transmute':
            if isinstance(v, BoxPtr):
                return Ref(v.box, None)
            if isinstance(v, Sc) and ty.strip() in M.INT_TYPES:
                w, s = M.INT_TYPES[ty.strip()]
                if w == v.w:
                    return Sc(v.v, w, s)
            if isinstance(v, Sc) and ty.strip() == 'char':
                return Sc(v.v, 32)
            raise Unsupported('transmute to %s' % ty)
        if kind in ('IntToFloat', 'FloatToInt', 'FloatToFloat'):
            return float_cast(kind, v, ty)
        raise Unsupported('cast kind %s' % kind)

    # -- control -------------------------------------------------------------
    def do_switch(self, f, cells, t):
        v = self.operand(f, cells, t.a)
        if not isinstance(v, Sc):
            raise Unsupported('switchInt on %s' % type(v).__name__)
        cases = t.b
        if v.w == 0:
            # bool: cases are [0: bbF] otherwise bbT  (or occasionally 1:)
            if isinstance(v.v, bool):
                iv = 1 if v.v else 0
                for (cv, bb) in cases:
                    if cv == iv:
                        return bb
                return t.c
            conds = []
            tg = []
            for (cv, bb) in cases:
                conds.append(v.v if cv == 1 else z3.Not(v.v))
                tg.append(bb)
            if t.c is not None:
                seen = {cv for cv, _ in cases}
                rest = [x for x in (0, 1) if x not in seen]
                if rest:
                    conds.append(v.v if rest[0] == 1 else z3.Not(v.v))
                    tg.append(t.c)
            if len(conds) == 2:
                # plain 2-way branch: use branch() so decisions are binary
                if self.branch(conds[0]):
                    return tg[0]
                return tg[1]
            return tg[self.choose(conds)]
        if v.concrete:
            sv = v.v
            for (cv, bb) in cases:
                if (cv & mask(v.w)) == sv:
                    return bb
            if t.c is None:
                raise Unsupported('switch without otherwise and no case matched')
            return t.c
        conds = []
        tg = []
        for (cv, bb) in cases:
            conds.append(v.v == z3.BitVecVal(cv, v.w))
            tg.append(bb)
        if t.c is not None:
            conds.append(z3.And([v.v != z3.BitVecVal(cv, v.w) for cv, _ in cases]) if cases else True)
            tg.append(t.c)
        if len(conds) == 2:
            if self.branch(conds[0]):
                return tg[0]
            return tg[1]
        return tg[self.choose(conds)]

    def do_call(self, f, cells, t):
        r = self.M.resolve(t.a)
        kind = r[0]
        args = [self.operand(f, cells, a) for a in t.b]
        if self.trace:
            print('  ' * self.depth, 'call', t.a[:140], file=sys.stderr)
        if kind == 'mir':
            fn = self.M.mir.get(r[1])
            return self.run_fn(fn, self._untuple(fn, args, r[2]))
        dest_ty = None
        if t.c is not None:
            dest_ty = place_type(f, t.c)
        if kind == 'model':
            return r[1](self, r[2], args, dest_ty)
        if kind == 'env':
            self.M.stubs_used.add(r[2].key)
            return r[1](self, r[2], args, dest_ty)
        # calls through a generic parameter (<T as Trait>::method) inside an un-monomorphised body:
        # dispatch on the runtime type of the receiver
        c = r[2]
        if c.trait is not None and c.method == 'into' and c.trait.endswith('::Into') and (c.selfty or '').startswith('impl '):
            from .models.core import convert_from
            return convert_from(self, args[0], '<impl>', c.traitgen[0] if c.traitgen else dest_ty)
        if c.trait is not None and args and re.fullmatch(r'[A-Z][A-Za-z0-9]*', c.selfty or ''):
            from .models.util import tgt
            recv = tgt(args[0])
            ty = getattr(recv, 'ty', None)
            if ty:
                lst = self.M.trait_impls.get((c.trait.rsplit('::', 1)[-1], ty.rsplit('::', 1)[-1], c.method))
                if lst and len(lst) == 1:
                    fn = self.M.mir.get(lst[0])
                    return self.run_fn(fn, args)
        raise Unsupported('no model for callee: %s   [key %s]' % (t.a, r[2].key))

    def _untuple(self, fn, args, c):
        # closures called through Fn* traits receive (closure, (args..)) — rust-call ABI
        if len(args) != len(fn.params) and len(args) == 2 and isinstance(args[1], Agg) and args[1].ty == '()':
            return [args[0]] + list(args[1].f)
        return args

    def call_value(self, fnv, args):
        """call a closure / fn item / fn pointer value with already-untupled args"""
        if isinstance(fnv, Ref):
            tgt = fnv.get()
            if isinstance(tgt, (Agg, FnItem)) and not (isinstance(tgt, Agg) and not tgt.ty.startswith('{closure')):
                inner = tgt
            else:
                inner = tgt
        else:
            inner = fnv
        if isinstance(inner, FnItem):
            r = self.M.resolve(inner.path)
            if r[0] == 'mir':
                return self.run_fn(self.M.mir.get(r[1]), args)
            if r[0] in ('model', 'env'):
                return r[1](self, r[2], args, None)
            # tuple-struct / enum-variant constructors used as functions
            return self.adt(inner.path, args)
        if isinstance(inner, Agg) and inner.ty.startswith('{closure'):
            name = self.M.mir.closure_by_span.get(inner.ty)
            if name is None:
                name = self.M.mir.closure_by_span.get(strip_lifetimes(inner.ty))
            if name is None:
                raise Unsupported('closure body not found for %s' % inner.ty)
            fn = self.M.mir.get(name)
            p0 = fn.params[0][1]
            if p0.startswith('&'):
                selfarg = fnv if isinstance(fnv, Ref) else Ref(Cell(inner), None)
            else:
                selfarg = inner
            return self.run_fn(fn, [selfarg] + list(args))
        if isinstance(inner, PyFn):
            return inner.fn(self, *args)
        raise Unsupported('call of value %r' % (inner,))


class BoxPtr:
    """the raw pointer stored inside a Box (reached through its private fields)"""
    __slots__ = ('box',)

    def __init__(self, box):
        self.box = box


class PyFn:
    """python callable usable where the program expects a closure"""

    def __init__(self, fn):
        self.fn = fn


def unit():
    return Agg('()', [])


def place_type(f, place):
    if not place.proj:
        return f.locals.get(place.local)
    last = place.proj[-1]
    if last[0] == 'field':
        return last[2]
    return None


def copy_val(v):
    if isinstance(v, Agg):
        return Agg(v.ty, [copy_val(x) for x in v.f])
    if isinstance(v, En):
        return En(v.ty, v.var, [copy_val(x) for x in v.f], v.disc)
    return v


# ---------------------------------------------------------------------------
# scalar arithmetic

def _z(a):
    return a.z()


def int_cast(v, w, s):
    if not isinstance(v, Sc):
        raise Unsupported('int cast of %s' % type(v).__name__)
    if v.w == 0:
        if isinstance(v.v, bool):
            return Sc(1 if v.v else 0, w, s)
        return Sc(z3.If(v.v, z3.BitVecVal(1, w), z3.BitVecVal(0, w)), w, s)
    if v.concrete:
        return Sc(v.sval(), w, s)
    if w == v.w:
        return Sc(v.v, w, s)
    if w < v.w:
        return Sc(z3.Extract(w - 1, 0, v.v), w, s)
    if v.s:
        return Sc(z3.SignExt(w - v.w, v.v), w, s)
    return Sc(z3.ZeroExt(w - v.w, v.v), w, s)


def float_cast(kind, v, ty):
    if kind == 'IntToFloat':
        if isinstance(v, Sc) and v.concrete:
            return Opaque('f64', float(v.sval()))
        raise Unsupported('symbolic int to float')
    if kind == 'FloatToInt':
        if isinstance(v, Opaque) and v.tag == 'f64':
            w, s = M.INT_TYPES[ty.strip()]
            x = v.p
            if x != x:
                return Sc(0, w, s)
            lo = -(1 << (w - 1)) if s else 0
            hi = (1 << (w - 1)) - 1 if s else (1 << w) - 1
            x = max(lo, min(hi, int(x)))
            return Sc(x, w, s)
        raise Unsupported('symbolic float to int')
    if kind == 'FloatToFloat':
        return v
    raise Unsupported(kind)


_CMP = {'Eq', 'Ne', 'Lt', 'Le', 'Gt', 'Ge'}


def binop(op, a, b):
    if isinstance(a, Opaque) or isinstance(b, Opaque):
        return float_binop(op, a, b)
    if not isinstance(a, Sc) or not isinstance(b, Sc):
        if op in ('Eq', 'Ne') and isinstance(a, FnItem) and isinstance(b, FnItem):
            r = a.path == b.path
            return Sc(r if op == 'Eq' else not r, 0)
        raise Unsupported('binop %s on %s,%s' % (op, type(a).__name__, type(b).__name__))
    if a.w == 0:
        return bool_binop(op, a, b)
    w, s = a.w, a.s
    conc = a.concrete and b.concrete
    if op in _CMP:
        if conc:
            x, y = a.sval(), b.sval()
            r = {'Eq': x == y, 'Ne': x != y, 'Lt': x < y, 'Le': x <= y, 'Gt': x > y, 'Ge': x >= y}[op]
            return Sc(r, 0)
        x, y = a.z(), b.z()
        if op == 'Eq':
            r = x == y
        elif op == 'Ne':
            r = x != y
        elif s:
            r = {'Lt': x < y, 'Le': x <= y, 'Gt': x > y, 'Ge': x >= y}[op]
        else:
            r = {'Lt': z3.ULT(x, y), 'Le': z3.ULE(x, y), 'Gt': z3.UGT(x, y), 'Ge': z3.UGE(x, y)}[op]
        return mk_bool(z3.simplify(r))
    if op in ('Shl', 'Shr', 'ShlUnchecked', 'ShrUnchecked'):
        if conc:
            sh = b.v % w
            if op.startswith('Shl'):
                return Sc(a.v << sh, w, s)
            return Sc((a.sval() >> sh), w, s)
        sh = int_cast(b, w, False).z()
        sh = z3.URem(sh, z3.BitVecVal(w, w))
        x = a.z()
        if op.startswith('Shl'):
            return Sc(x << sh, w, s)
        return Sc((x >> sh) if s else z3.LShR(x, sh), w, s)
    if b.w != w:
        raise Unsupported('binop %s width mismatch %d/%d' % (op, a.w, b.w))
    if op.endswith('WithOverflow'):
        base = op[:3]
        if conc:
            x, y = a.sval(), b.sval()
            r = {'Add': x + y, 'Sub': x - y, 'Mul': x * y}[base]
            lo = -(1 << (w - 1)) if s else 0
            hi = (1 << (w - 1)) - 1 if s else (1 << w) - 1
            return Agg('()', [Sc(r, w, s), Sc(not (lo <= r <= hi), 0)])
        x, y = a.z(), b.z()
        if base == 'Add':
            r = x + y
            ok = z3.And(z3.BVAddNoOverflow(x, y, s), z3.BVAddNoUnderflow(x, y)) if s else z3.BVAddNoOverflow(x, y, False)
        elif base == 'Sub':
            r = x - y
            ok = z3.And(z3.BVSubNoOverflow(x, y), z3.BVSubNoUnderflow(x, y, True)) if s else z3.BVSubNoUnderflow(x, y, False)
        else:
            r = x * y
            ok = z3.And(z3.BVMulNoOverflow(x, y, s), z3.BVMulNoUnderflow(x, y)) if s else z3.BVMulNoOverflow(x, y, False)
        return Agg('()', [Sc(r, w, s), mk_bool(z3.simplify(z3.Not(ok)))])
    if op.endswith('Unchecked'):
        op = op[:3]
    if conc:
        x, y = a.sval(), b.sval()
        if op == 'Add':
            r = x + y
        elif op == 'Sub':
            r = x - y
        elif op == 'Mul':
            r = x * y
        elif op == 'Div':
            if y == 0:
                raise Panic('division by zero')
            r = abs(x) // abs(y)
            if (x < 0) != (y < 0):
                r = -r
        elif op == 'Rem':
            if y == 0:
                raise Panic('remainder by zero')
            r = abs(x) % abs(y)
            if x < 0:
                r = -r
        elif op == 'BitAnd':
            r = a.v & b.v
        elif op == 'BitOr':
            r = a.v | b.v
        elif op == 'BitXor':
            r = a.v ^ b.v
        else:
            raise Unsupported('binop %s' % op)
        return Sc(r, w, s)
    x, y = a.z(), b.z()
    if op == 'Add':
        r = x + y
    elif op == 'Sub':
        r = x - y
    elif op == 'Mul':
        r = x * y
    elif op == 'Div':
        r = (x / y) if s else z3.UDiv(x, y)
    elif op == 'Rem':
        r = z3.SRem(x, y) if s else z3.URem(x, y)
    elif op == 'BitAnd':
        r = x & y
    elif op == 'BitOr':
        r = x | y
    elif op == 'BitXor':
        r = x ^ y
    elif op == 'Cmp':
        raise Unsupported('three-way Cmp binop')
    else:
        raise Unsupported('binop %s' % op)
    return Sc(r, w, s)


def bool_binop(op, a, b):
    if a.concrete and b.concrete:
        x, y = a.v, b.v
        r = {'Eq': x == y, 'Ne': x != y, 'BitAnd': x and y, 'BitOr': x or y, 'BitXor': x != y,
             'Lt': (not x) and y, 'Le': (not x) or y, 'Gt': x and not y, 'Ge': x or not y}[op]
        return Sc(bool(r), 0)
    x, y = a.z(), b.z()
    if op == 'Eq':
        r = x == y
    elif op in ('Ne', 'BitXor'):
        r = z3.Xor(x, y)
    elif op == 'BitAnd':
        r = z3.And(x, y)
    elif op == 'BitOr':
        r = z3.Or(x, y)
    else:
        raise Unsupported('bool binop %s' % op)
    return mk_bool(z3.simplify(r))


def float_binop(op, a, b):
    def fv(x):
        if isinstance(x, Opaque) and x.tag == 'f64':
            return x.p
        raise Unsupported('float op on %r' % (x,))
    x, y = fv(a), fv(b)
    if op in _CMP:
        r = {'Eq': x == y, 'Ne': x != y, 'Lt': x < y, 'Le': x <= y, 'Gt': x > y, 'Ge': x >= y}[op]
        return Sc(r, 0)
    if op == 'Add':
        return Opaque('f64', x + y)
    if op == 'Sub':
        return Opaque('f64', x - y)
    if op == 'Mul':
        return Opaque('f64', x * y)
    if op == 'Div':
        if y == 0:
            return Opaque('f64', float('inf') if x > 0 else float('-inf') if x < 0 else float('nan'))
        return Opaque('f64', x / y)
    raise Unsupported('float binop %s' % op)


# ---------------------------------------------------------------------------
# exploration

class Explorer:
    """Re-execution DFS over decision prefixes."""

    def __init__(self, machine, cfg=None, seed=0, timeout_ms=60000):
        self.M = machine
        self.cfg = cfg or {}
        self.solver = z3.SolverFor('QF_BV')
        self.solver.set('timeout', timeout_ms)
        self.solver.set('random_seed', seed)
        self.paths = 0
        self.steps = 0
        self.queries = 0
        self.solver_s = 0.0
        self.outcomes = {}

    def run(self, body, on_path=None, max_paths=1_000_000):
        """body(P) executes one path and returns its result (any python value);
        on_path(P, outcome) is called for every completed path where outcome is
        ('ok', result) | ('panic', msg) | ('exit', code)."""
        work = [[]]
        while work:
            prefix = work.pop()
            self.solver.push()
            P = Path(self.M, self.solver, prefix, self.cfg)
            try:
                try:
                    res = body(P)
                    out = ('ok', res)
                except Panic as e:
                    out = ('panic', e.msg)
                except ProcessExit as e:
                    out = ('exit', e.code)
                except Infeasible:
                    out = None
                if out is not None:
                    self.paths += 1
                    self.outcomes[out[0]] = self.outcomes.get(out[0], 0) + 1
                    if on_path is not None:
                        on_path(P, out)
                if self.paths > max_paths:
                    raise Inconclusive('path budget exhausted')
            finally:
                self.steps += P.steps
                self.queries += P.queries
                self.solver_s += P.solver_s
                self.solver.pop()
            work.extend(P.alts)
