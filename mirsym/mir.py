"""Parser for rustc's textual MIR dump (-Zunpretty=mir).

The dump is indexed once (function name -> byte span); bodies are parsed on
demand.  Anything the parser does not understand raises MirError, which the
caller turns into an *inconclusive* run (exit 2), never into a pass.
"""
import re
import hashlib


class MirError(Exception):
    pass


# --------------------------------------------------------------------------
# lexical helpers

def split_top(s, sep=','):
    """Split s on sep at bracket depth 0, respecting string/char literals."""
    out = []
    depth = 0
    i = 0
    n = len(s)
    start = 0
    while i < n:
        c = s[i]
        if c == '"':
            i = _skip_string(s, i)
            continue
        if c == "'":
            j = _skip_char(s, i)
            if j is not None:
                i = j
                continue
        if c in '([{':
            depth += 1
        elif c in ')]}':
            depth -= 1
        elif c == '<':
            depth += 1
        elif c == '>':
            if i > 0 and s[i - 1] == '-':
                pass
            elif i > 0 and s[i - 1] == '=':
                pass
            else:
                depth -= 1
        elif c == sep and depth == 0:
            out.append(s[start:i].strip())
            start = i + 1
        i += 1
    tail = s[start:].strip()
    if tail or out:
        out.append(tail)
    return out


def _skip_string(s, i):
    # s[i] == '"'
    i += 1
    n = len(s)
    while i < n:
        c = s[i]
        if c == '\\':
            i += 2
            continue
        if c == '"':
            return i + 1
        i += 1
    raise MirError('unterminated string literal: %r' % s[:80])


def _skip_char(s, i):
    # s[i] == "'"; returns index after literal or None if it is a lifetime
    n = len(s)
    if i + 2 < n and s[i + 1] == '\\':
        j = s.find("'", i + 2)
        # '\'' case
        if j == i + 2:
            j = s.find("'", i + 3)
        if j != -1 and j - i <= 12:
            return j + 1
        return None
    if i + 2 < n and s[i + 2] == "'":
        return i + 3
    # multi-byte char literal (python str is unicode so 1 char) handled above
    return None


def find_matching(s, i):
    """s[i] is an opening bracket; return index of its match."""
    pairs = {'(': ')', '[': ']', '{': '}', '<': '>'}
    op = s[i]
    cl = pairs[op]
    depth = 0
    n = len(s)
    while i < n:
        c = s[i]
        if c == '"':
            i = _skip_string(s, i)
            continue
        if c == "'":
            j = _skip_char(s, i)
            if j is not None:
                i = j
                continue
        if c == op:
            depth += 1
        elif c == cl:
            if not (cl == '>' and i > 0 and s[i - 1] in '-='):
                depth -= 1
                if depth == 0:
                    return i
        i += 1
    raise MirError('unbalanced %r in %r' % (op, s[:120]))


_ESC = {'n': 10, 't': 9, 'r': 13, '0': 0, '\\': 92, '"': 34, "'": 39}


def unescape_bytes(body):
    """Rust (byte) string literal body -> bytes.  body is a python str."""
    out = bytearray()
    i = 0
    n = len(body)
    while i < n:
        c = body[i]
        if c == '\\':
            d = body[i + 1]
            if d == 'x':
                out.append(int(body[i + 2:i + 4], 16))
                i += 4
            elif d == 'u':
                j = body.index('}', i)
                out += chr(int(body[i + 3:j], 16)).encode('utf-8')
                i = j + 1
            elif d in _ESC:
                out.append(_ESC[d])
                i += 2
            elif d == '\n':
                # line continuation
                i += 2
                while i < n and body[i] in ' \t\n\r':
                    i += 1
            else:
                raise MirError('bad escape \\%s' % d)
        else:
            out += c.encode('utf-8')
            i += 1
    return bytes(out)


# --------------------------------------------------------------------------
# places / operands / rvalues

INT_TYPES = {
    'u8': (8, False), 'u16': (16, False), 'u32': (32, False), 'u64': (64, False),
    'u128': (128, False), 'usize': (64, False),
    'i8': (8, True), 'i16': (16, True), 'i32': (32, True), 'i64': (64, True),
    'i128': (128, True), 'isize': (64, True),
}


class Place:
    __slots__ = ('local', 'proj')

    def __init__(self, local, proj=()):
        self.local = local
        self.proj = proj

    def __repr__(self):
        return 'Place(_%d%s)' % (self.local, ''.join(str(p) for p in self.proj))


def parse_place(s):
    s = s.strip()
    p, rest = _parse_place(s, 0)
    if rest != len(s):
        raise MirError('trailing place text %r in %r' % (s[rest:], s))
    return p


_LOCAL_RE = re.compile(r'_(\d+)')


def _parse_place(s, i):
    """returns (Place, next index)"""
    n = len(s)
    if s[i] == '(':
        # (*P)  |  (P.N: T)  |  (P as V)
        if s[i + 1] == '*':
            inner, j = _parse_place(s, i + 2)
            if s[j] != ')':
                raise MirError('bad deref place %r' % s)
            base = Place(inner.local, inner.proj + (('deref',),))
            j += 1
        else:
            inner, j = _parse_place(s, i + 1)
            if s[j] == '.':
                m = re.compile(r'\.(\d+): ').match(s, j)
                if not m:
                    raise MirError('bad field place %r' % s)
                close = find_matching(s, i)
                ty = s[m.end():close]
                base = Place(inner.local, inner.proj + (('field', int(m.group(1)), ty),))
                j = close + 1
            elif s.startswith(' as ', j):
                close = find_matching(s, i)
                name = s[j + 4:close]
                base = Place(inner.local, inner.proj + (('downcast', name),))
                j = close + 1
            else:
                raise MirError('bad paren place %r at %d' % (s, j))
    else:
        m = _LOCAL_RE.match(s, i)
        if not m:
            raise MirError('bad place %r at %d' % (s, i))
        base = Place(int(m.group(1)))
        j = m.end()
    # index suffixes
    while j < n and s[j] == '[':
        close = find_matching(s, j)
        inner = s[j + 1:close]
        m = re.fullmatch(r'_(\d+)', inner)
        if m:
            base = Place(base.local, base.proj + (('index', int(m.group(1))),))
        else:
            m = re.fullmatch(r'(-?)(\d+) of (\d+)', inner)
            if m:
                base = Place(base.local, base.proj + (('cindex', int(m.group(2)), int(m.group(3)), m.group(1) == '-'),))
            else:
                m = re.fullmatch(r'(\d+):(-?)(\d*)', inner)
                if m:
                    base = Place(base.local, base.proj + (('subslice', int(m.group(1)), int(m.group(3) or 0), m.group(2) == '-'),))
                else:
                    raise MirError('bad index projection %r' % inner)
        j = close + 1
    return base, j


def parse_const(s):
    """s is the text after 'const '. Returns a tuple describing the constant."""
    s = s.strip()
    if s.startswith('"'):
        end = _skip_string(s, 0)
        return ('str', unescape_bytes(s[1:end - 1]))
    if s.startswith('b"'):
        end = _skip_string(s, 1)
        return ('bstr', unescape_bytes(s[2:end - 1]))
    if s.startswith("b'"):
        body = s[2:s.rindex("'")]
        return ('int', unescape_bytes(body)[0], 'u8')
    if s.startswith("'"):
        body = s[1:s.rindex("'")]
        b = unescape_bytes(body).decode('utf-8')
        return ('char', ord(b))
    if s == 'true':
        return ('bool', True)
    if s == 'false':
        return ('bool', False)
    if s == '()':
        return ('unit',)
    m = re.fullmatch(r'(-?\d+)_([iu](?:8|16|32|64|128|size))', s)
    if m:
        return ('int', int(m.group(1)), m.group(2))
    m = re.fullmatch(r'(-?[\d.]+(?:[eE][-+]?\d+)?|[-+]?inf|NaN)(f32|f64)', s)
    if m:
        return ('float', m.group(1), m.group(2))
    if s.startswith('ZeroSized: '):
        return ('zst', s[len('ZeroSized: '):])
    if s.startswith('{alloc'):
        m = re.match(r'\{(alloc\d+)(?:\+0x[0-9a-f]+)?: (.*)\}$', s)
        if m:
            return ('alloc', m.group(1), m.group(2))
    if s.startswith('('):
        # tuple constant such as (const A, const B)? rustc prints e.g. "(1_u32, 2_u32)"?
        return ('raw', s)
    return ('named', s)


class Operand:
    __slots__ = ('kind', 'place', 'const')

    def __init__(self, kind, place=None, const=None):
        self.kind = kind  # 'copy' | 'move' | 'const'
        self.place = place
        self.const = const

    def __repr__(self):
        if self.kind == 'const':
            return 'const %r' % (self.const,)
        return '%s %r' % (self.kind, self.place)


def parse_operand(s):
    s = s.strip()
    if s.startswith('no_retag '):
        s = s[len('no_retag '):]
    if s.startswith('copy '):
        return Operand('copy', parse_place(s[5:]))
    if s.startswith('move '):
        return Operand('move', parse_place(s[5:]))
    if s.startswith('const '):
        return Operand('const', const=parse_const(s[6:]))
    if re.match(r'[A-Za-z_<]', s) and ' as ' not in s.split('<')[0]:
        # bare path: a function item (zero-sized) used as a value
        return Operand('const', const=('fnitem', s))
    raise MirError('bad operand %r' % s)


BINOPS = {'Add', 'Sub', 'Mul', 'Div', 'Rem', 'BitXor', 'BitAnd', 'BitOr', 'Shl', 'Shr',
          'Eq', 'Lt', 'Le', 'Ne', 'Ge', 'Gt', 'Cmp', 'Offset',
          'AddWithOverflow', 'SubWithOverflow', 'MulWithOverflow',
          'AddUnchecked', 'SubUnchecked', 'MulUnchecked', 'ShlUnchecked', 'ShrUnchecked'}
UNOPS = {'Not', 'Neg', 'PtrMetadata'}

_CALLISH = re.compile(r'([A-Za-z]+)\(')


def parse_rvalue(s):
    """Returns a tuple: (kind, ...)."""
    s = s.strip()
    if s.startswith('no_retag '):
        s = s[len('no_retag '):]
    # references
    if s.startswith('&'):
        for pre, kind in (('&raw const (fake) ', 'rawref'), ('&raw const ', 'rawref'), ('&raw mut ', 'rawref'),
                          ('&fake shallow ', 'ref'), ('&mut ', 'ref'), ('&', 'ref')):
            if s.startswith(pre):
                return (kind, parse_place(s[len(pre):]), 'mut' in pre)
    m = _CALLISH.match(s)
    if m and s.endswith(')'):
        name = m.group(1)
        if name in BINOPS:
            a, b = split_top(s[m.end():-1])
            return ('binop', name, parse_operand(a), parse_operand(b))
        if name in UNOPS:
            return ('unop', name, parse_operand(s[m.end():-1]))
        if name == 'discriminant':
            return ('discriminant', parse_place(s[m.end():-1]))
        if name == 'Len':
            return ('len', parse_place(s[m.end():-1]))
    if s.startswith('deref_copy '):
        return ('use', Operand('copy', parse_place(s[len('deref_copy '):])))
    # casts:  OPERAND as TYPE (Kind)
    if (s.startswith('copy ') or s.startswith('move ') or s.startswith('const ')) and s.endswith(')'):
        # find last " (" that opens the cast kind
        k = s.rfind(' (')
        if k != -1 and ' as ' in s[:k]:
            kind = s[k + 2:-1]
            if re.match(r'[A-Za-z]+(\(.*\))?$', kind):
                head = s[:k]
                # split on the first top-level ' as '
                idx = _find_top(head, ' as ')
                if idx != -1:
                    return ('cast', kind, parse_operand(head[:idx]), head[idx + 4:].strip())
    if s.startswith('copy ') or s.startswith('move ') or s.startswith('const '):
        return ('use', parse_operand(s))
    # cast of a bare function item:  path::f as fn(..) (PointerCoercion(ReifyFnPointer(..), ..))
    if s.endswith(')') and re.match(r'[A-Za-z_<]', s):
        k = s.rfind(' (')
        if k != -1:
            kind = s[k + 2:-1]
            head = s[:k]
            idx = _find_top(head, ' as ')
            if idx != -1 and re.match(r'(PointerCoercion|FnPtrToPtr|PtrToPtr|Transmute|PointerExposeProvenance)', kind):
                return ('cast', kind, parse_operand(head[:idx]), head[idx + 4:].strip())
    # aggregates
    if s.startswith('('):
        close = find_matching(s, 0)
        if close == len(s) - 1:
            inner = s[1:-1]
            parts = split_top(inner) if inner.strip() else []
            if parts and parts[-1] == '':
                parts = parts[:-1]
            return ('tuple', [parse_operand(p) for p in parts])
    if s.startswith('['):
        close = find_matching(s, 0)
        if close == len(s) - 1:
            inner = s[1:-1]
            semi = _find_top(inner, '; ')
            if semi != -1:
                return ('repeat', parse_operand(inner[:semi]), inner[semi + 2:].strip())
            parts = split_top(inner) if inner.strip() else []
            return ('array', [parse_operand(p) for p in parts])
    if s.startswith('{closure@') or s.startswith('{coroutine@') or s.startswith('{async'):
        close = find_matching(s, 0)
        cname = s[:close + 1]
        rest = s[close + 1:].strip()
        ops = []
        if rest:
            if not (rest.startswith('{') and rest.endswith('}')):
                raise MirError('bad closure aggregate %r' % s)
            for part in split_top(rest[1:-1]):
                if not part:
                    continue
                k = part.index(': ')
                ops.append(parse_operand(part[k + 2:]))
        return ('closure', cname, ops)
    if s.startswith('ShallowInitBox('):
        a, b = split_top(s[len('ShallowInitBox('):-1])
        return ('use', parse_operand(a))
    # ADT aggregate:  Path { f: op, .. } | Path(op, ..) | Path
    return _parse_adt(s)


def _find_top(s, needle):
    depth = 0
    i = 0
    n = len(s)
    while i < n:
        c = s[i]
        if c == '"':
            i = _skip_string(s, i)
            continue
        if c == "'":
            j = _skip_char(s, i)
            if j is not None:
                i = j
                continue
        if depth == 0 and s.startswith(needle, i):
            return i
        if c in '([{<':
            depth += 1
        elif c in ')]}':
            depth -= 1
        elif c == '>' and not (i > 0 and s[i - 1] in '-='):
            depth -= 1
        i += 1
    return -1


def _parse_adt(s):
    # find the end of the path: first top-level ' {' or '(' (angle depth 0)
    depth = 0
    i = 0
    n = len(s)
    while i < n:
        c = s[i]
        if c == '<':
            depth += 1
        elif c == '>' and not (i > 0 and s[i - 1] in '-='):
            depth -= 1
        elif depth == 0 and c == '(':
            close = find_matching(s, i)
            if close != n - 1:
                raise MirError('bad adt aggregate %r' % s)
            inner = s[i + 1:close]
            parts = split_top(inner) if inner.strip() else []
            return ('adt', s[:i].strip(), [parse_operand(p) for p in parts], None)
        elif depth == 0 and c == '{' and i > 0 and s[i - 1] == ' ':
            close = find_matching(s, i)
            if close != n - 1:
                raise MirError('bad adt aggregate %r' % s)
            inner = s[i + 1:close]
            ops = []
            names = []
            for part in split_top(inner):
                if not part:
                    continue
                k = part.index(': ')
                names.append(part[:k].strip())
                ops.append(parse_operand(part[k + 2:]))
            return ('adt', s[:i].strip(), ops, names)
        elif c == '(' or c == '[':
            i = find_matching(s, i)
        i += 1
    if re.match(r'[A-Za-z_<]', s):
        return ('adt', s, [], None)
    raise MirError('unparsed rvalue %r' % s)


# --------------------------------------------------------------------------
# statements / terminators

_TARGETS = re.compile(r' -> (\[.*\]|bb\d+|unwind .*)$')


def _parse_targets(t):
    """'[return: bb1, unwind: bb2]' -> dict"""
    d = {}
    t = t.strip()
    if t.startswith('['):
        for part in split_top(t[1:-1]):
            if ': ' in part:
                k, v = part.split(': ', 1)
                d[k.strip()] = v.strip()
            else:
                # 'unwind continue' / 'unwind unreachable' / 'unwind terminate(cleanup)'
                kv = part.split(' ', 1)
                d[kv[0]] = kv[1] if len(kv) > 1 else ''
    elif t.startswith('bb'):
        d['return'] = t
    else:
        kv = t.split(' ', 1)
        d[kv[0]] = kv[1] if len(kv) > 1 else ''
    return d


def _bb(s):
    return int(s[2:])


def parse_statement(line):
    """line: statement text without trailing ';'. Returns tuple."""
    s = line
    if s.startswith('StorageLive(') or s.startswith('StorageDead(') or s in ('nop', 'ConstEvalCounter') \
            or s.startswith('PlaceMention(') or s.startswith('FakeRead(') or s.startswith('AscribeUserType(') \
            or s.startswith('Coverage::') or s.startswith('Retag(') or s.startswith('BackwardIncompatibleDropHint'):
        if s.startswith('StorageDead('):
            return ('dead', int(s[len('StorageDead(_'):-1]))
        return ('nop',)
    if s.startswith('Deinit('):
        return ('nop',)
    if s.startswith('assume('):
        return ('assume', parse_operand(s[len('assume('):-1]))
    if s.startswith('discriminant('):
        close = find_matching(s, len('discriminant'))
        pl = parse_place(s[len('discriminant('):close])
        rest = s[close + 1:].strip()
        if not rest.startswith('= '):
            raise MirError('bad set-discriminant %r' % s)
        return ('setdisc', pl, int(rest[2:]))
    # assignment
    k = _find_top(s, ' = ')
    if k == -1:
        raise MirError('unknown statement %r' % s)
    return ('assign', parse_place(s[:k]), parse_rvalue(s[k + 3:]))


class Term:
    __slots__ = ('kind', 'a', 'b', 'c', 'd', 'text')

    def __init__(self, kind, a=None, b=None, c=None, d=None, text=''):
        self.kind = kind
        self.a = a
        self.b = b
        self.c = c
        self.d = d
        self.text = text


def parse_terminator(s):
    if s == 'return':
        return Term('return')
    if s == 'unreachable':
        return Term('unreachable')
    if s == 'resume' or s.startswith('resume'):
        return Term('resume')
    if s.startswith('unwind terminate') or s.startswith('terminate'):
        return Term('abort')
    if s.startswith('goto -> '):
        return Term('goto', _bb(s[8:]))
    if s.startswith('switchInt('):
        close = find_matching(s, len('switchInt'))
        op = parse_operand(s[len('switchInt('):close])
        tg = s[close + 1:].strip()
        assert tg.startswith('-> [')
        cases = []
        otherwise = None
        for part in split_top(tg[4:-1]):
            k, v = part.split(': ')
            if k == 'otherwise':
                otherwise = _bb(v)
            else:
                cases.append((int(k), _bb(v)))
        return Term('switch', op, cases, otherwise)
    if s.startswith('drop('):
        close = find_matching(s, 4)
        tg = _parse_targets(s[close + 1:].strip()[3:])
        return Term('drop', parse_place(s[5:close]), _bb(tg['return']))
    if s.startswith('assert('):
        close = find_matching(s, 6)
        inner = split_top(s[7:close])
        cond = inner[0]
        expected = True
        if cond.startswith('!'):
            expected = False
            cond = cond[1:]
        tg = _parse_targets(s[close + 1:].strip()[3:])
        msg = inner[1] if len(inner) > 1 else ''
        return Term('assert', parse_operand(cond), expected, _bb(tg['success']), msg)
    if s.startswith('falseEdge') or s.startswith('falseUnwind'):
        m = re.search(r'real: (bb\d+)', s)
        return Term('goto', _bb(m.group(1)))
    if s.startswith('tailcall '):
        raise MirError('tailcall unsupported')
    # call:  [PLACE = ] CALLEE(ARGS) -> TARGETS
    m = _TARGETS.search(s)
    if not m:
        raise MirError('unknown terminator %r' % s)
    tg = _parse_targets(m.group(1))
    body = s[:m.start()]
    dest = None
    k = _find_top(body, ' = ')
    if k != -1:
        dest = parse_place(body[:k])
        body = body[k + 3:]
    if not body.endswith(')'):
        raise MirError('bad call %r' % s)
    # find the '(' matching the final ')'
    open_i = _find_call_open(body)
    callee = body[:open_i].strip()
    argtxt = body[open_i + 1:-1]
    args = [parse_operand(a) for a in split_top(argtxt)] if argtxt.strip() else []
    ret = _bb(tg['return']) if 'return' in tg else None
    if callee.startswith('move ') or callee.startswith('copy '):
        return Term('callptr', parse_operand(callee), args, dest, ret, text=s)
    return Term('call', callee, args, dest, ret, text=s)


def _find_call_open(body):
    # scan from the end backwards is hard with literals; scan forwards tracking
    # top-level parens that are at angle depth 0 and whose match is the last char
    i = 0
    n = len(body)
    depth = 0
    while i < n:
        c = body[i]
        if c == '"':
            i = _skip_string(body, i)
            continue
        if c == "'":
            j = _skip_char(body, i)
            if j is not None:
                i = j
                continue
        if c == '<':
            depth += 1
        elif c == '>' and not (i > 0 and body[i - 1] in '-='):
            depth -= 1
        elif c in '([{':
            close = find_matching(body, i)
            if depth == 0 and c == '(' and close == n - 1:
                return i
            i = close
        i += 1
    raise MirError('cannot find call args in %r' % body)


# --------------------------------------------------------------------------
# functions

class Block:
    __slots__ = ('stmts', 'term', 'cleanup')

    def __init__(self):
        self.stmts = []
        self.term = None
        self.cleanup = False


class Func:
    def __init__(self, name):
        self.name = name
        self.params = []     # [(local, type)]
        self.ret = None
        self.locals = {}     # idx -> type string
        self.blocks = {}
        self.kind = 'fn'
        self.src_hash = None
        self.debug = {}      # local -> name


_HDR_FN = re.compile(r'^(fn|const|static(?: mut)?) ', re.M)


class MirIndex:
    """Index of a MIR dump: name -> text span; parses lazily."""

    def __init__(self, path):
        with open(path, 'r', encoding='utf-8', errors='surrogateescape') as f:
            self.text = f.read()
        self.spans = {}
        self.closure_by_span = {}   # '{closure@src/..}' -> fn name
        self.allocs = {}
        self._parsed = {}
        self._index()

    def _index(self):
        text = self.text
        pos = 0
        # every top-level item starts at column 0 with fn/const/static and ends with "\n}\n"
        for m in re.finditer(r'^(fn|const|static mut|static) (.*)$', text, re.M):
            kind = m.group(1)
            hdr = m.group(2)
            start = m.start()
            if hdr.rstrip().endswith(';'):
                end = m.end() + 1          # one-line item:  const NAME: T = const VALUE;
            else:
                end = text.find('\n}\n', start)
                if end == -1:
                    end = len(text)
                else:
                    end += 3
            if kind == 'fn':
                name, params, ret = _split_fn_header(hdr)
            else:
                # const NAME: TYPE = {
                k = _find_top(hdr, ': ')
                name = hdr[:k]
                params, ret = [], hdr[k + 2:].rsplit(' = ', 1)[0]
            self.spans[name] = (start, end, kind.split()[0], params, ret)
            if kind == 'fn' and params:
                t = params[0][1]
                cm = re.search(r'(\{closure@[^{}]*\})$', t)
                if cm and re.search(r'\{closure#\d+\}$', name):
                    self.closure_by_span.setdefault(cm.group(1), name)

    def names(self):
        return self.spans.keys()

    def has(self, name):
        return name in self.spans

    def signature(self, name):
        sp = self.spans[name]
        return sp[3], sp[4]

    def get(self, name):
        f = self._parsed.get(name)
        if f is None:
            f = self._parse(name)
            self._parsed[name] = f
        return f

    def _parse(self, name):
        start, end, kind, params, ret = self.spans[name]
        body = self.text[start:end]
        f = Func(name)
        f.kind = kind
        f.ret = ret
        f.src_hash = hashlib.sha256(body.encode('utf-8', 'surrogateescape')).hexdigest()[:16]
        for (loc, ty) in params:
            f.params.append((loc, ty))
            f.locals[loc] = ty
        first = body.split('\n', 1)[0].rstrip()
        if kind != 'fn' and first.endswith(';') and ' = ' in first:
            # one-line constant
            val = first.rsplit(' = ', 1)[1][:-1]
            blk = Block()
            blk.stmts.append(('assign', Place(0), parse_rvalue(val)))
            blk.term = Term('return')
            f.blocks[0] = blk
            f.locals[0] = ret
            return f
        lines = body.split('\n')
        cur = None
        i = 1
        n = len(lines)
        while i < n:
            raw = lines[i]
            line = raw.strip()
            i += 1
            if not line:
                continue
            if line.startswith('let '):
                m = re.match(r'let (?:mut )?_(\d+): (.*);$', line)
                if not m:
                    raise MirError('bad let: %r' % line)
                f.locals[int(m.group(1))] = m.group(2)
                continue
            if line.startswith('debug '):
                m = re.match(r'debug (\S+) => _(\d+);', line)
                if m:
                    f.debug[int(m.group(2))] = m.group(1)
                continue
            if line.startswith('scope ') or line == '}' or line.startswith('coverage ') or line.startswith('//'):
                continue
            if cur is not None and re.match(r'.*\{constant#\d+\}: .* = \{$', line):
                break
            m = re.match(r'bb(\d+)( \(cleanup\))?: \{$', line)
            if m:
                cur = Block()
                cur.cleanup = bool(m.group(2))
                f.blocks[int(m.group(1))] = cur
                # statements until closing brace
                stmts = []
                while i < n:
                    l2 = lines[i]
                    s2 = l2.strip()
                    i += 1
                    if s2 == '}':
                        break
                    # a statement may span several lines if a string literal contains a newline
                    while not _stmt_complete(s2):
                        if i >= n:
                            raise MirError('unterminated statement in %s' % name)
                        s2 = s2 + '\n' + lines[i]
                        i += 1
                        s2 = s2.rstrip()
                    stmts.append(s2)
                if not stmts:
                    raise MirError('empty block in %s' % name)
                for st in stmts[:-1]:
                    if cur.cleanup:
                        continue
                    cur.stmts.append(parse_statement(st[:-1]))
                if not cur.cleanup:
                    cur.term = parse_terminator(stmts[-1][:-1])
                continue
            if cur is None and (line.startswith('fn ') or line.startswith('const ') or line.startswith('static ')):
                continue
            raise MirError('unparsed line in %s: %r' % (name, line))
        return f


def _stmt_complete(s):
    """A statement ends with ';' outside any string literal."""
    if not s.endswith(';'):
        return False
    # quick check: count unescaped quotes
    i = 0
    n = len(s)
    in_str = False
    while i < n:
        c = s[i]
        if in_str:
            if c == '\\':
                i += 2
                continue
            if c == '"':
                in_str = False
        else:
            if c == '"':
                in_str = True
            elif c == "'":
                j = _skip_char(s, i)
                if j is not None:
                    i = j
                    continue
        i += 1
    return not in_str


def _split_fn_header(hdr):
    """'NAME(_1: T, ..) -> RET {'  -> (name, [(idx, type)], ret)"""
    # name ends at the first '(' at angle/brace depth 0
    depth = 0
    i = 0
    n = len(hdr)
    while i < n:
        c = hdr[i]
        if c in '<{[':
            depth += 1
        elif c in '}]':
            depth -= 1
        elif c == '>' and not (i > 0 and hdr[i - 1] in '-='):
            depth -= 1
        elif c == '(':
            if depth == 0:
                break
            i = find_matching(hdr, i)
        i += 1
    name = hdr[:i]
    close = find_matching(hdr, i)
    ptxt = hdr[i + 1:close]
    params = []
    if ptxt.strip():
        for p in split_top(ptxt):
            m = re.match(r'_(\d+): (.*)$', p, re.S)
            if not m:
                raise MirError('bad param %r in %r' % (p, hdr))
            params.append((int(m.group(1)), m.group(2)))
    rest = hdr[close + 1:].strip()
    ret = '()'
    if rest.startswith('-> '):
        ret = rest[3:]
        if ret.endswith('{'):
            ret = ret[:-1].strip()
    return name, params, ret
