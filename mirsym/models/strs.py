"""str / String / char models.

Strings are sequences of bytes with concrete length on every path.  A symbolic
byte is ASCII by construction (harness input constructors and the integer
formatter only create ASCII symbols); multi-byte characters occur as concrete
bytes.  Searching primitives fork on the *outcome* (first match position).
"""
import unicodedata
import z3
from . import model, pattern
from .util import *
from .util import DOMAINS, set_domain
from .. import mir as MIR
from ..interp import strip_lifetimes, Infeasible

# ---------------------------------------------------------------------------
# characters

WS_CP = set([9, 10, 11, 12, 13, 32, 0x85, 0xA0, 0x1680, 0x2028, 0x2029, 0x202F, 0x205F, 0x3000] + list(range(0x2000, 0x200B)))


_ASCII_WS = frozenset([9, 10, 11, 12, 13, 32])


def is_cont(b):
    return isinstance(b, int) and (b & 0xC0) == 0x80


def char_width_at(bs, i):
    b = bs[i]
    if not isinstance(b, int) or b < 0x80:
        return 1
    if b >= 0xF0:
        return 4
    if b >= 0xE0:
        return 3
    if b >= 0xC0:
        return 2
    raise Unsupported('decode at continuation byte')


def decode_at(bs, i):
    """-> (Sc char, width)"""
    b = bs[i]
    if not isinstance(b, int):
        d = DOMAINS.get(b.get_id())
        if d is not None and len(d) == 1:
            return Sc(next(iter(d)), 32), 1       # pinned by the path condition
        e = z3.ZeroExt(24, b)
        if d is not None:
            set_domain(e, d)
        return Sc(e, 32), 1
    if b < 0x80:
        return Sc(b, 32), 1
    n = char_width_at(bs, i)
    raw = bs[i:i + n]
    if not all(isinstance(x, int) for x in raw):
        raise Unsupported('multi-byte char with symbolic continuation')
    return Sc(ord(bytes(raw).decode('utf-8')), 32), n


def decode_before(bs, j):
    """char ending at j -> (Sc char, width)"""
    i = j - 1
    while i > 0 and is_cont(bs[i]):
        i -= 1
    ch, n = decode_at(bs, i)
    return ch, j - i


def char_start(bs, i):
    """is i a char boundary of bs (relative indices)"""
    if i == 0 or i == len(bs):
        return True
    if i < 0 or i > len(bs):
        return False
    return not is_cont(bs[i])


def _in_range(ch, lo, hi):
    z = ch.z()
    return z3.And(z3.UGE(z, z3.BitVecVal(lo, ch.w)), z3.ULE(z, z3.BitVecVal(hi, ch.w)))


def ch_is_whitespace(ch):
    if ch.concrete:
        return sc_bool(ch.v in WS_CP)
    d = DOMAINS.get(ch.v.get_id())
    if d is not None:
        if not (d & _ASCII_WS):
            return FALSE
        if d <= _ASCII_WS:
            return TRUE
    z = ch.z()
    return mk_bool(z3.Or(z == 32, _in_range(ch, 9, 13)))


def ch_is_ascii_whitespace(ch):
    if ch.concrete:
        return sc_bool(ch.v in (9, 10, 12, 13, 32))
    z = ch.z()
    return mk_bool(z3.Or(z == 32, z == 9, z == 10, z == 12, z == 13))


def ascii_class(P, name, ch, other=None, w=32):
    """character class predicates / case mapping valid for u8 and char"""
    def rng(lo, hi):
        if ch.concrete:
            return lo <= ch.v <= hi
        return _in_range(ch, lo, hi)

    def disj(*xs):
        if ch.concrete:
            return sc_bool(any(xs))
        return mk_bool(z3.simplify(z3.Or(*xs)))
    if name == 'is_ascii_digit':
        return disj(rng(48, 57))
    if name == 'is_ascii_uppercase':
        return disj(rng(65, 90))
    if name == 'is_ascii_lowercase':
        return disj(rng(97, 122))
    if name == 'is_ascii_alphabetic':
        return disj(rng(65, 90), rng(97, 122))
    if name == 'is_ascii_alphanumeric':
        return disj(rng(48, 57), rng(65, 90), rng(97, 122))
    if name == 'is_ascii_hexdigit':
        return disj(rng(48, 57), rng(65, 70), rng(97, 102))
    if name == 'is_ascii_whitespace':
        return ch_is_ascii_whitespace(ch)
    if name == 'is_ascii_punctuation':
        return disj(rng(33, 47), rng(58, 64), rng(91, 96), rng(123, 126))
    if name == 'is_ascii_graphic':
        return disj(rng(33, 126))
    if name == 'is_ascii_control':
        return disj(rng(0, 31), rng(127, 127))
    if name == 'is_ascii':
        return disj(rng(0, 127))
    if name == 'to_ascii_lowercase':
        if ch.concrete:
            return Sc(ch.v + 32 if 65 <= ch.v <= 90 else ch.v, ch.w)
        return Sc(z3.If(_in_range(ch, 65, 90), ch.v + 32, ch.v), ch.w)
    if name == 'to_ascii_uppercase':
        if ch.concrete:
            return Sc(ch.v - 32 if 97 <= ch.v <= 122 else ch.v, ch.w)
        return Sc(z3.If(_in_range(ch, 97, 122), ch.v - 32, ch.v), ch.w)
    if name == 'eq_ignore_ascii_case':
        a = ascii_class(P, 'to_ascii_lowercase', ch)
        b = ascii_class(P, 'to_ascii_lowercase', other)
        return binop('Eq', a, b)
    raise Unsupported('ascii class %s' % name)


def _py_char_pred(name, cp):
    c = chr(cp)
    cat = unicodedata.category(c)
    if name == 'is_whitespace':
        return cp in WS_CP
    if name == 'is_alphabetic':
        return c.isalpha() or cat in ('Nl',)
    if name == 'is_numeric':
        return cat in ('Nd', 'Nl', 'No')
    if name == 'is_alphanumeric':
        return c.isalpha() or cat in ('Nd', 'Nl', 'No')
    if name == 'is_control':
        return cat == 'Cc'
    if name == 'is_uppercase':
        return c.isupper()
    if name == 'is_lowercase':
        return c.islower()
    if name == 'is_digit10':
        return 48 <= cp <= 57
    raise Unsupported('char predicate %s' % name)


def char_pred(P, name, ch):
    if name.startswith('is_ascii') or name in ('to_ascii_lowercase', 'to_ascii_uppercase'):
        return ascii_class(P, name, ch)
    if ch.concrete:
        return sc_bool(_py_char_pred(name, ch.v))
    # symbolic => ASCII
    if name == 'is_whitespace':
        return ch_is_whitespace(ch)
    if name == 'is_alphabetic':
        return ascii_class(P, 'is_ascii_alphabetic', ch)
    if name == 'is_numeric':
        return ascii_class(P, 'is_ascii_digit', ch)
    if name == 'is_alphanumeric':
        return ascii_class(P, 'is_ascii_alphanumeric', ch)
    if name == 'is_control':
        return ascii_class(P, 'is_ascii_control', ch)
    if name == 'is_uppercase':
        return ascii_class(P, 'is_ascii_uppercase', ch)
    if name == 'is_lowercase':
        return ascii_class(P, 'is_ascii_lowercase', ch)
    raise Unsupported('char predicate %s' % name)


@pattern(r'std::char::methods::<impl char>::([a-z_0-9]+)$')
def m_char_methods(P, c, args, dt):
    name = c.method
    ch = tgt(args[0])
    if name in ('is_whitespace', 'is_alphabetic', 'is_numeric', 'is_alphanumeric', 'is_control',
                'is_uppercase', 'is_lowercase') or name.startswith('is_ascii'):
        return char_pred(P, name, ch)
    if name in ('to_ascii_lowercase', 'to_ascii_uppercase'):
        return ascii_class(P, name, ch)
    if name == 'eq_ignore_ascii_case':
        return ascii_class(P, name, ch, tgt(args[1]))
    if name == 'len_utf8':
        if ch.concrete:
            return usize(len(chr(ch.v).encode('utf-8')))
        return usize(1)
    if name == 'is_digit':
        radix = expect_concrete(args[1])
        if radix == 10:
            return ascii_class(P, 'is_ascii_digit', ch)
        if radix == 16:
            return ascii_class(P, 'is_ascii_hexdigit', ch)
        raise Unsupported('is_digit radix')
    if name == 'to_digit':
        radix = expect_concrete(args[1])
        if radix == 8:
            isd = mk_bool(_in_range(ch, 48, 55)) if not ch.concrete else sc_bool(48 <= ch.v <= 55)
            if P.branch(isd):
                return some(binop('Sub', Sc(ch.v, 32), Sc(48, 32)))
            return none()
        if radix != 10:
            if ch.concrete:
                try:
                    return some(Sc(int(chr(ch.v), radix), 32))
                except ValueError:
                    return none()
            raise Unsupported('to_digit radix on symbolic char')
        isd = ascii_class(P, 'is_ascii_digit', ch)
        if P.branch(isd):
            return some(binop('Sub', Sc(ch.v, 32), Sc(48, 32)))
        return none()
    if name in ('to_lowercase', 'to_uppercase'):
        from .iters import ListIter
        if ch.concrete:
            s = chr(ch.v).lower() if name == 'to_lowercase' else chr(ch.v).upper()
            return ListIter([Sc(ord(x), 32) for x in s])
        return ListIter([ascii_class(P, 'to_ascii_lowercase' if name == 'to_lowercase' else 'to_ascii_uppercase', ch)])
    if name == 'from_u32':
        v = tgt(args[0])
        if v.concrete:
            if v.v < 0x110000 and not (0xD800 <= v.v < 0xE000):
                return some(Sc(v.v, 32))
            return none()
        raise Unsupported('char::from_u32 symbolic')
    if name == 'from_digit':
        d = expect_concrete(args[0])
        return some(Sc(ord('0123456789abcdefghijklmnopqrstuvwxyz'[d]), 32))
    if name == 'encode_utf8':
        bs = char_bytes(ch)
        return mk_str(bs)
    raise Unsupported('char method %s' % name)


@model('std::char::from_u32')
def m_char_from_u32(P, c, args, dt):
    v = tgt(args[0])
    if v.concrete:
        if v.v < 0x110000 and not (0xD800 <= v.v < 0xE000):
            return some(Sc(v.v, 32))
        return none()
    raise Unsupported('char::from_u32 symbolic')


def char_bytes(ch):
    if ch.concrete:
        return list(chr(ch.v).encode('utf-8'))
    return [z3.Extract(7, 0, ch.v)]


# ---------------------------------------------------------------------------
# patterns

class Pat:
    """a str::pattern::Pattern value"""

    def __init__(self, P, v, ty):
        self.P = P
        v0 = v
        v = tgt(v)
        self.kind = None
        if isinstance(v, (StrRef, StringV)):
            self.kind = 'bytes'
            self.bs = as_bytes(v)
        elif isinstance(v, Sc):
            self.kind = 'bytes'
            self.bs = char_bytes(v)
        elif isinstance(v, (SliceRef, VecV)) or (isinstance(v, Agg) and v.ty in ('[]',)):
            self.kind = 'set'
            self.set = [tgt(x) for x in elems_of(v)]
        elif isinstance(v, (FnItem, PyFn)) or (isinstance(v, Agg) and v.ty.startswith('{closure')):
            self.kind = 'pred'
            self.fn = v0
        else:
            raise Unsupported('pattern %r' % (v,))

    def min_len(self):
        return len(self.bs) if self.kind == 'bytes' else 1

    def match_at(self, bs, i):
        """-> (Sc bool, length) ; i must be a char boundary"""
        if self.kind == 'bytes':
            n = len(self.bs)
            if i + n > len(bs):
                return FALSE, n
            return bytes_eq(bs[i:i + n], self.bs), n
        if i >= len(bs):
            return FALSE, 1
        ch, n = decode_at(bs, i)
        if self.kind == 'set':
            r = FALSE
            for s in self.set:
                r = b_or(r, binop('Eq', ch, s))
            return r, n
        r = self.P.call_value(self.fn, [ch])
        return r, n

    def match_before(self, bs, j):
        """match ending at j -> (Sc bool, length)"""
        if self.kind == 'bytes':
            n = len(self.bs)
            if j - n < 0:
                return FALSE, n
            return bytes_eq(bs[j - n:j], self.bs), n
        if j <= 0:
            return FALSE, 1
        ch, n = decode_before(bs, j)
        if self.kind == 'set':
            r = FALSE
            for s in self.set:
                r = b_or(r, binop('Eq', ch, s))
            return r, n
        return self.P.call_value(self.fn, [ch]), n


def find_from(P, bs, pat, start):
    """first match at or after start -> (i, n) or None; forks"""
    if pat.kind == 'bytes' and len(pat.bs) == 0:
        return (start, 0)
    i = start
    L = len(bs)
    while i + (pat.min_len() if pat.kind == 'bytes' else 1) <= L:
        if is_cont(bs[i]):
            i += 1
            continue
        cond, n = pat.match_at(bs, i)
        if P.branch(cond):
            return (i, n)
        i += 1 if pat.kind == 'bytes' else char_width_at(bs, i)
    return None


def rfind_before(P, bs, pat, end):
    """last match ending at or before end -> (i, n) or None"""
    j = end
    while j > 0:
        if j < len(bs) and is_cont(bs[j]):
            j -= 1
            continue
        cond, n = pat.match_before(bs, j)
        if j - n >= 0 and P.branch(cond):
            return (j - n, n)
        j -= 1
    return None


def sub(s, a, b):
    """sub-view of StrRef s with relative offsets"""
    return StrRef(s.buf, s.a + a, s.a + b)


# ---------------------------------------------------------------------------
# iterators over strings

class SplitIter(IterV):
    def __init__(self, s, pat, limit=None, inclusive=False, terminator=False):
        self.s = s
        self.pat = pat
        self.pos = 0
        self.end = len(s)
        self.done = False
        self.limit = limit
        self.inclusive = inclusive
        self.terminator = terminator

    def next(self, P):
        if self.done:
            return None
        bs = self.s.bytes()
        if self.limit is not None:
            if self.limit == 0:
                self.done = True
                return None
            if self.limit == 1:
                self.done = True
                return sub(self.s, self.pos, self.end)
            self.limit -= 1
        m = find_from(P, bs[:self.end], self.pat, self.pos)
        if m is None:
            self.done = True
            if (self.inclusive or self.terminator) and self.pos == self.end:
                return None
            return sub(self.s, self.pos, self.end)
        i, n = m
        piece = sub(self.s, self.pos, i + n if self.inclusive else i)
        self.pos = i + n
        return piece

    def next_back(self, P):
        if self.done:
            return None
        if self.inclusive or self.terminator or self.limit is not None:
            raise Unsupported('next_back on this split flavour')
        bs = self.s.bytes()
        m = rfind_before(P, bs[self.pos:self.end], self.pat, self.end - self.pos)
        if m is None:
            self.done = True
            return sub(self.s, self.pos, self.end)
        i, n = m
        i += self.pos
        piece = sub(self.s, i + n, self.end)
        self.end = i
        return piece


class RSplitIter(IterV):
    def __init__(self, s, pat, limit=None):
        self.s = s
        self.pat = pat
        self.end = len(s)
        self.done = False
        self.limit = limit

    def next(self, P):
        if self.done:
            return None
        if self.limit is not None:
            if self.limit == 0:
                self.done = True
                return None
            if self.limit == 1:
                self.done = True
                return sub(self.s, 0, self.end)
            self.limit -= 1
        bs = self.s.bytes()
        m = rfind_before(P, bs, self.pat, self.end)
        if m is None:
            self.done = True
            return sub(self.s, 0, self.end)
        i, n = m
        piece = sub(self.s, i + n, self.end)
        self.end = i
        return piece


class LinesIter(IterV):
    def __init__(self, P, s):
        self.inner = SplitIter(s, Pat(P, Sc(10, 32), 'char'), inclusive=True)

    def next(self, P):
        line = self.inner.next(P)
        if line is None:
            return None
        bs = line.bytes()
        if bs and P.branch(byte_eq(bs[-1], 10)):
            line = StrRef(line.buf, line.a, line.b - 1)
            bs = bs[:-1]
            if bs and P.branch(byte_eq(bs[-1], 13)):
                line = StrRef(line.buf, line.a, line.b - 1)
        return line

    def next_back(self, P):
        raise Unsupported('lines().rev()')


class SplitWsIter(IterV):
    def __init__(self, s, ascii_only=False):
        self.s = s
        self.pos = 0
        self.ascii_only = ascii_only

    def _ws(self, ch):
        return ch_is_ascii_whitespace(ch) if self.ascii_only else ch_is_whitespace(ch)

    def next(self, P):
        bs = self.s.bytes()
        L = len(bs)
        i = self.pos
        while i < L:
            ch, n = decode_at(bs, i)
            if P.branch(self._ws(ch)):
                i += n
            else:
                break
        if i >= L:
            self.pos = L
            return None
        j = i
        while j < L:
            ch, n = decode_at(bs, j)
            if P.branch(self._ws(ch)):
                break
            j += n
        self.pos = j
        return sub(self.s, i, j)


class CharsIter(IterV):
    def __init__(self, s, indices=False):
        self.s = s
        self.i = 0
        self.j = len(s)
        self.indices = indices

    def next(self, P):
        if self.i >= self.j:
            return None
        bs = self.s.bytes()
        ch, n = decode_at(bs, self.i)
        idx = self.i
        self.i += n
        return tup(usize(idx), ch) if self.indices else ch

    def next_back(self, P):
        if self.i >= self.j:
            return None
        bs = self.s.bytes()
        ch, n = decode_before(bs, self.j)
        self.j -= n
        return tup(usize(self.j), ch) if self.indices else ch

    def as_str(self):
        return sub(self.s, self.i, self.j)


class BytesIter(IterV):
    def __init__(self, s):
        self.bs = s.bytes()
        self.i = 0
        self.j = len(self.bs)

    def next(self, P):
        if self.i >= self.j:
            return None
        b = self.bs[self.i]
        self.i += 1
        return Sc(b, 8)

    def next_back(self, P):
        if self.i >= self.j:
            return None
        self.j -= 1
        return Sc(self.bs[self.j], 8)


class MatchIndicesIter(IterV):
    def __init__(self, s, pat, indices=True):
        self.s = s
        self.pat = pat
        self.pos = 0
        self.indices = indices

    def next(self, P):
        m = find_from(P, self.s.bytes(), self.pat, self.pos)
        if m is None:
            self.pos = len(self.s)
            return None
        i, n = m
        self.pos = i + max(n, 1)
        piece = sub(self.s, i, i + n)
        return tup(usize(i), piece) if self.indices else piece


# ---------------------------------------------------------------------------
# parsing

class ParseIntError:
    pass


def parse_int(P, s, w, signed, radix=10):
    bs = s.bytes()
    if len(bs) == 0:
        return err(Opaque('ParseIntError', 'Empty'))
    neg = False
    digits = bs
    b0 = bs[0]
    is_plus = byte_eq(b0, 43)
    is_minus = byte_eq(b0, 45)
    if P.branch(is_plus):
        digits = bs[1:]
        if not digits:
            return err(Opaque('ParseIntError', 'InvalidDigit'))
    elif P.branch(is_minus):
        if not signed:
            return err(Opaque('ParseIntError', 'InvalidDigit'))
        neg = True
        digits = bs[1:]
        if not digits:
            return err(Opaque('ParseIntError', 'InvalidDigit'))
    conc = concrete_bytes(digits)
    lo = -(1 << (w - 1)) if signed else 0
    hi = (1 << (w - 1)) - 1 if signed else (1 << w) - 1
    if conc is not None:
        try:
            txt = conc.decode('ascii')
            if not txt or any(ch not in '0123456789abcdefghijklmnopqrstuvwxyz'[:radix] + 'ABCDEFGHIJKLMNOPQRSTUVWXYZ'[:max(radix - 10, 0)] for ch in txt):
                raise ValueError
            val = int(txt, radix)
        except (ValueError, UnicodeDecodeError):
            return err(Opaque('ParseIntError', 'InvalidDigit'))
        if neg:
            val = -val
        if val < lo:
            return err(Opaque('ParseIntError', 'NegOverflow'))
        if val > hi:
            return err(Opaque('ParseIntError', 'PosOverflow'))
        return ok(Sc(val, w, signed))
    if radix != 10:
        # few symbolic digits (octal / hex escapes): decide each byte against its domain, then parse concretely
        if len(digits) > 6:
            raise Unsupported('symbolic parse with radix %d over %d bytes' % (radix, len(digits)))
        cd = []
        for b in digits:
            if isinstance(b, int):
                cd.append(b)
                continue
            # decide the byte against the digits of this radix; anything else is an invalid digit
            allowed_b = ('0123456789abcdefghijklmnopqrstuvwxyz'[:radix] + 'ABCDEFGHIJKLMNOPQRSTUVWXYZ'[:max(radix - 10, 0)]).encode()
            pick = None
            for v in allowed_b:
                if P.branch(byte_eq(b, v)):
                    pick = v
                    break
            if pick is None:
                return err(Opaque('ParseIntError', 'InvalidDigit'))
            cd.append(pick)
        try:
            txt = bytes(cd).decode('ascii')
            allowed = '0123456789abcdefghijklmnopqrstuvwxyz'[:radix] + 'ABCDEFGHIJKLMNOPQRSTUVWXYZ'[:max(radix - 10, 0)]
            if not txt or any(ch not in allowed for ch in txt):
                raise ValueError
            val = int(txt, radix)
        except (ValueError, UnicodeDecodeError):
            return err(Opaque('ParseIntError', 'InvalidDigit'))
        if neg:
            val = -val
        if val < lo:
            return err(Opaque('ParseIntError', 'NegOverflow'))
        if val > hi:
            return err(Opaque('ParseIntError', 'PosOverflow'))
        return ok(Sc(val, w, signed))
    if not neg and all(not isinstance(b, int) for b in digits):
        back = P.state.get('digits_of', {}).get(tuple(b.get_id() for b in digits))
        if back is not None and back.w == w and back.s == signed:
            return ok(back)
    conds = []
    for b in digits:
        if isinstance(b, int):
            if not (48 <= b <= 57):
                return err(Opaque('ParseIntError', 'InvalidDigit'))
        else:
            conds.append(z3.And(z3.UGE(b, z3.BitVecVal(48, 8)), z3.ULE(b, z3.BitVecVal(57, 8))))
    if not P.branch(mk_bool(z3.And(conds)) if conds else TRUE):
        return err(Opaque('ParseIntError', 'InvalidDigit'))
    n = len(digits)
    W = max(w, 64) + 8
    if n > 22:
        raise Unsupported('symbolic integer literal longer than 22 digits')
    val = z3.BitVecVal(0, W)
    for b in digits:
        d = z3.BitVecVal(b - 48, W) if isinstance(b, int) else z3.ZeroExt(W - 8, b - 48)
        val = val * 10 + d
    if neg:
        limit = z3.BitVecVal(-lo, W)
        if P.branch(mk_bool(z3.UGT(val, limit))):
            return err(Opaque('ParseIntError', 'NegOverflow'))
        return ok(Sc(z3.simplify(-z3.Extract(w - 1, 0, val)), w, signed))
    limit = z3.BitVecVal(hi, W)
    if P.branch(mk_bool(z3.UGT(val, limit))):
        return err(Opaque('ParseIntError', 'PosOverflow'))
    return ok(Sc(z3.simplify(z3.Extract(w - 1, 0, val)), w, signed))


@model('std::str::<impl str>::parse', 'std::str::FromStr::from_str')
def m_parse(P, c, args, dt):
    s = as_strref(args[0])
    ty = (c.gen[0] if c.gen else c.selfty).strip()
    if ty in MIR.INT_TYPES:
        w, sg = MIR.INT_TYPES[ty]
        return parse_int(P, s, w, sg)
    if ty == 'std::string::String':
        return ok(StringV(s.bytes()))
    if ty == 'bool':
        if P.branch(bytes_eq(s.bytes(), list(b'true'))):
            return ok(TRUE)
        if P.branch(bytes_eq(s.bytes(), list(b'false'))):
            return ok(FALSE)
        return err(Opaque('ParseBoolError'))
    if ty in ('f64', 'f32'):
        cb = concrete_bytes(s.bytes())
        if cb is None:
            raise Unsupported('symbolic float parse')
        try:
            return ok(Opaque('f64', float(cb.decode())))
        except ValueError:
            return err(Opaque('ParseFloatError'))
    if ty == 'std::path::PathBuf':
        return ok(Opaque('PathBuf', StringV(s.bytes())))
    # crate FromStr impl
    last = type_base(ty).rsplit('::', 1)[-1]
    lst = P.M.trait_impls.get(('FromStr', last, 'from_str'))
    if lst and len(lst) == 1:
        return P.run_fn(P.M.mir.get(lst[0]), [s])
    raise Unsupported('parse::<%s>' % ty)


# ---------------------------------------------------------------------------
# &str methods

def _s(args):
    return as_strref(args[0])


@model('std::str::<impl str>::len', 'std::string::String::len')
def s_len(P, c, args, dt):
    return usize(len(_s(args)))


@model('std::str::<impl str>::is_empty', 'std::string::String::is_empty')
def s_is_empty(P, c, args, dt):
    return sc_bool(len(_s(args)) == 0)


@model('std::str::<impl str>::as_bytes', 'std::string::String::as_bytes')
def s_as_bytes(P, c, args, dt):
    return as_slice(_s(args))


@model('std::string::String::as_str', 'std::string::String::as_mut_str', 'std::str::<impl str>::as_str')
def s_as_str(P, c, args, dt):
    return _s(args)


@model('std::str::<impl str>::to_string', 'std::str::<impl str>::to_owned', 'std::string::ToString::to_string',
       'std::str::<impl str>::into_string')
def s_to_string(P, c, args, dt):
    v = tgt(args[0])
    if isinstance(v, (StrRef, StringV)) or (isinstance(v, En) and v.ty.endswith('Cow')) or isinstance(v, BoxV):
        try:
            return StringV(as_bytes(v))
        except Unsupported:
            pass
    from .fmt import display_bytes
    return StringV(display_bytes(P, v, c.selfty, None))


@model('std::str::<impl str>::trim')
def s_trim(P, c, args, dt):
    s = _s(args)
    s = _trim_start(P, s, lambda ch: ch_is_whitespace(ch))
    return _trim_end(P, s, lambda ch: ch_is_whitespace(ch))


@model('std::str::<impl str>::trim_start', 'std::str::<impl str>::trim_left')
def s_trim_start(P, c, args, dt):
    return _trim_start(P, _s(args), lambda ch: ch_is_whitespace(ch))


@model('std::str::<impl str>::trim_end', 'std::str::<impl str>::trim_right')
def s_trim_end(P, c, args, dt):
    return _trim_end(P, _s(args), lambda ch: ch_is_whitespace(ch))


@model('std::str::<impl str>::trim_ascii', 'std::str::<impl str>::trim_ascii_start', 'std::str::<impl str>::trim_ascii_end')
def s_trim_ascii(P, c, args, dt):
    s = _s(args)
    if c.method in ('trim_ascii', 'trim_ascii_start'):
        s = _trim_start(P, s, ch_is_ascii_whitespace)
    if c.method in ('trim_ascii', 'trim_ascii_end'):
        s = _trim_end(P, s, ch_is_ascii_whitespace)
    return s


def _trim_start(P, s, pred):
    bs = s.bytes()
    i = 0
    while i < len(bs):
        ch, n = decode_at(bs, i)
        if P.branch(pred(ch)):
            i += n
        else:
            break
    return sub(s, i, len(bs))


def _trim_end(P, s, pred):
    bs = s.bytes()
    j = len(bs)
    while j > 0:
        ch, n = decode_before(bs, j)
        if P.branch(pred(ch)):
            j -= n
        else:
            break
    return sub(s, 0, j)


@model('std::str::<impl str>::trim_matches', 'std::str::<impl str>::trim_start_matches', 'std::str::<impl str>::trim_end_matches',
       'std::str::<impl str>::trim_left_matches', 'std::str::<impl str>::trim_right_matches')
def s_trim_matches(P, c, args, dt):
    s = _s(args)
    pat = Pat(P, args[1], c.gen[0] if c.gen else '')
    bs = s.bytes()
    i, j = 0, len(bs)
    if c.method in ('trim_matches', 'trim_start_matches', 'trim_left_matches'):
        while i < j:
            cond, n = pat.match_at(bs[:j], i)
            if n == 0:
                break
            if P.branch(cond):
                i += n
            else:
                break
    if c.method in ('trim_matches', 'trim_end_matches', 'trim_right_matches'):
        while j > i:
            cond, n = pat.match_before(bs[i:j], j - i)
            if n == 0:
                break
            if j - n >= i and P.branch(cond):
                j -= n
            else:
                break
    return sub(s, i, j)


@model('std::str::<impl str>::strip_prefix')
def s_strip_prefix(P, c, args, dt):
    s = _s(args)
    pat = Pat(P, args[1], '')
    cond, n = pat.match_at(s.bytes(), 0)
    if P.branch(cond):
        return some(sub(s, n, len(s)))
    return none()


@model('std::str::<impl str>::strip_suffix')
def s_strip_suffix(P, c, args, dt):
    s = _s(args)
    pat = Pat(P, args[1], '')
    cond, n = pat.match_before(s.bytes(), len(s))
    if len(s) - n >= 0 and P.branch(cond):
        return some(sub(s, 0, len(s) - n))
    return none()


@model('std::str::<impl str>::starts_with')
def s_starts_with(P, c, args, dt):
    s = _s(args)
    pat = Pat(P, args[1], '')
    cond, n = pat.match_at(s.bytes(), 0)
    return cond


@model('std::str::<impl str>::ends_with')
def s_ends_with(P, c, args, dt):
    s = _s(args)
    pat = Pat(P, args[1], '')
    cond, n = pat.match_before(s.bytes(), len(s))
    if len(s) - n < 0:
        return FALSE
    return cond


@model('std::str::<impl str>::contains')
def s_contains(P, c, args, dt):
    s = _s(args)
    pat = Pat(P, args[1], '')
    bs = s.bytes()
    if pat.kind == 'bytes' and len(pat.bs) == 0:
        return TRUE
    r = FALSE
    i = 0
    while i < len(bs):
        if is_cont(bs[i]):
            i += 1
            continue
        cond, n = pat.match_at(bs, i)
        r = b_or(r, cond)
        if r.v is True:
            return r
        i += 1
    return r


@model('std::str::<impl str>::find')
def s_find(P, c, args, dt):
    s = _s(args)
    m = find_from(P, s.bytes(), Pat(P, args[1], ''), 0)
    return none() if m is None else some(usize(m[0]))


@model('std::str::<impl str>::rfind')
def s_rfind(P, c, args, dt):
    s = _s(args)
    m = rfind_before(P, s.bytes(), Pat(P, args[1], ''), len(s))
    return none() if m is None else some(usize(m[0]))


@model('std::str::<impl str>::split')
def s_split(P, c, args, dt):
    return SplitIter(_s(args), Pat(P, args[1], ''))


@model('std::str::<impl str>::split_inclusive')
def s_split_inclusive(P, c, args, dt):
    return SplitIter(_s(args), Pat(P, args[1], ''), inclusive=True)


@model('std::str::<impl str>::split_terminator')
def s_split_terminator(P, c, args, dt):
    return SplitIter(_s(args), Pat(P, args[1], ''), terminator=True)


@model('std::str::<impl str>::splitn')
def s_splitn(P, c, args, dt):
    return SplitIter(_s(args), Pat(P, args[2], ''), limit=expect_concrete(args[1], 'splitn count'))


@model('std::str::<impl str>::rsplit')
def s_rsplit(P, c, args, dt):
    return RSplitIter(_s(args), Pat(P, args[1], ''))


@model('std::str::<impl str>::rsplitn')
def s_rsplitn(P, c, args, dt):
    return RSplitIter(_s(args), Pat(P, args[2], ''), limit=expect_concrete(args[1], 'rsplitn count'))


@model('std::str::<impl str>::split_once')
def s_split_once(P, c, args, dt):
    s = _s(args)
    m = find_from(P, s.bytes(), Pat(P, args[1], ''), 0)
    if m is None:
        return none()
    i, n = m
    return some(tup(sub(s, 0, i), sub(s, i + n, len(s))))


@model('std::str::<impl str>::rsplit_once')
def s_rsplit_once(P, c, args, dt):
    s = _s(args)
    m = rfind_before(P, s.bytes(), Pat(P, args[1], ''), len(s))
    if m is None:
        return none()
    i, n = m
    return some(tup(sub(s, 0, i), sub(s, i + n, len(s))))


@model('std::str::<impl str>::split_whitespace')
def s_split_ws(P, c, args, dt):
    return SplitWsIter(_s(args))


@model('std::str::<impl str>::split_ascii_whitespace')
def s_split_ascii_ws(P, c, args, dt):
    return SplitWsIter(_s(args), ascii_only=True)


@model('std::str::<impl str>::lines')
def s_lines(P, c, args, dt):
    return LinesIter(P, _s(args))


@model('std::str::<impl str>::chars')
def s_chars(P, c, args, dt):
    return CharsIter(_s(args))


@model('std::str::<impl str>::char_indices')
def s_char_indices(P, c, args, dt):
    return CharsIter(_s(args), indices=True)


@model('std::str::<impl str>::bytes')
def s_bytes(P, c, args, dt):
    return BytesIter(_s(args))


@model('std::str::<impl str>::match_indices')
def s_match_indices(P, c, args, dt):
    return MatchIndicesIter(_s(args), Pat(P, args[1], ''))


@model('std::str::<impl str>::matches')
def s_matches(P, c, args, dt):
    return MatchIndicesIter(_s(args), Pat(P, args[1], ''), indices=False)


@model('std::str::Chars::as_str')
def s_chars_as_str(P, c, args, dt):
    return tgt(args[0]).as_str()


@model('std::str::<impl str>::is_char_boundary')
def s_is_char_boundary(P, c, args, dt):
    s = _s(args)
    idx = tgt(args[1])
    i = P.concretize(idx, 0, len(s) + 1) if not idx.concrete else idx.v
    return sc_bool(char_start(s.bytes(), i))


def range_bounds(P, r, n):
    """Range-like Agg -> concrete (a, b) within 0..=n (forks when symbolic)"""
    r = tgt(r)
    ty = r.ty if isinstance(r, Agg) else ''
    last = ty.rsplit('::', 1)[-1]

    def cv(x):
        x = tgt(x)
        if x.concrete:
            return x.v
        return P.concretize(x, 0, n + 1)
    if last == 'Range':
        return cv(r.f[0]), cv(r.f[1])
    if last == 'RangeFrom':
        return cv(r.f[0]), n
    if last == 'RangeTo':
        return 0, cv(r.f[0])
    if last == 'RangeFull':
        return 0, n
    if last == 'RangeInclusive':
        return cv(r.f[0]), cv(r.f[1]) + 1
    if last == 'RangeToInclusive':
        return 0, cv(r.f[0]) + 1
    raise Unsupported('range type %s' % ty)


def str_slice(P, s, r, checked):
    n = len(s)
    a, b = range_bounds(P, r, n)
    bs = s.bytes()
    okk = a <= b <= n and char_start(bs, a) and char_start(bs, b)
    if not okk:
        if checked:
            return None
        raise Panic('byte index out of range or not a char boundary: [%d..%d] of %d' % (a, b, n))
    return sub(s, a, b)


@model('std::str::<impl str>::get')
def s_get(P, c, args, dt):
    r = str_slice(P, _s(args), args[1], True)
    return none() if r is None else some(r)


@model('std::str::<impl str>::to_lowercase', 'std::str::<impl str>::to_uppercase',
       'std::str::<impl str>::to_ascii_lowercase', 'std::str::<impl str>::to_ascii_uppercase')
def s_case(P, c, args, dt):
    bs = _s(args).bytes()
    lower = 'lower' in c.method
    cb = concrete_bytes(bs)
    if cb is not None and 'ascii' not in c.method:
        t = cb.decode('utf-8')
        return StringV((t.lower() if lower else t.upper()).encode('utf-8'))
    out = []
    for b in bs:
        if isinstance(b, int):
            if b < 0x80:
                out.append(ascii_class(P, 'to_ascii_lowercase' if lower else 'to_ascii_uppercase', Sc(b, 8)).v)
            else:
                if 'ascii' not in c.method:
                    raise Unsupported('unicode case mapping on mixed symbolic string')
                out.append(b)
        else:
            out.append(ascii_class(P, 'to_ascii_lowercase' if lower else 'to_ascii_uppercase', Sc(b, 8)).v)
    return StringV(out)


@model('std::str::<impl str>::eq_ignore_ascii_case')
def s_eq_ignore_case(P, c, args, dt):
    a = _s(args).bytes()
    b = as_bytes(args[1])
    if len(a) != len(b):
        return FALSE
    return b_all(ascii_class(P, 'eq_ignore_ascii_case', Sc(x, 8), Sc(y, 8)) for x, y in zip(a, b))


@model('std::str::<impl str>::replace', 'std::str::<impl str>::replacen')
def s_replace(P, c, args, dt):
    s = _s(args)
    pat = Pat(P, args[1], '')
    to = as_bytes(args[2])
    limit = expect_concrete(args[3]) if c.method == 'replacen' else None
    bs = s.bytes()
    out = []
    pos = 0
    while limit is None or limit > 0:
        m = find_from(P, bs, pat, pos)
        if m is None:
            break
        i, n = m
        out.extend(bs[pos:i])
        out.extend(to)
        pos = i + n
        if n == 0:
            if pos < len(bs):
                w = char_width_at(bs, pos)
                out.extend(bs[pos:pos + w])
                pos += w
            else:
                break
        if limit is not None:
            limit -= 1
    out.extend(bs[pos:])
    return StringV(out)


@model('std::str::<impl str>::repeat')
def s_repeat(P, c, args, dt):
    n = expect_concrete(args[1], 'repeat count')
    return StringV(_s(args).bytes() * n)


@model('std::str::<impl str>::is_ascii')
def s_is_ascii(P, c, args, dt):
    return sc_bool(all((not isinstance(b, int)) or b < 0x80 for b in _s(args).bytes()))


@model('std::str::<impl str>::char_count', 'std::str::count::count_chars')
def s_char_count(P, c, args, dt):
    return usize(sum(1 for b in _s(args).bytes() if not is_cont(b)))


@model('std::str::<impl str>::floor_char_boundary', 'std::str::<impl str>::ceil_char_boundary')
def s_floor_ceil(P, c, args, dt):
    s = _s(args)
    bs = s.bytes()
    idx = tgt(args[1])
    i = idx.v if idx.concrete else P.concretize(idx, 0, len(bs) + 8)
    if i >= len(bs):
        return usize(len(bs))
    if c.method.startswith('floor'):
        while not char_start(bs, i):
            i -= 1
    else:
        while not char_start(bs, i):
            i += 1
    return usize(i)


@model('std::str::from_utf8', 'std::str::from_utf8_mut')
def s_from_utf8(P, c, args, dt):
    es = elems_of(args[0])
    bs = [x.v for x in es]
    cb = [b for b in bs if isinstance(b, int)]
    if len(cb) == len(bs):
        try:
            bytes(bs).decode('utf-8')
        except UnicodeDecodeError:
            return err(Opaque('Utf8Error'))
    else:
        # concrete non-ASCII bytes next to symbolic ones: validate concrete runs
        _validate_mixed(bs)
    return ok(mk_str(bs))


def _mixed_valid(bs):
    """UTF-8 validity of a buffer whose symbolic bytes are ASCII: decided by the concrete runs between them"""
    run = []
    for b in bs + [None]:
        if isinstance(b, int):
            run.append(b)
        else:
            if run:
                try:
                    bytes(run).decode('utf-8')
                except UnicodeDecodeError:
                    return False
            run = []
    return True


def _validate_mixed(bs):
    if not _mixed_valid(bs):
        raise Unsupported('invalid UTF-8 in mixed symbolic buffer')


def _mixed_lossy(bs):
    out = []
    run = []
    for b in bs + [None]:
        if isinstance(b, int):
            run.append(b)
        else:
            if run:
                out += list(bytes(run).decode('utf-8', 'replace').encode('utf-8'))
            run = []
            if b is not None:
                out.append(b)
    return out


@model('std::string::String::from_utf8')
def s_string_from_utf8(P, c, args, dt):
    es = elems_of(args[0])
    bs = [x.v for x in es]
    if all(isinstance(b, int) for b in bs):
        try:
            bytes(bs).decode('utf-8')
        except UnicodeDecodeError:
            return err(Opaque('FromUtf8Error', args[0]))
    elif not _mixed_valid(bs):
        return err(Opaque('FromUtf8Error', args[0]))
    return ok(StringV(bs))


@model('std::string::FromUtf8Error::as_bytes', 'std::string::FromUtf8Error::into_bytes')
def s_from_utf8_error_bytes(P, c, args, dt):
    e = tgt(args[0])
    v = tgt(e.p)
    if c.method == 'into_bytes':
        return v
    from .util import as_slice
    return as_slice(v)


@model('std::string::String::from_utf8_lossy')
def s_from_utf8_lossy(P, c, args, dt):
    es = elems_of(args[0])
    bs = [x.v for x in es]
    if all(isinstance(b, int) for b in bs):
        try:
            bytes(bs).decode('utf-8')
            return En('std::borrow::Cow', 'Borrowed', [mk_str(bs)])
        except UnicodeDecodeError:
            t = bytes(bs).decode('utf-8', 'replace')
            return En('std::borrow::Cow', 'Owned', [StringV(t.encode('utf-8'))])
    if not _mixed_valid(bs):
        return En('std::borrow::Cow', 'Owned', [StringV(_mixed_lossy(bs))])
    return En('std::borrow::Cow', 'Borrowed', [mk_str(bs)])


@model('std::string::String::from_utf8_unchecked', 'std::str::from_utf8_unchecked')
def s_from_utf8_unchecked(P, c, args, dt):
    bs = [x.v for x in elems_of(args[0])]
    return StringV(bs) if 'String' in c.key else mk_str(bs)


@model('std::borrow::Cow::into_owned', 'std::borrow::Cow::to_mut')
def cow_into_owned(P, c, args, dt):
    v = tgt(args[0])
    x = v.f[0]
    if isinstance(x, StrRef):
        return StringV(x.bytes())
    if isinstance(x, SliceRef):
        return VecV([clone_val(P, e) for e in x.elems()])
    return x


@model('std::borrow::Cow::is_borrowed')
def cow_is_borrowed(P, c, args, dt):
    return sc_bool(tgt(args[0]).var == 'Borrowed')


# ---------------------------------------------------------------------------
# Index on str / String

@model('std::ops::Index::index', 'std::ops::IndexMut::index_mut')
def m_index(P, c, args, dt):
    base = tgt(args[0])
    idx = args[1]
    if isinstance(base, (StrRef, StringV)):
        return str_slice(P, as_strref(base), idx, False)
    if isinstance(base, MapV):
        from .maps import map_lookup
        r = map_lookup(P, base, idx)
        if r is None:
            raise Panic('key not found in map index')
        return Ref(r, 1)
    if isinstance(base, (VecV, SliceRef, Agg, BoxV)):
        from .vecs import seq_index
        return seq_index(P, base, idx)
    if isinstance(base, Opaque) and base.tag == 'json':
        from .envs import json_index
        return json_index(P, base, idx)
    raise Unsupported('Index on %s' % type(base).__name__)


# ---------------------------------------------------------------------------
# String (owned)

@model('std::string::String::new')
def st_new(P, c, args, dt):
    return StringV([])


@model('std::string::String::with_capacity')
def st_with_capacity(P, c, args, dt):
    return StringV([])


@model('std::string::String::push_str')
def st_push_str(P, c, args, dt):
    tgt(args[0]).buf.b.extend(as_bytes(args[1]))
    return unit()


@model('std::string::String::push')
def st_push(P, c, args, dt):
    tgt(args[0]).buf.b.extend(char_bytes(tgt(args[1])))
    return unit()


@model('std::string::String::pop')
def st_pop(P, c, args, dt):
    b = tgt(args[0]).buf.b
    if not b:
        return none()
    ch, n = decode_before(b, len(b))
    del b[len(b) - n:]
    return some(ch)


@model('std::string::String::clear')
def st_clear(P, c, args, dt):
    del tgt(args[0]).buf.b[:]
    return unit()


@model('std::string::String::truncate')
def st_truncate(P, c, args, dt):
    b = tgt(args[0]).buf.b
    n = expect_concrete(args[1], 'truncate length')
    if n <= len(b):
        if not char_start(b, n):
            raise Panic('truncate not on char boundary')
        del b[n:]
    return unit()


@model('std::string::String::insert_str', 'std::string::String::insert')
def st_insert(P, c, args, dt):
    b = tgt(args[0]).buf.b
    i = expect_concrete(args[1], 'insert index')
    if i > len(b) or not char_start(b, i):
        raise Panic('insert not on char boundary')
    ins = as_bytes(args[2]) if c.method == 'insert_str' else char_bytes(tgt(args[2]))
    b[i:i] = ins
    return unit()


@model('std::string::String::remove')
def st_remove(P, c, args, dt):
    b = tgt(args[0]).buf.b
    i = expect_concrete(args[1], 'remove index')
    if i >= len(b) or not char_start(b, i):
        raise Panic('cannot remove a char from the end of a string / boundary')
    ch, n = decode_at(b, i)
    del b[i:i + n]
    return ch


@model('std::string::String::into_bytes')
def st_into_bytes(P, c, args, dt):
    return VecV([Sc(x, 8) for x in args[0].buf.b])


@model('std::string::String::into_boxed_str')
def st_into_boxed(P, c, args, dt):
    return BoxV(args[0].view())


@model('std::string::String::capacity')
def st_capacity(P, c, args, dt):
    return usize(len(tgt(args[0]).buf.b))


@model('std::string::String::reserve', 'std::string::String::shrink_to_fit', 'std::string::String::reserve_exact')
def st_reserve(P, c, args, dt):
    return unit()


@model('std::string::String::retain')
def st_retain(P, c, args, dt):
    s = tgt(args[0])
    b = s.buf.b
    out = []
    i = 0
    while i < len(b):
        ch, n = decode_at(b, i)
        if P.branch(P.call_value(args[1], [ch])):
            out.extend(b[i:i + n])
        i += n
    s.buf.b[:] = out
    return unit()


@model('std::string::String::drain')
def st_drain(P, c, args, dt):
    s = tgt(args[0])
    a, b = range_bounds(P, args[1], len(s.buf.b))
    piece = s.buf.b[a:b]
    del s.buf.b[a:b]
    return CharsIter(mk_str(piece))


@model('std::string::String::replace_range')
def st_replace_range(P, c, args, dt):
    s = tgt(args[0])
    a, b = range_bounds(P, args[1], len(s.buf.b))
    s.buf.b[a:b] = as_bytes(args[2])
    return unit()


@model('std::string::String::split_off')
def st_split_off(P, c, args, dt):
    s = tgt(args[0])
    i = expect_concrete(args[1])
    tail = s.buf.b[i:]
    del s.buf.b[i:]
    return StringV(tail)


@model('std::str::<impl str>::as_ptr', 'std::string::String::as_ptr')
def st_as_ptr(P, c, args, dt):
    raise Unsupported('raw string pointer')


@model('std::slice::<impl [T]>::join', 'std::slice::<impl [T]>::concat', 'std::slice::<impl [T]>::connect')
def sl_join(P, c, args, dt):
    es = elems_of(args[0])
    sep = None
    if c.method != 'concat':
        sv = tgt(args[1])
        if isinstance(sv, Sc):
            sep = char_bytes(sv)
        else:
            sep = sv
    if not es:
        # type decides; strings are the common case
        if dt and 'String' in dt:
            return StringV([])
        return VecV([])
    first = tgt(es[0])
    if isinstance(first, (StrRef, StringV)) or (isinstance(first, En) and first.ty.endswith('Cow')):
        out = []
        sb = as_bytes(sep) if (sep is not None and not isinstance(sep, list)) else (sep or [])
        for i, e in enumerate(es):
            if i:
                out.extend(sb)
            out.extend(as_bytes(e))
        return StringV(out)
    out = []
    for i, e in enumerate(es):
        if i and sep is not None:
            out.extend(clone_val(P, x) for x in elems_of(sep)) if isinstance(tgt(sep), (VecV, SliceRef, Agg)) else out.append(sep)
        out.extend(clone_val(P, tgt(x)) for x in elems_of(e))
    return VecV(out)
