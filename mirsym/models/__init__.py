"""Models of std (and a few third-party) functions at the call boundary.

Every model implements the *documented* semantics of the function on the
interpreter's value representation; none of them havocs.  A callee without a
model makes the run inconclusive.
"""
import re

MODELS = {}
CRATE_OVERRIDES = set()   # keys of MODELS that name functions of the crate under test (logging, timing)
PATTERNS = []


def model(*keys):
    def deco(fn):
        for k in keys:
            MODELS[k] = fn
        return fn
    return deco


def pattern(rx):
    def deco(fn):
        PATTERNS.append((re.compile(rx), fn))
        return fn
    return deco


def install(machine):
    from . import core, strs, vecs, iters, fmt, maps, envs, paths, json, imara, fs, process, hashes  # noqa: F401
    machine.models.update(MODELS)
    machine.model_patterns.extend(PATTERNS)
    machine.crate_overrides.update(CRATE_OVERRIDES)
