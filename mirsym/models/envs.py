"""Environment-ish std / third-party models that are the same for every harness:
time, env vars, serde_json as an opaque codec, logging no-ops.  Harnesses install
their own environment models (file system, git subprocess, config) via
Machine.env."""
import z3
from . import model, pattern
from .util import *
from .. import mir as MIR


from . import CRATE_OVERRIDES
_LOGGING = ('utils::debug_log', 'utils::debug_performance_log', 'utils::debug_performance_log_structured',
            'observability::log_error', 'observability::log_message', 'observability::log_performance')
CRATE_OVERRIDES.update(_LOGGING)


@model(*_LOGGING)
def m_log_nop(P, c, args, dt):
    """logging / timing side channels of the crate: empty bodies (formatting of their arguments has
    already happened in the caller and is executed)"""
    return unit()


@model('std::time::Instant::now', 'std::time::SystemTime::now')
def m_now(P, c, args, dt):
    return Opaque('Instant', None)


@model('std::time::Instant::elapsed', 'std::time::Instant::duration_since')
def m_elapsed(P, c, args, dt):
    return Opaque('Duration', 0)


@model('std::time::SystemTime::duration_since', 'std::time::SystemTime::elapsed')
def m_systime_since(P, c, args, dt):
    return ok(Opaque('Duration', 0))


@pattern(r'std::time::Duration::(from_millis|from_secs|from_micros|from_nanos|new)$')
def m_duration_from(P, c, args, dt):
    """a Duration is only ever handed to sleep / compared against elapsed time (which the clock model fixes at 0)"""
    return Opaque('Duration', 0)


@pattern(r'std::time::Duration::(as_millis|as_secs|as_micros|as_nanos|as_secs_f64|subsec_millis)$')
def m_duration_as(P, c, args, dt):
    d = tgt(args[0])
    v = d.p if isinstance(d, Opaque) and isinstance(d.p, Sc) else None
    w = {'as_millis': 128, 'as_micros': 128, 'as_nanos': 128, 'as_secs': 64, 'subsec_millis': 32}.get(c.method, 64)
    if c.method == 'as_secs_f64':
        return Opaque('f64', 0.0)
    if v is not None:
        return int_cast(v, w, False)
    return Sc(0, w)


def json_index(P, base, idx):
    raise Unsupported('serde_json::Value index')


def json_display(P, v):
    raise Unsupported('serde_json::Value display')
