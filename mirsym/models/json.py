"""serde_json as an opaque codec with the axioms of §2.4 of DESIGN.md:

  * to_string(x) / to_string_pretty(x) return a text that (a) is one JSON value,
    (b) contains no raw CR, and no raw LF except the pretty printer's own line
    breaks, (c) is a function of x only;
  * from_str::<T>(to_string*(x)) == Ok(x);
  * from_str of any other text: Err (a stricter codec than serde's – documented
    under-approximation; the harness for parser totality adds the arbitrary-Ok case itself).

AuthorshipMetadata is emitted with its real field layout (schema_version,
git_ai_version, base_commit_sha, prompts) because git-ai rewrites the
`base_commit_sha` field textually; string fields are inserted verbatim, so they
must not need JSON escaping – the harness constrains them accordingly.
"""
import z3
from . import model, pattern
from .util import *
from ..interp import strip_lifetimes, type_base

META = 'authorship::authorship_log_serialization::AuthorshipMetadata'


def _registry(P):
    return P.state.setdefault('json', [])


def _emit_opaque(P, v, ty, pretty):
    reg = _registry(P)
    # same value => same text (function of x): reuse id when structurally identical & concrete
    n = len(reg) + 1
    if pretty:
        txt = ('{\n  "$opaque": %d\n}' % n).encode()
    else:
        txt = ('{"$opaque":%d}' % n).encode()
    segs = [('lit', list(txt))]
    reg.append({'id': n, 'ty': ty, 'segs': segs, 'val': clone_val(P, v), 'fields': None})
    return list(txt)


def _emit_metadata(P, v, pretty):
    """real layout of AuthorshipMetadata; string fields become ('field', idx, bytes)"""
    reg = _registry(P)
    n = len(reg) + 1
    fields = P.M.src.struct_fields(META)
    if fields != ['schema_version', 'git_ai_version', 'base_commit_sha', 'prompts']:
        raise Unsupported('AuthorshipMetadata layout changed: %r' % (fields,))
    nl = '\n' if pretty else ''
    ind = '  ' if pretty else ''
    sp = ' ' if pretty else ''
    segs = []

    def lit(s):
        segs.append(('lit', list(s.encode())))

    def strfield(path, sv):
        segs.append(('lit', [34]))
        segs.append(('field', path, list(as_bytes(sv))))
        segs.append(('lit', [34]))
    lit('{' + nl + ind + '"schema_version":' + sp)
    strfield((0,), v.f[0])
    lit(',' + nl + ind + '"git_ai_version":' + sp)
    gv = v.f[1]
    if gv.var == 'Some':
        strfield((1, 0), gv.f[0])
    else:
        lit('null')
    lit(',' + nl + ind + '"base_commit_sha":' + sp)
    strfield((2,), v.f[2])
    lit(',' + nl + ind + '"prompts":' + sp)
    prompts = v.f[3]
    from .maps import ordered_entries
    ents = ordered_entries(P, prompts)
    if not ents:
        lit('{}')
    else:
        lit('{' + nl)
        for i, (k, rec) in enumerate(ents):
            if i:
                lit(',' + nl)
            lit(ind * 2)
            segs.append(('lit', [34]))
            segs.append(('key', i, list(as_bytes(k))))
            segs.append(('lit', [34]))
            lit(':' + sp + '{' + nl + ind * 3 + '"$prompt":' + sp + '%d' % (i + 1) + nl + ind * 2 + '}')
        lit(nl + ind + '}')
    lit(nl + '}')
    out = []
    for s in segs:
        out.extend(s[-1])
    reg.append({'id': n, 'ty': META, 'segs': segs, 'val': clone_val(P, v), 'fields': True})
    return out


def json_emit(P, v, ty, pretty):
    v = tgt(v)
    t = type_base(strip_lifetimes(ty or ''))
    if t == META:
        return _emit_metadata(P, v, pretty)
    return _emit_opaque(P, v, ty, pretty)


@model('serde_json::to_string', 'serde_json::to_string_pretty', 'serde_json::ser::to_string', 'serde_json::ser::to_string_pretty')
def m_to_string(P, c, args, dt):
    ty = c.gen[0] if c.gen else ''
    return ok(StringV(json_emit(P, args[0], ty, c.method.endswith('pretty'))))


@model('serde_json::to_value', 'serde_json::value::to_value')
def m_to_value(P, c, args, dt):
    """json! leaves: the value is carried opaquely (contexts handed to logging / telemetry)"""
    return ok(Opaque('JsonValue', tgt(args[0])))


@model('serde_json::Map::new')
def m_json_map_new(P, c, args, dt):
    return MapV('btree', [], 'map')


@model('serde_json::Map::insert')
def m_json_map_insert(P, c, args, dt):
    m = tgt(args[0])
    m.ent.append([args[1], args[2]])
    return none()


@model('serde_json::to_vec', 'serde_json::to_vec_pretty')
def m_to_vec(P, c, args, dt):
    ty = c.gen[0] if c.gen else ''
    return ok(VecV([Sc(b, 8) for b in json_emit(P, args[0], ty, c.method.endswith('pretty'))]))


def json_parse(P, bs, ty):
    """-> value or None.  Literal parts of a recorded emission must match; string
    fields are read back from the text (they end at the next double quote), so a
    textual rewrite of a field value yields the value with that field changed."""
    want = type_base(strip_lifetimes(ty or ''))
    for ent in reversed(_registry(P)):
        if type_base(strip_lifetimes(ent['ty'] or '')) != want:
            continue
        pos = 0
        cond = TRUE
        got = {}
        n_total = len(bs)
        failed = False
        for s in ent['segs']:
            if s[0] == 'lit':
                n = len(s[1])
                if pos + n > n_total:
                    failed = True
                    break
                cond = b_and(cond, bytes_eq(bs[pos:pos + n], s[1]))
                pos += n
                if cond.v is False:
                    failed = True
                    break
            else:
                j = pos
                while j < n_total and not P.branch(byte_eq(bs[j], 34)):
                    j += 1
                got[(s[0], s[1])] = bs[pos:j]
                pos = j
        if failed or pos != n_total:
            continue
        if P.branch(cond):
            val = clone_val(P, ent['val'])
            if ent['fields']:
                for (kind, path), piece in got.items():
                    if kind == 'field':
                        tgt_v = val
                        for idx in path[:-1]:
                            tgt_v = tgt_v.f[idx]
                        tgt_v.f[path[-1]] = StringV(piece)
                    elif kind == 'key':
                        from .maps import ordered_entries
                        ents = ordered_entries(P, val.f[3])
                        ents[path][0] = StringV(piece)
            return val
    return None


@model('serde_json::from_str', 'serde_json::de::from_str', 'serde_json::from_slice', 'serde_json::de::from_slice')
def m_from_str(P, c, args, dt):
    ty = None
    for g in c.gen:
        if not g.startswith("'"):
            ty = g
    if ty is None and dt:
        # Result<T, serde_json::Error>
        from .. import mir as MIR
        inner = dt[dt.index('<') + 1:-1]
        ty = MIR.split_top(inner)[0]
    src = tgt(args[0])
    if isinstance(src, (StrRef, StringV)):
        bs = as_bytes(src)
    else:
        bs = [x.v for x in elems_of(src)]
    v = json_parse(P, bs, ty)
    if v is not None:
        return ok(v)
    hook = P.state.get('json_from_str_other')
    if hook is not None:
        return hook(P, bs, ty)
    return err(Opaque('serde_json::Error', 'not a text produced by this codec'))


@model('serde_json::Error::to_string')
def m_json_err_to_string(P, c, args, dt):
    return pystring('<serde_json::Error>')
