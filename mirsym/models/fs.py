"""std::fs over a model file system.

P.state['fs'] : dict  concrete path (str) -> StringV (file) | 'DIR'
P.state['fs_fault'] : optional callable (P, op, path) -> bool   — True makes this call fail with an
io::Error (the fault variable of C07: every file-system call may fail).
Paths are concrete strings; contents may be symbolic.
"""
from . import model, pattern
from .util import *
from .paths import path_str


def _fs(P):
    return P.state.setdefault('fs', {})


def _p(v, P=None):
    bs = path_str(v).bytes()
    cb = concrete_bytes(bs)
    if cb is None:
        raise Unsupported('symbolic file-system path')
    s = cb.decode('utf-8', 'surrogateescape')
    while len(s) > 1 and s.endswith('/'):
        s = s[:-1]
    if P is not None and ('/../' in s + '/' or '/./' in s + '/' or s.startswith('./') or s.startswith('../')):
        s = _resolve(P, s)
    elif P is not None and P.state.get('symlinks'):
        s = _follow_links(P, s)
    return s


def _follow_links(P, s):
    """P.state['symlinks']: {link path: target path} (directory links); longest link prefix first"""
    links = P.state.get('symlinks') or {}
    for _ in range(8):
        hit = None
        for l in sorted(links, key=len, reverse=True):
            if s == l or s.startswith(l + '/'):
                hit = l
                break
        if hit is None:
            return s
        s = links[hit] + s[len(hit):]
    return s


def _resolve(P, s):
    """resolve . and .. the way the OS does: `x/..` is the parent only if x is an existing directory;
    otherwise the path does not exist.  Symbolic links of P.state['symlinks'] are followed."""
    fs = _fs(P)
    s = _follow_links(P, s)
    if not s.startswith('/'):
        s = P.state.get('cwd', '/') .rstrip('/') + '/' + s
    out = []
    for c in s.split('/'):
        if c in ('', '.'):
            continue
        if c == '..':
            cur = '/' + '/'.join(out)
            if out and not (fs.get(cur) == 'DIR' or any(k.startswith(cur + '/') for k in fs)):
                return '\0nonexistent'
            if out:
                out.pop()
            continue
        out.append(c)
    return '/' + '/'.join(out)


def _fault(P, op, path):
    f = P.state.get('fs_fault')
    P.events.append(('fs', op, path))
    if f is not None and f(P, op, path):
        return err(Opaque('io::Error', op))
    return None


def _io_err(kind='NotFound'):
    return err(Opaque('io::Error', kind))


@model('std::path::Path::exists', 'std::path::Path::try_exists')
def fs_exists(P, c, args, dt):
    p = _p(args[0], P)
    P.events.append(('fs', 'exists', p))
    fs = _fs(P)
    r = p in fs or any(k.startswith(p + '/') for k in fs)
    return ok(sc_bool(r)) if c.method == 'try_exists' else sc_bool(r)


@model('std::path::Path::is_file')
def fs_is_file(P, c, args, dt):
    p = _p(args[0], P)
    v = _fs(P).get(p)
    return sc_bool(v is not None and v != 'DIR')


@model('std::path::Path::is_dir')
def fs_is_dir(P, c, args, dt):
    p = _p(args[0], P)
    fs = _fs(P)
    return sc_bool(fs.get(p) == 'DIR' or any(k.startswith(p + '/') for k in fs))


@model('std::path::Path::canonicalize', 'std::fs::canonicalize')
def fs_canonicalize(P, c, args, dt):
    from .paths import mk_pathbuf
    p = _p(args[0], P)
    if not p.startswith('/'):
        p = _resolve(P, p)
    fs = _fs(P)
    if p in fs or any(k.startswith(p + '/') for k in fs) or p == '/':
        return ok(mk_pathbuf(list(p.encode('utf-8', 'surrogateescape'))))
    return _io_err('NotFound')


@model('std::fs::OpenOptions::new', 'std::fs::File::options')
def oo_new(P, c, args, dt):
    return Opaque('OpenOptions', {})


@pattern(r'std::fs::OpenOptions::(read|write|append|truncate|create|create_new)$')
def oo_flag(P, c, args, dt):
    o = tgt(args[0])
    v = args[1]
    o.p[c.method] = bool(v.v) if isinstance(v, Sc) and v.concrete else True
    return args[0]


@model('std::fs::OpenOptions::open')
def oo_open(P, c, args, dt):
    o = tgt(args[0])
    p = _p(args[1], P)
    f = _fault(P, 'open', p)
    if f is not None:
        return f
    fs = _fs(P)
    exists = p in fs
    if o.p.get('create_new'):
        if exists:
            return _io_err('AlreadyExists')
        fs[p] = StringV([])
        return ok(Opaque('File', p))
    if not exists:
        if o.p.get('create'):
            fs[p] = StringV([])
            return ok(Opaque('File', p))
        return _io_err('NotFound')
    if o.p.get('truncate'):
        fs[p] = StringV([])
    return ok(Opaque('File', p))


@model('std::fs::metadata', 'std::fs::symlink_metadata', 'std::path::Path::metadata')
def fs_metadata(P, c, args, dt):
    p = _p(args[0], P)
    f = _fault(P, 'metadata', p)
    if f is not None:
        return f
    fs = _fs(P)
    v = fs.get(p)
    if v is not None and v != 'DIR':
        return ok(Opaque('Metadata', {'file': True, 'dir': False, 'len': len(v.buf.b)}))
    if v == 'DIR' or any(k.startswith(p + '/') for k in fs):
        return ok(Opaque('Metadata', {'file': False, 'dir': True, 'len': 0}))
    return _io_err('NotFound')


@model('std::fs::Metadata::is_file')
def md_is_file(P, c, args, dt):
    return sc_bool(tgt(args[0]).p['file'])


@model('std::fs::Metadata::is_dir')
def md_is_dir(P, c, args, dt):
    return sc_bool(tgt(args[0]).p['dir'])


@model('std::fs::Metadata::len')
def md_len(P, c, args, dt):
    return Sc(tgt(args[0]).p['len'], 64)


@model('std::thread::sleep')
def thread_sleep(P, c, args, dt):
    return unit()


@model('std::fs::read_to_string')
def fs_read_to_string(P, c, args, dt):
    p = _p(args[0])
    f = _fault(P, 'read', p)
    if f is not None:
        return f
    v = _fs(P).get(p)
    if v is None or v == 'DIR':
        return _io_err()
    return ok(StringV(list(v.buf.b)))


@model('std::fs::read')
def fs_read(P, c, args, dt):
    p = _p(args[0])
    f = _fault(P, 'read', p)
    if f is not None:
        return f
    v = _fs(P).get(p)
    if v is None or v == 'DIR':
        return _io_err()
    return ok(VecV([Sc(b, 8) for b in v.buf.b]))


@model('std::fs::write')
def fs_write(P, c, args, dt):
    p = _p(args[0])
    f = _fault(P, 'write', p)
    if f is not None:
        return f
    data = tgt(args[1])
    if isinstance(data, (StrRef, StringV)):
        bs = list(as_bytes(data))
    else:
        bs = [x.v for x in elems_of(data)]
    _fs(P)[p] = StringV(bs)
    return ok(unit())


@model('std::fs::remove_file')
def fs_remove_file(P, c, args, dt):
    p = _p(args[0])
    f = _fault(P, 'remove_file', p)
    if f is not None:
        return f
    fs = _fs(P)
    if p not in fs or fs[p] == 'DIR':
        return _io_err()
    del fs[p]
    return ok(unit())


@model('std::fs::remove_dir_all')
def fs_remove_dir_all(P, c, args, dt):
    p = _p(args[0])
    f = _fault(P, 'remove_dir_all', p)
    if f is not None:
        return f
    fs = _fs(P)
    hit = [k for k in fs if k == p or k.startswith(p + '/')]
    if not hit:
        return _io_err()
    for k in hit:
        del fs[k]
    return ok(unit())


@model('std::fs::create_dir_all', 'std::fs::create_dir')
def fs_create_dir_all(P, c, args, dt):
    p = _p(args[0])
    f = _fault(P, 'create_dir', p)
    if f is not None:
        return f
    fs = _fs(P)
    # a regular file at the path or at any ancestor: the directory cannot be made (ENOTDIR / EEXIST)
    parts = [x for x in p.split('/') if x]
    for i in range(1, len(parts) + 1):
        anc = '/' + '/'.join(parts[:i])
        if anc in fs and fs[anc] != 'DIR':
            return _io_err()
    if c.method == 'create_dir' and p in fs:
        return _io_err()
    fs.setdefault(p, 'DIR')
    return ok(unit())


@model('std::fs::rename')
def fs_rename(P, c, args, dt):
    a = _p(args[0])
    b = _p(args[1])
    f = _fault(P, 'rename', a)
    if f is not None:
        return f
    fs = _fs(P)
    hit = [k for k in fs if k == a or k.startswith(a + '/')]
    if not hit:
        return _io_err()
    for k in hit:
        fs[b + k[len(a):]] = fs.pop(k)
    return ok(unit())


@model('std::fs::copy')
def fs_copy(P, c, args, dt):
    a = _p(args[0])
    b = _p(args[1])
    f = _fault(P, 'copy', a)
    if f is not None:
        return f
    fs = _fs(P)
    if a not in fs or fs[a] == 'DIR':
        return _io_err()
    fs[b] = StringV(list(fs[a].buf.b))
    return ok(Sc(len(fs[b].buf.b), 64))


@model('std::io::Error::new', 'std::io::Error::other')
def io_error_new(P, c, args, dt):
    return Opaque('io::Error', 'custom')


@model('std::io::Error::kind')
def io_error_kind(P, c, args, dt):
    e = tgt(args[0])
    k = e.p if isinstance(e.p, str) and e.p in ('NotFound', 'PermissionDenied', 'AlreadyExists') else 'Other'
    return En('std::io::ErrorKind', k, [])
