"""core::fmt machinery: format_args! templates (byte-program encoding of this
nightly), Display/Debug of std values, write!/format!/to_string."""
import z3
from . import model, pattern
from .util import *
from .util import RANGES, KEEP
from .. import mir as MIR
from ..interp import strip_lifetimes


class FmtArg:
    __slots__ = ('v', 'kind', 'ty')

    def __init__(self, v, kind, ty):
        self.v = v
        self.kind = kind     # display | debug | lower_hex | upper_hex | ...
        self.ty = ty


@pattern(r'std::fmt::rt::Argument::new_([a-z_]+)$')
def m_arg_new(P, c, args, dt):
    kind = c.method[4:]
    return Opaque('FmtArg', FmtArg(args[0], kind, c.gen[0] if c.gen else None))


@model('std::fmt::Arguments::new')
def m_arguments_new(P, c, args, dt):
    tpl = tgt(args[0])
    tb = bytes(x.v for x in elems_of(tpl))
    fargs = [x.p for x in elems_of(args[1])]
    return Opaque('Arguments', (tb, fargs))


@model('std::fmt::Arguments::from_str', 'std::fmt::Arguments::new_const')
def m_arguments_from_str(P, c, args, dt):
    a = tgt(args[0])
    if isinstance(a, StrRef):
        return Opaque('Arguments', (None, a.bytes()))
    # new_const(&[&str; N])
    out = []
    for s in elems_of(a):
        out.extend(as_bytes(s))
    return Opaque('Arguments', (None, out))


@model('std::fmt::Arguments::as_str')
def m_arguments_as_str(P, c, args, dt):
    a = tgt(args[0]).p
    if a[0] is None:
        return some(mk_str(a[1]))
    return none()


def parse_template(tb):
    """-> list of ('lit', bytes) | ('arg', index, spec dict)"""
    out = []
    i = 0
    nxt = 0
    while True:
        n = tb[i]
        i += 1
        if n == 0:
            break
        if n < 0x80:
            out.append(('lit', tb[i:i + n]))
            i += n
        elif n == 0x80:
            ln = tb[i] | (tb[i + 1] << 8)
            i += 2
            out.append(('lit', tb[i:i + ln]))
            i += ln
        elif n == 0xC0:
            out.append(('arg', nxt, {}))
            nxt += 1
        else:
            spec = {}
            if n & 1:
                spec['flags'] = int.from_bytes(tb[i:i + 4], 'little')
                i += 4
            if n & 2:
                spec['width'] = int.from_bytes(tb[i:i + 2], 'little')
                i += 2
            if n & 4:
                spec['precision'] = int.from_bytes(tb[i:i + 2], 'little')
                i += 2
            if n & 8:
                nxt = int.from_bytes(tb[i:i + 2], 'little')
                i += 2
            if n & 16:
                spec['width_arg'] = spec.pop('width')
            if n & 32:
                spec['precision_arg'] = spec.pop('precision')
            out.append(('arg', nxt, spec))
            nxt += 1
    return out


def render(P, a):
    """Arguments payload -> list of bytes"""
    tb, fargs = a
    if tb is None:
        return list(fargs)
    out = []
    for part in parse_template(tb):
        if part[0] == 'lit':
            out.extend(part[1])
        else:
            fa = fargs[part[1]]
            spec = dict(part[2])
            if 'width_arg' in spec:
                spec['width'] = expect_concrete(tgt(fargs[spec['width_arg']].v), 'dynamic width')
            if 'precision_arg' in spec:
                spec['precision'] = expect_concrete(tgt(fargs[spec['precision_arg']].v), 'dynamic precision')
            out.extend(format_arg(P, fa, spec))
    return out


# flags layout (FormattingOptions): fill char in low 21 bits, then sign/alt/zero/debug-hex, align, width/prec flags
def _decode_flags(flags):
    fill = flags & 0x1FFFFF
    return {
        'fill': fill if fill else 32,
        'plus': bool(flags & (1 << 21)),
        'minus': bool(flags & (1 << 22)),
        'alt': bool(flags & (1 << 23)),
        'zero': bool(flags & (1 << 24)),
        'align': (flags >> 29) & 3,   # 0 left 1 right 2 center 3 unknown
    }


def format_arg(P, fa, spec):
    body = display_bytes(P, fa.v, fa.ty, spec, fa.kind)
    if not spec:
        return body
    fl = _decode_flags(spec.get('flags', 0x20 | (3 << 29)))
    width = spec.get('width')
    v = tgt(fa.v)
    if isinstance(v, (StrRef, StringV)) and 'precision' in spec and fa.kind == 'display':
        # truncate to precision chars
        from .strs import is_cont
        n = 0
        cut = len(body)
        for i, b in enumerate(body):
            if not is_cont(b):
                if n == spec['precision']:
                    cut = i
                    break
                n += 1
        body = body[:cut]
    if width is None:
        return body
    from .strs import is_cont
    nchars = sum(1 for b in body if not is_cont(b))
    if nchars >= width:
        return body
    pad = width - nchars
    if fl['zero'] and isinstance(v, Sc):
        sign = []
        rest = body
        if body and body[0] in (43, 45):
            sign, rest = body[:1], body[1:]
        return sign + [48] * pad + rest
    fillb = list(chr(fl['fill']).encode('utf-8'))
    align = fl['align']
    if align == 3:
        align = 1 if isinstance(v, Sc) or (isinstance(v, Opaque) and v.tag == 'f64') else 0
    if align == 0:
        return body + fillb * pad
    if align == 1:
        return fillb * pad + body
    left = pad // 2
    return fillb * left + body + fillb * (pad - left)


def int_digits(P, v, w, signed):
    """decimal digits of a scalar; forks on the number of digits when symbolic"""
    if v.concrete:
        return list(str(v.sval() if signed else v.v).encode())
    memo = P.state.setdefault('int_digits', {})
    hit = memo.get((v.v.get_id(), w, signed))
    if hit is not None:
        return list(hit)
    z = v.z()
    out_sign = []
    if signed:
        neg = P.branch(mk_bool(z < 0))
        if neg:
            out_sign = [45]
            z = -z
    W = w + 4
    zz = z3.ZeroExt(4, z)
    maxd = len(str((1 << w) - 1))
    conds = []
    known = RANGES.get(v.v.get_id()) if not signed else None
    for k in range(1, maxd + 1):
        lo = 0 if k == 1 else 10 ** (k - 1)
        hi = 10 ** k
        if known is not None and not any(a < hi and b >= lo for a, b in known):
            conds.append(False)
            continue
        c = z3.UGE(zz, z3.BitVecVal(lo, W))
        if hi < (1 << W):
            c = z3.And(c, z3.ULT(zz, z3.BitVecVal(hi, W)))
        conds.append(c)
    k = P.choose(conds) + 1
    ds = []
    total = z3.BitVecVal(0, W)
    for i in range(k):
        d = P.fresh(8, 'dig')
        P.assume(z3.And(z3.UGE(d, z3.BitVecVal(48, 8)), z3.ULE(d, z3.BitVecVal(57, 8))))
        ds.append(d)
        total = total * 10 + z3.ZeroExt(W - 8, d - 48)
    P.assume(total == zz)
    memo[(v.v.get_id(), w, signed)] = out_sign + ds
    KEEP.append(v.v)
    if not out_sign:
        # the digits are by construction the decimal representation of v: parsing them back yields v
        P.state.setdefault('digits_of', {})[tuple(d.get_id() for d in ds)] = Sc(v.v, w, signed)
    return out_sign + ds


def display_bytes(P, v, ty=None, spec=None, kind='display'):
    """Display (or Debug/hex) rendering of a value -> byte list"""
    v = tgt(v)
    spec = spec or {}
    if isinstance(v, (StrRef, StringV)):
        bs = as_bytes(v)
        if kind == 'debug':
            return debug_str(bs, P)
        return list(bs)
    if isinstance(v, Sc):
        t = (ty or '').strip().lstrip('&').strip()
        while t.startswith('&'):
            t = t[1:].strip()
        if t.startswith('mut '):
            t = t[4:]
        if v.w == 0:
            if isinstance(v.v, bool):
                return list(b'true' if v.v else b'false')
            return list(b'true') if P.branch(v) else list(b'false')
        if t == 'char' or (v.w == 32 and t not in MIR.INT_TYPES and t == 'char'):
            from .strs import char_bytes
            cb = char_bytes(v)
            if kind == 'debug':
                return [39] + cb + [39]
            return cb
        if kind in ('lower_hex', 'upper_hex', 'binary', 'octal'):
            x = expect_concrete(v, 'hex-formatted integer')
            fmtc = {'lower_hex': 'x', 'upper_hex': 'X', 'binary': 'b', 'octal': 'o'}[kind]
            s = format(x, fmtc)
            fl = _decode_flags(spec.get('flags', 0))
            if fl['alt']:
                s = {'x': '0x', 'X': '0x', 'b': '0b', 'o': '0o'}[fmtc] + s
            return list(s.encode())
        fl = _decode_flags(spec.get('flags', 0)) if 'flags' in spec else None
        ds = int_digits(P, v, v.w, v.s)
        if fl and fl['plus'] and not (ds and ds[0] == 45):
            ds = [43] + ds
        return ds
    if isinstance(v, Opaque):
        if v.tag == 'f64':
            return fmt_float(v.p, spec, kind)
        if v.tag == 'Arguments':
            return render(P, v.p)
        if v.tag in ('Path', 'PathBuf', 'OsStr', 'OsString', 'Display'):
            bs = as_bytes(v.p)
            return debug_str(bs, P) if kind == 'debug' else list(bs)
        if v.tag == 'StringError':
            return list(as_bytes(v.p))
        if v.tag == 'ParseIntError':
            msg = {'Empty': 'cannot parse integer from empty string', 'InvalidDigit': 'invalid digit found in string',
                   'PosOverflow': 'number too large to fit in target type', 'NegOverflow': 'number too small to fit in target type'}.get(v.p, 'parse error')
            return list((('ParseIntError { kind: %s }' % v.p) if kind == 'debug' else msg).encode())
        if v.tag == 'json':
            from .envs import json_display
            return json_display(P, v)
        return list(('<%s>' % v.tag).encode())
    if isinstance(v, BoxV):
        return display_bytes(P, v.v, None, spec, kind)
    if isinstance(v, En) and v.ty.endswith('Cow'):
        return display_bytes(P, v.f[0], None, spec, kind)
    if isinstance(v, (Agg, En)):
        # crate type with Display / Debug impl in MIR
        trait = 'Display' if kind == 'display' else 'Debug'
        if v.ty and v.ty not in ('()', '[]'):
            last = v.ty.rsplit('::', 1)[-1]
            lst = P.M.trait_impls.get((trait, last, 'fmt'))
            if lst and len(lst) == 1 and not (trait == 'Debug' and lst[0] in P.M.derived_impls):
                buf = StringV([])
                f = Opaque('Formatter', {'buf': buf, 'spec': spec})
                r = P.run_fn(P.M.mir.get(lst[0]), [Ref(Cell(v)), Ref(Cell(f))])
                if isinstance(r, En) and r.var == 'Err':
                    raise Panic('a Display implementation returned an error unexpectedly')
                return list(buf.buf.b)
        if kind == 'debug':
            return debug_value(P, v)
        raise Unsupported('Display of %s' % v.ty)
    if isinstance(v, (VecV, SliceRef, MapV)):
        if kind == 'debug':
            return debug_value(P, v)
    raise Unsupported('format of %s (%s)' % (type(v).__name__, kind))


def debug_str(bs, P=None):
    out = [34]
    i = 0
    cb = concrete_bytes(bs)
    if cb is not None:
        t = cb.decode('utf-8', 'replace')
        esc = ''
        for ch in t:
            o = ord(ch)
            if ch == '"':
                esc += '\\"'
            elif ch == '\\':
                esc += '\\\\'
            elif ch == '\n':
                esc += '\\n'
            elif ch == '\r':
                esc += '\\r'
            elif ch == '\t':
                esc += '\\t'
            elif ch == "'":
                esc += "'"
            elif o < 32 or o == 127:
                esc += '\\u{%x}' % o
            else:
                esc += ch
        return [34] + list(esc.encode('utf-8')) + [34]
    # symbolic content: the escaping is decided byte by byte on the path (it changes the length);
    # multi-byte characters are concrete in every harness and pass through
    if P is None:
        return [34] + list(bs) + [34]
    from ..interp import binop as _binop, Sc as _Sc

    def hexdigit(x):
        z = x.z() if isinstance(x, _Sc) else z3.BitVecVal(x, 8)
        return _Sc(z3.If(z3.ULT(z, 10), z + 48, z + 87), 8)
    for b in bs:
        if not isinstance(b, _Sc) or b.concrete:
            v = b.v if isinstance(b, _Sc) else b
            out += debug_str([v])[1:-1]
            continue
        if P.branch(_binop('Eq', b, _Sc(34, 8))):
            out += [92, 34]
        elif P.branch(_binop('Eq', b, _Sc(92, 8))):
            out += [92, 92]
        elif P.branch(_binop('Eq', b, _Sc(10, 8))):
            out += [92, 110]
        elif P.branch(_binop('Eq', b, _Sc(13, 8))):
            out += [92, 114]
        elif P.branch(_binop('Eq', b, _Sc(9, 8))):
            out += [92, 116]
        elif P.branch(_binop('Lt', b, _Sc(32, 8))) or P.branch(_binop('Eq', b, _Sc(127, 8))):
            out += list(b'\\u{')
            if P.branch(_binop('Lt', b, _Sc(16, 8))):
                out.append(hexdigit(b))
            else:
                out.append(hexdigit(_Sc(z3.LShR(b.z(), 4), 8)))
                out.append(hexdigit(_Sc(b.z() & 15, 8)))
            out.append(125)
        elif P.branch(_binop('Ge', b, _Sc(128, 8))):
            raise Unsupported('Debug of a symbolic non-ASCII byte')
        else:
            out.append(b)
    return out + [34]


def debug_value(P, v):
    """Debug output is only observable through log lines / error messages; a
    structural rendering suffices."""
    v = tgt(v)
    if isinstance(v, (StrRef, StringV, Sc, Opaque)):
        return display_bytes(P, v, None, None, 'debug')
    if isinstance(v, (VecV, SliceRef)) or (isinstance(v, Agg) and v.ty == '[]'):
        out = [91]
        for i, e in enumerate(elems_of(v)):
            if i:
                out += [44, 32]
            out += debug_value(P, e)
        return out + [93]
    if isinstance(v, Agg):
        name = v.ty.rsplit('::', 1)[-1] if v.ty not in ('()',) else ''
        out = list(name.encode()) + [40]
        for i, e in enumerate(v.f):
            if i:
                out += [44, 32]
            out += debug_value(P, e)
        return out + [41]
    if isinstance(v, En):
        out = list((v.var or '?').encode())
        if v.f:
            out += [40]
            for i, e in enumerate(v.f):
                if i:
                    out += [44, 32]
                out += debug_value(P, e)
            out += [41]
        return out
    if isinstance(v, MapV):
        return list(b'{..}')
    if isinstance(v, BoxV):
        return debug_value(P, v.v)
    return list(b'<?>')


def fmt_float(x, spec, kind):
    if 'precision' in spec:
        s = '%.*f' % (spec['precision'], x)
    else:
        if x == int(x) and abs(x) < 1e16:
            s = '%d' % int(x) if kind == 'display' else '%.1f' % x
        else:
            s = repr(x)
    return list(s.encode())


@model('std::fmt::format', 'std::fmt::format::format_inner')
def m_format(P, c, args, dt):
    return StringV(render(P, tgt(args[0]).p))


@model('std::fmt::Write::write_fmt')
def m_write_fmt(P, c, args, dt):
    dst = tgt(args[0])
    bs = render(P, tgt(args[1]).p)
    if isinstance(dst, StringV):
        dst.buf.b.extend(bs)
        return ok(unit())
    if isinstance(dst, Opaque) and dst.tag == 'Formatter':
        dst.p['buf'].buf.b.extend(bs)
        return ok(unit())
    raise Unsupported('write_fmt to %s' % type(dst).__name__)


@model('std::fmt::Write::write_str', 'std::fmt::Formatter::write_str', 'std::fmt::Formatter::pad')
def m_write_str(P, c, args, dt):
    dst = tgt(args[0])
    bs = as_bytes(args[1])
    if isinstance(dst, StringV):
        dst.buf.b.extend(bs)
    else:
        dst.p['buf'].buf.b.extend(bs)
    return ok(unit())


@model('std::fmt::Write::write_char', 'std::fmt::Formatter::write_char')
def m_write_char(P, c, args, dt):
    from .strs import char_bytes
    dst = tgt(args[0])
    bs = char_bytes(tgt(args[1]))
    if isinstance(dst, StringV):
        dst.buf.b.extend(bs)
    else:
        dst.p['buf'].buf.b.extend(bs)
    return ok(unit())


@model('std::fmt::Formatter::write_fmt')
def m_formatter_write_fmt(P, c, args, dt):
    dst = tgt(args[0])
    dst.p['buf'].buf.b.extend(render(P, tgt(args[1]).p))
    return ok(unit())


@model('std::fmt::Display::fmt', 'std::fmt::Debug::fmt', 'std::fmt::LowerHex::fmt')
def m_display_fmt(P, c, args, dt):
    dst = tgt(args[1])
    kind = {'Display': 'display', 'Debug': 'debug', 'LowerHex': 'lower_hex'}[c.trait.rsplit('::', 1)[-1]]
    dst.p['buf'].buf.b.extend(display_bytes(P, args[0], c.selfty, dst.p.get('spec'), kind))
    return ok(unit())


@pattern(r'std::fmt::Formatter::debug_(struct|tuple|list|map|set).*')
def m_debug_builders(P, c, args, dt):
    dst = tgt(args[0])
    dst.p['buf'].buf.b.extend(b'<debug>')
    if c.method.endswith('_finish') or 'field' in c.method and 'finish' in c.method:
        return ok(unit())
    return Opaque('DebugBuilder', dst)


@pattern(r'std::fmt::builders::Debug(Struct|Tuple|List|Map|Set)::(field|entry|entries|key|value|finish|finish_non_exhaustive)$')
def m_debug_builder_ops(P, c, args, dt):
    if c.method.startswith('finish'):
        return ok(unit())
    return args[0]


@model('std::io::_print', 'std::io::_eprint')
def m_print(P, c, args, dt):
    # output text is not part of any property here; formatting is still executed so that
    # a panicking Display impl or a formatting of moved data would surface
    try:
        bs = render(P, tgt(args[0]).p)
    except Unsupported:
        bs = list(b'<unrendered>')
    P.events.append(('print' if c.method == '_print' else 'eprint', bs))
    return unit()
