import z3
from ..values import *
from ..interp import binop, copy_val, unit, int_cast, type_base, PyFn, Inconclusive

OPT = 'std::option::Option'
RES = 'std::result::Result'
ORD = 'std::cmp::Ordering'
CF = 'std::ops::ControlFlow'


def some(v):
    return En(OPT, 'Some', [v])


def none():
    return En(OPT, 'None', [])


def ok(v):
    return En(RES, 'Ok', [v])


def err(e):
    return En(RES, 'Err', [e])


def tup(*xs):
    return Agg('()', list(xs))


def ordering(n):
    return En(ORD, {-1: 'Less', 0: 'Equal', 1: 'Greater'}[n], [])


def tgt(v):
    """follow references down to the referent value"""
    while isinstance(v, Ref):
        v = v.get()
    return v


def tgt_slot(v):
    """follow references, returning the last Ref (slot holding a non-Ref value)"""
    if not isinstance(v, Ref):
        raise Unsupported('expected reference, got %s' % type(v).__name__)
    while isinstance(v.get(), Ref):
        v = v.get()
    return v


def is_opt(v):
    return isinstance(v, En) and v.var in ('Some', 'None')


def sc_bool(b):
    return Sc(bool(b), 0)


def b_and(a, b):
    if isinstance(a.v, bool):
        return b if a.v else FALSE
    if isinstance(b.v, bool):
        return a if b.v else FALSE
    return mk_bool(z3.And(a.v, b.v))


def b_or(a, b):
    if isinstance(a.v, bool):
        return TRUE if a.v else b
    if isinstance(b.v, bool):
        return TRUE if b.v else a
    return mk_bool(z3.Or(a.v, b.v))


def b_not(a):
    if isinstance(a.v, bool):
        return Sc(not a.v, 0)
    return mk_bool(z3.Not(a.v))


def b_all(xs):
    r = TRUE
    for x in xs:
        r = b_and(r, x)
        if r.v is False:
            return r
    return r


KEEP = []      # expressions whose ast ids key the tables below: kept alive so that ids are never reused within a path
RANGES = {}    # z3 ast id -> list of (lo, hi) intervals known to contain an integer input symbol
DOMAINS = {}   # z3 ast id -> frozenset of admissible values (8-bit input symbols); reset per path


def set_domain(expr, dom):
    DOMAINS[expr.get_id()] = dom
    KEEP.append(expr)


def set_range(expr, intervals):
    RANGES[expr.get_id()] = intervals
    KEEP.append(expr)


def dom_of(x):
    if isinstance(x, int):
        return None
    return DOMAINS.get(x.get_id())


def byte_eq(x, y):
    """x,y: int or z3 BV8 -> Sc bool"""
    if isinstance(x, int) and isinstance(y, int):
        return TRUE if x == y else FALSE
    if isinstance(y, int):
        d = DOMAINS.get(x.get_id())
        if d is not None:
            if y not in d:
                return FALSE
            if len(d) == 1:
                return TRUE
    elif isinstance(x, int):
        d = DOMAINS.get(y.get_id())
        if d is not None:
            if x not in d:
                return FALSE
            if len(d) == 1:
                return TRUE
    xz = z3.BitVecVal(x, 8) if isinstance(x, int) else x
    yz = z3.BitVecVal(y, 8) if isinstance(y, int) else y
    return mk_bool(z3.simplify(xz == yz))


def bytes_eq(a, b):
    """a, b: lists of byte values -> Sc bool"""
    if len(a) != len(b):
        return FALSE
    r = TRUE
    for x, y in zip(a, b):
        r = b_and(r, byte_eq(x, y))
        if r.v is False:
            return r
    return r


def as_bytes(v):
    """byte list of a string-like value"""
    v = tgt(v)
    if isinstance(v, StrRef):
        return v.bytes()
    if isinstance(v, StringV):
        return v.buf.b
    if isinstance(v, En) and v.ty.endswith('Cow'):
        return as_bytes(v.f[0])
    if isinstance(v, BoxV):
        return as_bytes(v.v)
    if isinstance(v, Opaque) and v.tag in ('PathBuf', 'OsString'):
        return as_bytes(v.p)
    raise Unsupported('not a string: %r' % (v,))


def as_strref(v):
    v = tgt(v)
    if isinstance(v, StrRef):
        return v
    if isinstance(v, StringV):
        return v.view()
    if isinstance(v, En) and v.ty.endswith('Cow'):
        return as_strref(v.f[0])
    if isinstance(v, BoxV):
        return as_strref(v.v)
    if isinstance(v, Opaque) and v.tag in ('PathBuf', 'OsString'):
        return as_strref(v.p)
    raise Unsupported('not a string: %r' % (v,))


def mk_string(bs):
    return StringV(bs)


def mk_str(bs):
    bs = list(bs)
    return StrRef(ByteBuf(bs), 0, len(bs))


def pystr(s):
    return mk_str(s.encode('utf-8'))


def pystring(s):
    return StringV(s.encode('utf-8'))


def concrete_bytes(bs):
    """bytes if every element is concrete else None"""
    if all(isinstance(b, int) for b in bs):
        return bytes(bs)
    return None


def is_stringlike(v):
    return isinstance(v, (StrRef, StringV))


def elems_of(v):
    """python list of elements of a sequence-like value (shared, not copied)"""
    v = tgt(v)
    if isinstance(v, VecV):
        return v.e
    if isinstance(v, SliceRef):
        return v.elems()
    if isinstance(v, Agg):
        return v.f
    if isinstance(v, BoxV):
        return elems_of(v.v)
    raise Unsupported('not a sequence: %r' % (v,))


def as_slice(v):
    """SliceRef over a sequence-like value"""
    v = tgt(v)
    if isinstance(v, SliceRef):
        return v
    if isinstance(v, VecV):
        return SliceRef(v, 0, len(v.e))
    if isinstance(v, Agg):
        return SliceRef(v, 0, len(v.f))
    if isinstance(v, BoxV):
        return as_slice(v.v)
    if isinstance(v, (StrRef, StringV)):
        # &[u8] view of a string: copy (immutable)
        bs = as_bytes(v)
        vv = VecV([Sc(b, 8) for b in bs])
        return SliceRef(vv, 0, len(bs))
    raise Unsupported('not a slice: %r' % (v,))


# ---------------------------------------------------------------------------
# structural equality / ordering / clone

def _manual_impl(P, trait, v, method):
    """MIR name of a non-derived impl of trait for v's type, if any"""
    if not isinstance(v, (Agg, En)) or not v.ty or v.ty in ('()', '[]'):
        return None
    last = v.ty.rsplit('::', 1)[-1]
    lst = P.M.trait_impls.get((trait, last, method))
    if lst and len(lst) == 1:
        return lst[0]
    return None


def val_eq(P, a, b):
    a = tgt(a)
    b = tgt(b)
    if isinstance(a, Sc) and isinstance(b, Sc):
        return binop('Eq', a, b)
    if is_stringlike(a) or is_stringlike(b):
        return bytes_eq(as_bytes(a), as_bytes(b))
    if isinstance(a, (Agg, En)) and isinstance(b, (Agg, En)):
        nm = _manual_impl(P, 'PartialEq', a, 'eq')
        if nm is not None and type(a) is type(b) and a.ty == b.ty:
            return P.run_fn(P.M.mir.get(nm), [Ref(Cell(a)), Ref(Cell(b))])
    if isinstance(a, Agg) and isinstance(b, Agg):
        if len(a.f) != len(b.f):
            return FALSE
        return b_all(val_eq(P, x, y) for x, y in zip(a.f, b.f))
    if isinstance(a, En) and isinstance(b, En):
        if a.var is None or b.var is None:
            return binop('Eq', int_cast(P.M.discr_of(a), 64, True), int_cast(P.M.discr_of(b), 64, True))
        if a.var != b.var:
            return FALSE
        return b_all(val_eq(P, x, y) for x, y in zip(a.f, b.f))
    if isinstance(a, (VecV, SliceRef)) and isinstance(b, (VecV, SliceRef, Agg)) or \
            (isinstance(a, Agg) and isinstance(b, (VecV, SliceRef))):
        ea, eb = elems_of(a), elems_of(b)
        if len(ea) != len(eb):
            return FALSE
        return b_all(val_eq(P, x, y) for x, y in zip(ea, eb))
    if isinstance(a, BoxV) and isinstance(b, BoxV):
        return val_eq(P, a.v, b.v)
    if isinstance(a, Opaque) and isinstance(b, Opaque):
        if a.tag == 'f64' and b.tag == 'f64':
            return sc_bool(a.p == b.p)
        if a.tag == b.tag and isinstance(a.p, (StrRef, StringV)):
            return val_eq(P, a.p, b.p)
        if a.tag == b.tag:
            return sc_bool(a.p == b.p)
        return FALSE
    if isinstance(a, MapV) and isinstance(b, MapV):
        if len(a.ent) != len(b.ent):
            return FALSE
        r = TRUE
        for (k, v) in a.ent:
            found = FALSE
            for (k2, v2) in b.ent:
                e = val_eq(P, k, k2)
                if v is not None:
                    e = b_and(e, val_eq(P, v, v2))
                found = b_or(found, e)
            r = b_and(r, found)
        return r
    if isinstance(a, FnItem) and isinstance(b, FnItem):
        return sc_bool(a.path == b.path)
    raise Unsupported('val_eq on %s / %s' % (type(a).__name__, type(b).__name__))


def ord_from_lt_eq(lt, eq):
    """Sc bools -> Ordering En (symbolic discriminant when needed)"""
    if isinstance(lt.v, bool) and isinstance(eq.v, bool):
        return ordering(-1 if lt.v else (0 if eq.v else 1))
    d = z3.If(lt.z(), z3.BitVecVal(-1, 8), z3.If(eq.z(), z3.BitVecVal(0, 8), z3.BitVecVal(1, 8)))
    return En(ORD, None, [], Sc(z3.simplify(d), 8, True))


def ord_disc(P, o):
    """Ordering En -> Sc i8"""
    d = P.M.discr_of(o)
    return int_cast(d, 8, True)


def ord_then(P, a, b):
    """a.then(b)"""
    da = ord_disc(P, a)
    if da.concrete:
        return a if da.sval() != 0 else b
    db = ord_disc(P, b)
    return En(ORD, None, [], Sc(z3.simplify(z3.If(da.z() != 0, da.z(), db.z())), 8, True))


def bytes_cmp(P, a, b):
    """lexicographic compare of byte lists -> Ordering"""
    n = min(len(a), len(b))
    # result when the common prefix is equal
    tail = -1 if len(a) < len(b) else (0 if len(a) == len(b) else 1)
    res = ordering(tail)
    for i in range(n - 1, -1, -1):
        x = Sc(a[i], 8)
        y = Sc(b[i], 8)
        lt = binop('Lt', x, y)
        eq = binop('Eq', x, y)
        o = ord_from_lt_eq(lt, eq)
        res = ord_then(P, o, res)
    return res


def val_cmp(P, a, b):
    a = tgt(a)
    b = tgt(b)
    if isinstance(a, Sc) and isinstance(b, Sc):
        if a.w == 0:
            a = int_cast(a, 8, False)
            b = int_cast(b, 8, False)
        return ord_from_lt_eq(binop('Lt', a, b), binop('Eq', a, b))
    if is_stringlike(a) and is_stringlike(b):
        return bytes_cmp(P, as_bytes(a), as_bytes(b))
    if isinstance(a, (Agg, En)) and isinstance(b, (Agg, En)):
        nm = _manual_impl(P, 'Ord', a, 'cmp')
        if nm is not None:
            return P.run_fn(P.M.mir.get(nm), [Ref(Cell(a)), Ref(Cell(b))])
        nm = _manual_impl(P, 'PartialOrd', a, 'partial_cmp')
        if nm is not None:
            r = P.run_fn(P.M.mir.get(nm), [Ref(Cell(a)), Ref(Cell(b))])
            return r.f[0]
    if isinstance(a, Agg) and isinstance(b, Agg):
        res = ordering(0)
        for x, y in reversed(list(zip(a.f, b.f))):
            res = ord_then(P, val_cmp(P, x, y), res)
        return res
    if isinstance(a, En) and isinstance(b, En):
        if a.var is not None and b.var is not None:
            da, db = P.M.discr_of(a), P.M.discr_of(b)
            if a.var != b.var:
                return val_cmp(P, da, db)
            res = ordering(0)
            for x, y in reversed(list(zip(a.f, b.f))):
                res = ord_then(P, val_cmp(P, x, y), res)
            return res
        return val_cmp(P, P.M.discr_of(a), P.M.discr_of(b))
    if isinstance(a, (VecV, SliceRef)) and isinstance(b, (VecV, SliceRef)):
        ea, eb = elems_of(a), elems_of(b)
        tail = -1 if len(ea) < len(eb) else (0 if len(ea) == len(eb) else 1)
        res = ordering(tail)
        for x, y in reversed(list(zip(ea, eb))):
            res = ord_then(P, val_cmp(P, x, y), res)
        return res
    raise Unsupported('val_cmp on %s / %s' % (type(a).__name__, type(b).__name__))


def is_less(P, a, b):
    """branching strict less-than on generic values"""
    o = val_cmp(P, a, b)
    d = ord_disc(P, o)
    if d.concrete:
        return d.sval() < 0
    return P.branch(d.z() == z3.BitVecVal(-1, 8))


def clone_val(P, v):
    if isinstance(v, Ref):
        # cloning a reference copies the reference
        return v
    if isinstance(v, Sc) or v is None:
        return v
    if isinstance(v, StringV):
        return StringV(list(v.buf.b))
    if isinstance(v, (StrRef, SliceRef, FnItem)):
        return v
    if isinstance(v, VecV):
        return VecV([clone_val(P, x) for x in v.e], v.ty)
    if isinstance(v, (Agg, En)):
        nm = _manual_impl(P, 'Clone', v, 'clone')
        if nm is not None and nm not in P.M.derived_impls:
            return P.run_fn(P.M.mir.get(nm), [Ref(Cell(v))])
        if isinstance(v, Agg):
            return Agg(v.ty, [clone_val(P, x) for x in v.f])
        return En(v.ty, v.var, [clone_val(P, x) for x in v.f], v.disc)
    if isinstance(v, BoxV):
        if v.kind in ('Rc', 'Arc'):
            return v
        return BoxV(clone_val(P, v.v), v.kind)
    if isinstance(v, MapV):
        return MapV(v.kind, [[clone_val(P, k), clone_val(P, x)] for k, x in v.ent], v.ty)
    if isinstance(v, Opaque):
        p = v.p
        if isinstance(p, (StringV, VecV, Agg, En, MapV)):
            p = clone_val(P, p)
        return Opaque(v.tag, p)
    if isinstance(v, PyFn):
        return v
    raise Unsupported('clone of %s' % type(v).__name__)


def call_closure(P, f, *args):
    return P.call_value(f, list(args))


def expect_concrete(sc, what='value'):
    if not isinstance(sc, Sc) or not sc.concrete:
        raise Unsupported('symbolic %s where a concrete one is required' % what)
    return sc.v
