"""imara-diff at its API boundary.

`InternedInput::new`, `Diff::compute`, `Diff::hunks` are replaced by a reference
diff: a longest-common-subsequence edit script computed over the (symbolic)
element sequences, with element equality decided by the solver (forking only
when undecided).  The result is a *valid minimal* script, which is all git-ai's
code may rely on; where several minimal scripts exist imara may pick another
one (documented under-approximation: one valid script per equality pattern).
"""
from . import model, pattern
from .util import *


def _seq(P, v):
    v = tgt(v)
    # SliceTokenSource { slice } / &str
    if isinstance(v, Agg) and len(v.f) == 1:
        return list(elems_of(v.f[0]))
    if isinstance(v, (StrRef, StringV)):
        # &str as TokenSource tokenizes by lines (with terminators)
        bs = as_bytes(v)
        out = []
        cur = []
        for b in bs:
            cur.append(b)
            if P.branch(byte_eq(b, 10)):
                out.append(mk_str(cur))
                cur = []
        if cur:
            out.append(mk_str(cur))
        return out
    return list(elems_of(v))


@model('imara_diff::InternedInput::new')
def m_interned_new(P, c, args, dt):
    return Opaque('InternedInput', (_seq(P, args[0]), _seq(P, args[1])))


def lcs_hunks(P, old, new):
    n, m = len(old), len(new)
    eq = [[None] * m for _ in range(n)]

    def same(i, j):
        if eq[i][j] is None:
            eq[i][j] = P.branch(val_eq(P, old[i], new[j]))
        return eq[i][j]
    # strip common prefix / suffix first (as Myers implementations do)
    pre = 0
    while pre < n and pre < m and same(pre, pre):
        pre += 1
    suf = 0
    while suf < n - pre and suf < m - pre and same(n - 1 - suf, m - 1 - suf):
        suf += 1
    a0, a1 = pre, n - suf
    b0, b1 = pre, m - suf
    # LCS table on the middle
    L = [[0] * (b1 - b0 + 1) for _ in range(a1 - a0 + 1)]
    for i in range(a1 - a0 - 1, -1, -1):
        for j in range(b1 - b0 - 1, -1, -1):
            if same(a0 + i, b0 + j):
                L[i][j] = L[i + 1][j + 1] + 1
            else:
                L[i][j] = max(L[i + 1][j], L[i][j + 1])
    matched = [(k, k) for k in range(pre)]
    i = j = 0
    while i < a1 - a0 and j < b1 - b0:
        if same(a0 + i, b0 + j) and L[i][j] == L[i + 1][j + 1] + 1:
            matched.append((a0 + i, b0 + j))
            i += 1
            j += 1
        elif L[i + 1][j] >= L[i][j + 1]:
            i += 1
        else:
            j += 1
    matched += [(n - suf + k, m - suf + k) for k in range(suf)]
    hunks = []
    pi = pj = 0
    for (i, j) in matched + [(n, m)]:
        if i > pi or j > pj:
            hunks.append((pi, i, pj, j))
        pi, pj = i + 1, j + 1
    return hunks


@model('imara_diff::Diff::compute')
def m_diff_compute(P, c, args, dt):
    old, new = tgt(args[1]).p
    return Opaque('Diff', lcs_hunks(P, old, new))


@model('imara_diff::Diff::postprocess_lines', 'imara_diff::Diff::postprocess_with_heuristic', 'imara_diff::Diff::postprocess_no_heuristic')
def m_diff_postprocess(P, c, args, dt):
    return unit()


@model('imara_diff::Diff::hunks')
def m_diff_hunks(P, c, args, dt):
    from .iters import ListIter
    hs = tgt(args[0]).p
    out = []
    for (a0, a1, b0, b1) in hs:
        out.append(Agg('imara_diff::Hunk', [Agg('std::ops::Range', [Sc(a0, 32), Sc(a1, 32)]), Agg('std::ops::Range', [Sc(b0, 32), Sc(b1, 32)])]))
    return ListIter(out)
