"""Iterator models: lazily evaluated python objects; adapters call closure MIR."""
import z3
from . import model, pattern
from .util import *
from .. import mir as MIR
from ..interp import strip_lifetimes


class ListIter(IterV):
    """iterator over an explicit python list of values (double ended)"""

    def __init__(self, items):
        self.items = list(items)
        self.i = 0
        self.j = len(self.items)

    def next(self, P):
        if self.i >= self.j:
            return None
        v = self.items[self.i]
        self.i += 1
        return v

    def next_back(self, P):
        if self.i >= self.j:
            return None
        self.j -= 1
        return self.items[self.j]

    def remaining(self):
        return self.j - self.i


class SliceIter(IterV):
    """slice::Iter / IterMut: yields references to the element slots"""

    def __init__(self, sl):
        self.sl = sl
        self.i = sl.a
        self.j = sl.b

    def next(self, P):
        if self.i >= self.j:
            return None
        r = Ref(self.sl.vec, self.i)
        self.i += 1
        return r

    def next_back(self, P):
        if self.i >= self.j:
            return None
        self.j -= 1
        return Ref(self.sl.vec, self.j)

    def remaining(self):
        return self.j - self.i

    def as_slice(self):
        return SliceRef(self.sl.vec, self.i, self.j)


class FnIter(IterV):
    def __init__(self, fn, back=None):
        self.fn = fn
        self.back = back

    def next(self, P):
        return self.fn(P)

    def next_back(self, P):
        if self.back is None:
            raise Unsupported('next_back')
        return self.back(P)


def _range_parts(r):
    last = r.ty.rsplit('::', 1)[-1]
    return last


def range_next(P, r, back=False):
    """Iterator::next on a Range / RangeInclusive Agg (mutates it)"""
    kind = _range_parts(r)
    if kind == 'Range':
        a, b = r.f[0], r.f[1]
        if not P.branch(binop('Lt', a, b)):
            return None
        if back:
            nb = binop('Sub', b, Sc(1, b.w, b.s))
            r.f[1] = nb
            return nb
        r.f[0] = binop('Add', a, Sc(1, a.w, a.s))
        return a
    if kind == 'RangeInclusive':
        a, b = r.f[0], r.f[1]
        exhausted = r.f[2] if len(r.f) > 2 else FALSE
        if exhausted.v is True:
            return None
        if not P.branch(binop('Le', a, b)):
            return None
        if back:
            if P.branch(binop('Eq', a, b)):
                if len(r.f) > 2:
                    r.f[2] = TRUE
                else:
                    r.f.append(TRUE)
                return b
            r.f[1] = binop('Sub', b, Sc(1, b.w, b.s))
            return b
        if P.branch(binop('Eq', a, b)):
            if len(r.f) > 2:
                r.f[2] = TRUE
            else:
                r.f.append(TRUE)
            return a
        r.f[0] = binop('Add', a, Sc(1, a.w, a.s))
        return a
    if kind == 'RangeFrom':
        a = r.f[0]
        r.f[0] = binop('Add', a, Sc(1, a.w, a.s))
        return a
    raise Unsupported('iteration over %s' % r.ty)


def is_range(v):
    return isinstance(v, Agg) and v.ty.startswith('std::ops::Range') or (isinstance(v, Agg) and v.ty.startswith('core::ops::Range'))


def iter_next(P, it):
    """generic Iterator::next on a reference (or value) designating an iterator"""
    t = tgt(it)
    if isinstance(t, IterV):
        return t.next(P)
    if is_range(t):
        return range_next(P, t)
    if isinstance(t, BoxV):
        return iter_next(P, t.v)
    if isinstance(t, Opaque) and isinstance(t.p, IterV):
        return t.p.next(P)
    raise Unsupported('Iterator::next on %s' % (type(t).__name__ if not isinstance(t, Agg) else t.ty))


def iter_next_back(P, it):
    t = tgt(it)
    if isinstance(t, IterV):
        return t.next_back(P)
    if is_range(t):
        return range_next(P, t, back=True)
    raise Unsupported('next_back on %s' % type(t).__name__)


def into_iter(P, v):
    if isinstance(v, IterV):
        return v
    if is_range(v):
        return v
    if isinstance(v, VecV):
        return ListIter(v.e)
    if isinstance(v, Agg) and v.ty == '[]':
        return ListIter(v.f)
    if isinstance(v, SliceRef):
        return SliceIter(v)
    if isinstance(v, MapV):
        from .maps import map_into_iter
        return map_into_iter(P, v, owned=True)
    if isinstance(v, En) and v.ty == OPT:
        return ListIter([v.f[0]] if v.var == 'Some' else [])
    if isinstance(v, Ref):
        t = tgt(v)
        if isinstance(t, IterV) or is_range(t):
            return v
        if isinstance(t, (VecV, SliceRef)) or (isinstance(t, Agg) and t.ty == '[]'):
            return SliceIter(as_slice(t))
        if isinstance(t, MapV):
            from .maps import map_into_iter
            return map_into_iter(P, t, owned=False)
        if isinstance(t, En) and t.ty == OPT:
            return ListIter([Ref(t, 0)] if t.var == 'Some' else [])
        if isinstance(t, BoxV):
            return into_iter(P, Ref(t, None) if not isinstance(t.v, (VecV, SliceRef)) else t.v)
    if isinstance(v, BoxV):
        return into_iter(P, v.v)
    raise Unsupported('into_iter on %s' % (type(v).__name__ if not isinstance(v, Agg) else v.ty))


def collect_list(P, it, limit=100000):
    it = into_iter(P, it) if not isinstance(tgt(it), IterV) and not is_range(tgt(it)) else it
    out = []
    while True:
        x = iter_next(P, it)
        if x is None:
            return out
        out.append(x)
        if len(out) > limit:
            raise Inconclusive('iterator did not terminate within %d items' % limit)


# ---------------------------------------------------------------------------
# adapters

class MapIter(IterV):
    def __init__(self, inner, f):
        self.inner = inner
        self.f = f

    def next(self, P):
        x = iter_next(P, self.inner)
        if x is None:
            return None
        return P.call_value(self.f, [x])

    def next_back(self, P):
        x = iter_next_back(P, self.inner)
        if x is None:
            return None
        return P.call_value(self.f, [x])


class FilterIter(IterV):
    def __init__(self, inner, f):
        self.inner = inner
        self.f = f

    def _scan(self, P, nxt):
        while True:
            x = nxt(P, self.inner)
            if x is None:
                return None
            if P.branch(P.call_value(self.f, [Ref(Cell(x))])):
                return x

    def next(self, P):
        return self._scan(P, iter_next)

    def next_back(self, P):
        return self._scan(P, iter_next_back)


class FilterMapIter(IterV):
    def __init__(self, inner, f):
        self.inner = inner
        self.f = f

    def _scan(self, P, nxt):
        while True:
            x = nxt(P, self.inner)
            if x is None:
                return None
            r = P.call_value(self.f, [x])
            if r.var == 'Some':
                return r.f[0]

    def next(self, P):
        return self._scan(P, iter_next)

    def next_back(self, P):
        return self._scan(P, iter_next_back)


class EnumerateIter(IterV):
    def __init__(self, inner):
        self.inner = inner
        self.n = 0

    def next(self, P):
        x = iter_next(P, self.inner)
        if x is None:
            return None
        r = tup(usize(self.n), x)
        self.n += 1
        return r

    def next_back(self, P):
        # needs exact size: materialise
        rest = collect_list(P, self.inner)
        self.inner = ListIter(rest)
        base = self.n
        x = self.inner.next_back(P)
        if x is None:
            return None
        return tup(usize(base + self.inner.remaining()), x)


class ZipIter(IterV):
    def __init__(self, a, b):
        self.a = a
        self.b = b

    def next(self, P):
        x = iter_next(P, self.a)
        if x is None:
            return None
        y = iter_next(P, self.b)
        if y is None:
            return None
        return tup(x, y)


class RevIter(IterV):
    def __init__(self, inner):
        self.inner = inner

    def next(self, P):
        return iter_next_back(P, self.inner)

    def next_back(self, P):
        return iter_next(P, self.inner)


class SkipIter(IterV):
    def __init__(self, inner, n):
        self.inner = inner
        self.n = n

    def next(self, P):
        while self.n > 0:
            self.n -= 1
            if iter_next(P, self.inner) is None:
                return None
        return iter_next(P, self.inner)

    def next_back(self, P):
        rest = collect_list(P, self)
        self.inner = ListIter(rest)
        self.n = 0
        return self.inner.next_back(P)


class TakeIter(IterV):
    def __init__(self, inner, n):
        self.inner = inner
        self.n = n

    def next(self, P):
        if self.n <= 0:
            return None
        self.n -= 1
        return iter_next(P, self.inner)


class StepByIter(IterV):
    def __init__(self, inner, n):
        self.inner = inner
        self.n = n
        self.first = True

    def next(self, P):
        if self.first:
            self.first = False
            return iter_next(P, self.inner)
        for _ in range(self.n - 1):
            if iter_next(P, self.inner) is None:
                return None
        return iter_next(P, self.inner)


class ChainIter(IterV):
    def __init__(self, a, b):
        self.a = a
        self.b = b

    def next(self, P):
        if self.a is not None:
            x = iter_next(P, self.a)
            if x is not None:
                return x
            self.a = None
        return iter_next(P, self.b)

    def next_back(self, P):
        if self.b is not None:
            x = iter_next_back(P, self.b)
            if x is not None:
                return x
            self.b = None
        if self.a is None:
            return None
        return iter_next_back(P, self.a)


class PeekableIter(IterV):
    def __init__(self, inner):
        self.inner = inner
        self.peeked = None     # None = nothing peeked; ('v', x) peeked value; ('end',)

    def next(self, P):
        if self.peeked is not None:
            p = self.peeked
            self.peeked = None
            return p[1] if p[0] == 'v' else None
        return iter_next(P, self.inner)

    def peek(self, P):
        if self.peeked is None:
            x = iter_next(P, self.inner)
            self.peeked = ('v', x) if x is not None else ('end',)
        if self.peeked[0] == 'end':
            return none()
        cell = Cell(self.peeked[1])
        self._peek_cell = cell
        return some(Ref(cell))


class FlatMapIter(IterV):
    def __init__(self, inner, f):
        self.inner = inner
        self.f = f
        self.cur = None

    def next(self, P):
        while True:
            if self.cur is not None:
                x = iter_next(P, self.cur)
                if x is not None:
                    return x
                self.cur = None
            o = iter_next(P, self.inner)
            if o is None:
                return None
            if self.f is not None:
                o = P.call_value(self.f, [o])
            self.cur = into_iter(P, o)


class ClonedIter(IterV):
    def __init__(self, inner):
        self.inner = inner

    def next(self, P):
        x = iter_next(P, self.inner)
        return None if x is None else clone_val(P, tgt(x))

    def next_back(self, P):
        x = iter_next_back(P, self.inner)
        return None if x is None else clone_val(P, tgt(x))


class TakeWhileIter(IterV):
    def __init__(self, inner, f):
        self.inner = inner
        self.f = f
        self.done = False

    def next(self, P):
        if self.done:
            return None
        x = iter_next(P, self.inner)
        if x is None:
            return None
        if P.branch(P.call_value(self.f, [Ref(Cell(x))])):
            return x
        self.done = True
        return None


class SkipWhileIter(IterV):
    def __init__(self, inner, f):
        self.inner = inner
        self.f = f
        self.started = False

    def next(self, P):
        while True:
            x = iter_next(P, self.inner)
            if x is None:
                return None
            if self.started:
                return x
            if not P.branch(P.call_value(self.f, [Ref(Cell(x))])):
                self.started = True
                return x


class MapWhileIter(IterV):
    def __init__(self, inner, f):
        self.inner = inner
        self.f = f

    def next(self, P):
        x = iter_next(P, self.inner)
        if x is None:
            return None
        r = P.call_value(self.f, [x])
        return r.f[0] if r.var == 'Some' else None


class InspectIter(IterV):
    def __init__(self, inner, f):
        self.inner = inner
        self.f = f

    def next(self, P):
        x = iter_next(P, self.inner)
        if x is not None:
            P.call_value(self.f, [Ref(Cell(x))])
        return x


def _it(args):
    return args[0]


IT = 'std::iter::Iterator::'


@model(IT + 'next')
def it_next(P, c, args, dt):
    x = iter_next(P, args[0])
    return none() if x is None else some(x)


@model('std::iter::DoubleEndedIterator::next_back')
def it_next_back(P, c, args, dt):
    x = iter_next_back(P, args[0])
    return none() if x is None else some(x)


@model(IT + 'map')
def it_map(P, c, args, dt):
    return MapIter(args[0], args[1])


@model(IT + 'filter')
def it_filter(P, c, args, dt):
    return FilterIter(args[0], args[1])


@model(IT + 'filter_map')
def it_filter_map(P, c, args, dt):
    return FilterMapIter(args[0], args[1])


@model(IT + 'enumerate')
def it_enumerate(P, c, args, dt):
    return EnumerateIter(args[0])


@model(IT + 'zip')
def it_zip(P, c, args, dt):
    return ZipIter(args[0], into_iter(P, args[1]))


@model('std::iter::zip')
def it_zip_fn(P, c, args, dt):
    return ZipIter(into_iter(P, args[0]), into_iter(P, args[1]))


@model(IT + 'rev')
def it_rev(P, c, args, dt):
    return RevIter(args[0])


@model(IT + 'skip')
def it_skip(P, c, args, dt):
    return SkipIter(args[0], expect_concrete(args[1], 'skip count'))


@model(IT + 'take')
def it_take(P, c, args, dt):
    return TakeIter(args[0], expect_concrete(args[1], 'take count'))


@model(IT + 'step_by')
def it_step_by(P, c, args, dt):
    return StepByIter(args[0], expect_concrete(args[1], 'step'))


@model(IT + 'chain')
def it_chain(P, c, args, dt):
    return ChainIter(args[0], into_iter(P, args[1]))


@model(IT + 'peekable')
def it_peekable(P, c, args, dt):
    return PeekableIter(args[0])


@model('std::iter::Peekable::peek', 'std::iter::Peekable::peek_mut')
def it_peek(P, c, args, dt):
    return tgt(args[0]).peek(P)


@model('std::iter::Peekable::next_if')
def it_next_if(P, c, args, dt):
    pk = tgt(args[0])
    o = pk.peek(P)
    if o.var == 'None':
        return none()
    if P.branch(P.call_value(args[1], [o.f[0]])):
        return some(pk.next(P))
    return none()


@model('std::iter::Peekable::next_if_eq')
def it_next_if_eq(P, c, args, dt):
    pk = tgt(args[0])
    o = pk.peek(P)
    if o.var == 'None':
        return none()
    if P.branch(val_eq(P, o.f[0], args[1])):
        return some(pk.next(P))
    return none()


@model(IT + 'flat_map')
def it_flat_map(P, c, args, dt):
    return FlatMapIter(args[0], args[1])


@model(IT + 'flatten')
def it_flatten(P, c, args, dt):
    return FlatMapIter(args[0], None)


@model(IT + 'cloned', IT + 'copied')
def it_cloned(P, c, args, dt):
    return ClonedIter(args[0])


@model(IT + 'take_while')
def it_take_while(P, c, args, dt):
    return TakeWhileIter(args[0], args[1])


@model(IT + 'skip_while')
def it_skip_while(P, c, args, dt):
    return SkipWhileIter(args[0], args[1])


@model(IT + 'map_while')
def it_map_while(P, c, args, dt):
    return MapWhileIter(args[0], args[1])


@model(IT + 'inspect')
def it_inspect(P, c, args, dt):
    return InspectIter(args[0], args[1])


@model(IT + 'fuse', IT + 'by_ref')
def it_fuse(P, c, args, dt):
    return args[0]


@model('std::iter::once')
def it_once(P, c, args, dt):
    return ListIter([args[0]])


@model('std::iter::empty')
def it_empty(P, c, args, dt):
    return ListIter([])


@model('std::iter::repeat')
def it_repeat(P, c, args, dt):
    v = args[0]
    return FnIter(lambda P: clone_val(P, v))


@model('std::iter::repeat_n')
def it_repeat_n(P, c, args, dt):
    n = expect_concrete(args[1])
    return ListIter([clone_val(P, args[0]) for _ in range(n)])


@model('std::iter::from_fn')
def it_from_fn(P, c, args, dt):
    f = args[0]

    def nx(P):
        r = P.call_value(f, [])
        return r.f[0] if r.var == 'Some' else None
    return FnIter(nx)


@model('std::iter::successors')
def it_successors(P, c, args, dt):
    st = {'cur': args[0]}
    f = args[1]

    def nx(P):
        cur = st['cur']
        if cur.var == 'None':
            return None
        v = cur.f[0]
        st['cur'] = P.call_value(f, [Ref(Cell(v))])
        return v
    return FnIter(nx)


# -- consumers ---------------------------------------------------------------

@model(IT + 'count')
def it_count(P, c, args, dt):
    return usize(len(collect_list(P, args[0])))


@model(IT + 'last')
def it_last(P, c, args, dt):
    lst = collect_list(P, args[0])
    return some(lst[-1]) if lst else none()


@model(IT + 'nth')
def it_nth(P, c, args, dt):
    n = expect_concrete(args[1], 'nth index')
    x = None
    for _ in range(n + 1):
        x = iter_next(P, args[0])
        if x is None:
            return none()
    return some(x)


@model('std::iter::DoubleEndedIterator::nth_back')
def it_nth_back(P, c, args, dt):
    n = expect_concrete(args[1], 'nth index')
    x = None
    for _ in range(n + 1):
        x = iter_next_back(P, args[0])
        if x is None:
            return none()
    return some(x)


@model(IT + 'any')
def it_any(P, c, args, dt):
    while True:
        x = iter_next(P, args[0])
        if x is None:
            return FALSE
        if P.branch(P.call_value(args[1], [x])):
            return TRUE


@model(IT + 'all')
def it_all(P, c, args, dt):
    while True:
        x = iter_next(P, args[0])
        if x is None:
            return TRUE
        if not P.branch(P.call_value(args[1], [x])):
            return FALSE


@model(IT + 'find')
def it_find(P, c, args, dt):
    while True:
        x = iter_next(P, args[0])
        if x is None:
            return none()
        if P.branch(P.call_value(args[1], [Ref(Cell(x))])):
            return some(x)


@model('std::iter::DoubleEndedIterator::rfind')
def it_rfind(P, c, args, dt):
    while True:
        x = iter_next_back(P, args[0])
        if x is None:
            return none()
        if P.branch(P.call_value(args[1], [Ref(Cell(x))])):
            return some(x)


@model(IT + 'find_map')
def it_find_map(P, c, args, dt):
    while True:
        x = iter_next(P, args[0])
        if x is None:
            return none()
        r = P.call_value(args[1], [x])
        if r.var == 'Some':
            return r


@model(IT + 'position')
def it_position(P, c, args, dt):
    i = 0
    while True:
        x = iter_next(P, args[0])
        if x is None:
            return none()
        if P.branch(P.call_value(args[1], [x])):
            return some(usize(i))
        i += 1


@model(IT + 'rposition')
def it_rposition(P, c, args, dt):
    lst = collect_list(P, args[0])
    for i in range(len(lst) - 1, -1, -1):
        if P.branch(P.call_value(args[1], [lst[i]])):
            return some(usize(i))
    return none()


@model(IT + 'fold')
def it_fold(P, c, args, dt):
    acc = args[1]
    while True:
        x = iter_next(P, args[0])
        if x is None:
            return acc
        acc = P.call_value(args[2], [acc, x])


@model('std::iter::DoubleEndedIterator::rfold')
def it_rfold(P, c, args, dt):
    acc = args[1]
    while True:
        x = iter_next_back(P, args[0])
        if x is None:
            return acc
        acc = P.call_value(args[2], [acc, x])


@model(IT + 'for_each')
def it_for_each(P, c, args, dt):
    while True:
        x = iter_next(P, args[0])
        if x is None:
            return unit()
        P.call_value(args[1], [x])


@model(IT + 'try_for_each', IT + 'try_fold')
def it_try(P, c, args, dt):
    raise Unsupported(c.key)


def _sum_type(c, dt):
    t = (c.gen[0] if c.gen else dt or '').strip()
    return t


@model(IT + 'sum')
def it_sum(P, c, args, dt):
    t = _sum_type(c, dt)
    lst = collect_list(P, args[0])
    if t in MIR.INT_TYPES:
        w, s = MIR.INT_TYPES[t]
        acc = Sc(0, w, s)
        for x in lst:
            r = binop('AddWithOverflow', acc, tgt(x))
            if P.branch(r.f[1]):
                raise Panic('attempt to add with overflow (sum)')
            acc = r.f[0]
        return acc
    if t in ('f64', 'f32'):
        return Opaque('f64', sum(tgt(x).p for x in lst))
    raise Unsupported('sum::<%s>' % t)


@model(IT + 'max', IT + 'min')
def it_max(P, c, args, dt):
    lst = collect_list(P, args[0])
    if not lst:
        return none()
    best = lst[0]
    for x in lst[1:]:
        if c.method == 'max':
            # max returns the last of equal maxima
            if not is_less(P, x, best):
                best = x
        else:
            if is_less(P, x, best):
                best = x
    return some(best)


@model(IT + 'max_by_key', IT + 'min_by_key')
def it_max_by_key(P, c, args, dt):
    lst = collect_list(P, args[0])
    if not lst:
        return none()
    best = lst[0]
    bk = P.call_value(args[1], [Ref(Cell(best))])
    for x in lst[1:]:
        k = P.call_value(args[1], [Ref(Cell(x))])
        if c.method == 'max_by_key':
            if not is_less(P, k, bk):
                best, bk = x, k
        else:
            if is_less(P, k, bk):
                best, bk = x, k
    return some(best)


@model(IT + 'max_by', IT + 'min_by')
def it_max_by(P, c, args, dt):
    from .vecs import _ord_is_less
    lst = collect_list(P, args[0])
    if not lst:
        return none()
    best = lst[0]
    for x in lst[1:]:
        o = P.call_value(args[1], [Ref(Cell(x)), Ref(Cell(best))])
        if c.method == 'max_by':
            if not _ord_is_less(P, o):
                best = x
        else:
            if _ord_is_less(P, o):
                best = x
    return some(best)


@model(IT + 'unzip')
def it_unzip(P, c, args, dt):
    lst = collect_list(P, args[0])
    a = [x.f[0] for x in lst]
    b = [x.f[1] for x in lst]
    parts = MIR.split_top(dt.strip()[1:-1]) if dt and dt.strip().startswith('(') else ['std::vec::Vec', 'std::vec::Vec']
    return tup(build_collection(P, parts[0], a), build_collection(P, parts[1], b))


@model(IT + 'partition')
def it_partition(P, c, args, dt):
    lst = collect_list(P, args[0])
    a, b = [], []
    for x in lst:
        (a if P.branch(P.call_value(args[1], [Ref(Cell(x))])) else b).append(x)
    t = c.gen[0] if c.gen else 'std::vec::Vec'
    return tup(build_collection(P, t, a), build_collection(P, t, b))


@model(IT + 'eq')
def it_eq(P, c, args, dt):
    a = collect_list(P, args[0])
    b = collect_list(P, into_iter(P, args[1]))
    if len(a) != len(b):
        return FALSE
    return b_all(val_eq(P, x, y) for x, y in zip(a, b))


@model(IT + 'size_hint', 'std::iter::ExactSizeIterator::len')
def it_len(P, c, args, dt):
    t = tgt(args[0])
    if isinstance(t, (ListIter, SliceIter)):
        n = t.remaining()
    elif is_range(t) and t.f[0].concrete and t.f[1].concrete:
        n = max(0, t.f[1].sval() - t.f[0].sval())
    else:
        raise Unsupported('len of lazy iterator')
    if c.method == 'size_hint':
        return tup(usize(n), some(usize(n)))
    return usize(n)


def build_collection(P, ty, items):
    ty = strip_lifetimes(ty.strip())
    b = type_base(ty)
    if b in ('std::vec::Vec', 'std::collections::VecDeque') or ty.startswith('std::boxed::Box<['):
        return VecV(list(items))
    if b == 'std::string::String':
        out = []
        for x in items:
            x = tgt(x)
            if isinstance(x, Sc):
                from .strs import char_bytes
                out.extend(char_bytes(x))
            else:
                out.extend(as_bytes(x))
        return StringV(out)
    if b in ('std::collections::HashMap', 'std::collections::BTreeMap', 'std::collections::HashSet', 'std::collections::BTreeSet'):
        from .maps import map_insert
        m = MapV('hash' if 'Hash' in b else 'btree', [])
        is_set = b.endswith('Set')
        for x in items:
            if is_set:
                map_insert(P, m, x, None)
            else:
                map_insert(P, m, x.f[0], x.f[1])
        return m
    if b in ('std::result::Result', 'std::option::Option'):
        inner = MIR.split_top(ty[ty.index('<') + 1:-1])[0]
        good = []
        for x in items:
            if x.var in ('Err', 'None'):
                return x if x.var == 'Err' else none()
            good.append(x.f[0])
        col = build_collection(P, inner, good)
        return ok(col) if b.endswith('Result') else some(col)
    if b == 'std::path::PathBuf':
        from .paths import path_join_components
        return path_join_components(P, items)
    if b == 'std::borrow::Cow':
        return En('std::borrow::Cow', 'Owned', [build_collection(P, 'std::string::String', items)])
    if ty == '()':
        return unit()
    raise Unsupported('collect into %s' % ty)


@model(IT + 'collect')
def it_collect(P, c, args, dt):
    ty = c.gen[0] if c.gen else dt
    b = type_base(strip_lifetimes(ty))
    if b in ('std::result::Result', 'std::option::Option'):
        # short-circuit: stop at the first Err/None
        inner = MIR.split_top(strip_lifetimes(ty)[ty.index('<') + 1:-1])[0] if '<' in ty else 'std::vec::Vec'
        good = []
        while True:
            x = iter_next(P, args[0])
            if x is None:
                break
            if x.var in ('Err', 'None'):
                return x
            good.append(x.f[0])
        col = build_collection(P, inner, good)
        return ok(col) if b.endswith('Result') else some(col)
    return build_collection(P, ty, collect_list(P, args[0]))


@model('std::iter::FromIterator::from_iter')
def it_from_iter(P, c, args, dt):
    return build_collection(P, c.selfty, collect_list(P, into_iter(P, args[0])))


@model('std::iter::Extend::extend')
def it_extend(P, c, args, dt):
    dst = tgt(args[0])
    items = collect_list(P, into_iter(P, args[1]))
    if isinstance(dst, VecV):
        for x in items:
            # Extend<&T> for Vec<T: Copy>
            dst.e.append(x)
        return unit()
    if isinstance(dst, StringV):
        for x in items:
            x = tgt(x)
            if isinstance(x, Sc):
                from .strs import char_bytes
                dst.buf.b.extend(char_bytes(x))
            else:
                dst.buf.b.extend(as_bytes(x))
        return unit()
    if isinstance(dst, MapV):
        from .maps import map_insert
        for x in items:
            if isinstance(x, Agg) and x.ty == '()' and len(x.f) == 2 and not _is_set(c):
                map_insert(P, dst, x.f[0], x.f[1])
            else:
                map_insert(P, dst, x, None)
        return unit()
    raise Unsupported('extend on %s' % type(dst).__name__)


def _is_set(c):
    return 'Set' in (c.selfty or '')
