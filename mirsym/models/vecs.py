"""Vec / slice / array / VecDeque models."""
import z3
from . import model, pattern
from .util import *
from .. import mir as MIR


def _vec(a):
    v = tgt(a)
    if isinstance(v, VecV):
        return v
    if isinstance(v, BoxV) and isinstance(v.v, VecV):
        return v.v
    raise Unsupported('expected Vec, got %s' % type(v).__name__)


def seq_index(P, base, idx):
    """Index::index on a sequence with usize or range index -> Ref / SliceRef"""
    sl = as_slice(base)
    i = tgt(idx)
    if isinstance(i, Sc):
        n = len(sl)
        if i.concrete:
            k = i.v
        else:
            inb = binop('Lt', i, usize(n))
            if not P.branch(inb):
                raise Panic('index out of bounds: the len is %d' % n)
            k = P.concretize(i, 0, n - 1)
        if k >= n:
            raise Panic('index out of bounds: the len is %d but the index is %d' % (n, k))
        return Ref(sl.vec, sl.a + k)
    from .strs import range_bounds
    n = len(sl)
    a, b = range_bounds(P, i, n)
    if not (a <= b <= n):
        raise Panic('slice index out of range [%d..%d] of %d' % (a, b, n))
    return SliceRef(sl.vec, sl.a + a, sl.a + b)


@model('std::vec::Vec::new', 'std::collections::VecDeque::new')
def v_new(P, c, args, dt):
    return VecV([])


@model('std::vec::Vec::with_capacity', 'std::collections::VecDeque::with_capacity')
def v_with_capacity(P, c, args, dt):
    return VecV([])


@model('std::vec::Vec::len', 'std::slice::<impl [T]>::len', 'std::collections::VecDeque::len')
def v_len(P, c, args, dt):
    return usize(len(as_slice(args[0])))


@model('std::vec::Vec::is_empty', 'std::slice::<impl [T]>::is_empty', 'std::collections::VecDeque::is_empty')
def v_is_empty(P, c, args, dt):
    return sc_bool(len(as_slice(args[0])) == 0)


@model('std::vec::Vec::push', 'std::collections::VecDeque::push_back')
def v_push(P, c, args, dt):
    _vec(args[0]).e.append(args[1])
    return unit()


@model('std::collections::VecDeque::push_front')
def v_push_front(P, c, args, dt):
    _vec(args[0]).e.insert(0, args[1])
    return unit()


@model('std::vec::Vec::pop', 'std::collections::VecDeque::pop_back')
def v_pop(P, c, args, dt):
    e = _vec(args[0]).e
    if not e:
        return none()
    return some(e.pop())


@model('std::collections::VecDeque::pop_front')
def v_pop_front(P, c, args, dt):
    e = _vec(args[0]).e
    if not e:
        return none()
    return some(e.pop(0))


@model('std::vec::Vec::clear', 'std::collections::VecDeque::clear')
def v_clear(P, c, args, dt):
    del _vec(args[0]).e[:]
    return unit()


@model('std::vec::Vec::truncate')
def v_truncate(P, c, args, dt):
    e = _vec(args[0]).e
    n = expect_concrete(args[1], 'truncate length')
    del e[n:]
    return unit()


@model('std::vec::Vec::insert')
def v_insert(P, c, args, dt):
    e = _vec(args[0]).e
    i = tgt(args[1])
    k = i.v if i.concrete else P.concretize(i, 0, len(e) + 1)
    if k > len(e):
        raise Panic('insertion index out of bounds')
    e.insert(k, args[2])
    return unit()


@model('std::vec::Vec::remove', 'std::vec::Vec::swap_remove')
def v_remove(P, c, args, dt):
    e = _vec(args[0]).e
    i = tgt(args[1])
    k = i.v if i.concrete else P.concretize(i, 0, len(e))
    if k >= len(e):
        raise Panic('removal index out of bounds')
    if c.method == 'swap_remove':
        e[k], e[-1] = e[-1], e[k]
        return e.pop()
    return e.pop(k)


@model('std::vec::Vec::extend_from_slice')
def v_extend_from_slice(P, c, args, dt):
    _vec(args[0]).e.extend(clone_val(P, x) for x in elems_of(args[1]))
    return unit()


@model('std::vec::Vec::append')
def v_append(P, c, args, dt):
    other = _vec(args[1])
    _vec(args[0]).e.extend(other.e)
    other.e = []
    return unit()


@model('std::vec::Vec::reserve', 'std::vec::Vec::shrink_to_fit', 'std::vec::Vec::reserve_exact')
def v_reserve(P, c, args, dt):
    return unit()


@model('std::vec::Vec::capacity')
def v_capacity(P, c, args, dt):
    return usize(len(_vec(args[0]).e))


@model('std::vec::Vec::as_slice', 'std::vec::Vec::as_mut_slice', 'std::slice::<impl [T]>::as_slice',
       'std::array::<impl [T; N]>::as_slice')
def v_as_slice(P, c, args, dt):
    return as_slice(args[0])


@model('std::vec::Vec::into_boxed_slice', 'std::slice::<impl [T]>::into_vec')
def v_into_boxed(P, c, args, dt):
    v = args[0]
    if isinstance(v, BoxV):
        inner = v.v
        if isinstance(inner, Agg):
            return VecV(inner.f)
        return inner
    return v


@model('std::slice::<impl [T]>::to_vec', 'std::slice::<impl [T]>::to_owned')
def sl_to_vec(P, c, args, dt):
    return VecV([clone_val(P, x) for x in elems_of(args[0])])


@model('std::vec::from_elem')
def v_from_elem(P, c, args, dt):
    n = expect_concrete(args[1], 'vec! length')
    return VecV([clone_val(P, args[0]) for _ in range(n)])


@model('std::slice::<impl [T]>::first', 'std::slice::<impl [T]>::first_mut', 'std::collections::VecDeque::front')
def sl_first(P, c, args, dt):
    s = as_slice(args[0])
    return some(Ref(s.vec, s.a)) if len(s) else none()


@model('std::slice::<impl [T]>::last', 'std::slice::<impl [T]>::last_mut', 'std::collections::VecDeque::back')
def sl_last(P, c, args, dt):
    s = as_slice(args[0])
    return some(Ref(s.vec, s.b - 1)) if len(s) else none()


@model('std::slice::<impl [T]>::get', 'std::slice::<impl [T]>::get_mut', 'std::collections::VecDeque::get')
def sl_get(P, c, args, dt):
    s = as_slice(args[0])
    i = tgt(args[1])
    n = len(s)
    if isinstance(i, Sc):
        if i.concrete:
            return some(Ref(s.vec, s.a + i.v)) if i.v < n else none()
        if not P.branch(binop('Lt', i, usize(n))):
            return none()
        k = P.concretize(i, 0, n - 1)
        return some(Ref(s.vec, s.a + k))
    from .strs import range_bounds
    a, b = range_bounds(P, i, n)
    if not (a <= b <= n):
        return none()
    return some(SliceRef(s.vec, s.a + a, s.a + b))


@model('std::slice::<impl [T]>::get_unchecked', 'std::slice::<impl [T]>::get_unchecked_mut')
def sl_get_unchecked(P, c, args, dt):
    return seq_index(P, args[0], args[1])


@model('std::slice::<impl [T]>::split_first', 'std::slice::<impl [T]>::split_last',
       'std::slice::<impl [T]>::split_first_mut', 'std::slice::<impl [T]>::split_last_mut')
def sl_split_first(P, c, args, dt):
    s = as_slice(args[0])
    if not len(s):
        return none()
    if c.method.startswith('split_first'):
        return some(tup(Ref(s.vec, s.a), SliceRef(s.vec, s.a + 1, s.b)))
    return some(tup(Ref(s.vec, s.b - 1), SliceRef(s.vec, s.a, s.b - 1)))


@model('std::slice::<impl [T]>::split_at', 'std::slice::<impl [T]>::split_at_mut')
def sl_split_at(P, c, args, dt):
    s = as_slice(args[0])
    k = expect_concrete(args[1], 'split_at index')
    if k > len(s):
        raise Panic('split_at mid > len')
    return tup(SliceRef(s.vec, s.a, s.a + k), SliceRef(s.vec, s.a + k, s.b))


@model('std::slice::<impl [T]>::contains', 'std::collections::VecDeque::contains')
def sl_contains(P, c, args, dt):
    r = FALSE
    for e in elems_of(args[0]):
        r = b_or(r, val_eq(P, e, args[1]))
        if r.v is True:
            break
    return r


@model('std::slice::<impl [T]>::starts_with', 'std::slice::<impl [T]>::ends_with')
def sl_starts_with(P, c, args, dt):
    a = elems_of(args[0])
    b = elems_of(args[1])
    if len(b) > len(a):
        return FALSE
    part = a[:len(b)] if c.method == 'starts_with' else a[len(a) - len(b):]
    return b_all(val_eq(P, x, y) for x, y in zip(part, b))


@model('std::slice::<impl [T]>::iter', 'std::slice::<impl [T]>::iter_mut', 'std::collections::VecDeque::iter',
       'std::collections::VecDeque::iter_mut')
def sl_iter(P, c, args, dt):
    from .iters import SliceIter
    return SliceIter(as_slice(args[0]))


@model('std::slice::<impl [T]>::windows')
def sl_windows(P, c, args, dt):
    from .iters import ListIter
    s = as_slice(args[0])
    k = expect_concrete(args[1], 'window size')
    if k == 0:
        raise Panic('window size must be non-zero')
    return ListIter([SliceRef(s.vec, s.a + i, s.a + i + k) for i in range(0, len(s) - k + 1)])


@model('std::slice::<impl [T]>::chunks', 'std::slice::<impl [T]>::chunks_mut')
def sl_chunks(P, c, args, dt):
    from .iters import ListIter
    s = as_slice(args[0])
    k = expect_concrete(args[1], 'chunk size')
    if k == 0:
        raise Panic('chunk size must be non-zero')
    return ListIter([SliceRef(s.vec, s.a + i, min(s.a + i + k, s.b)) for i in range(0, len(s), k)])


@model('std::slice::<impl [T]>::reverse')
def sl_reverse(P, c, args, dt):
    s = as_slice(args[0])
    lst = s._list()
    lst[s.a:s.b] = lst[s.a:s.b][::-1]
    return unit()


@model('std::slice::<impl [T]>::swap')
def sl_swap(P, c, args, dt):
    s = as_slice(args[0])
    i = expect_concrete(args[1])
    j = expect_concrete(args[2])
    if i >= len(s) or j >= len(s):
        raise Panic('swap index out of bounds')
    lst = s._list()
    lst[s.a + i], lst[s.a + j] = lst[s.a + j], lst[s.a + i]
    return unit()


@model('std::slice::<impl [T]>::fill')
def sl_fill(P, c, args, dt):
    s = as_slice(args[0])
    lst = s._list()
    for i in range(s.a, s.b):
        lst[i] = clone_val(P, args[1])
    return unit()


@model('std::slice::<impl [T]>::copy_from_slice', 'std::slice::<impl [T]>::clone_from_slice')
def sl_copy_from(P, c, args, dt):
    s = as_slice(args[0])
    src = elems_of(args[1])
    if len(src) != len(s):
        raise Panic('source slice length does not match destination')
    lst = s._list()
    for i, x in enumerate(src):
        lst[s.a + i] = clone_val(P, x)
    return unit()


def _insertion_sort(P, lst, less):
    """stable insertion sort; less(a, b) -> python bool (may fork)"""
    out = []
    for x in lst:
        i = len(out)
        while i > 0 and less(x, out[i - 1]):
            i -= 1
        out.insert(i, x)
    return out


@model('std::slice::<impl [T]>::sort', 'std::slice::<impl [T]>::sort_unstable')
def sl_sort(P, c, args, dt):
    s = as_slice(args[0])
    lst = s._list()
    lst[s.a:s.b] = _insertion_sort(P, lst[s.a:s.b], lambda a, b: is_less(P, a, b))
    return unit()


def _ord_is_less(P, o):
    d = ord_disc(P, o)
    if d.concrete:
        return d.sval() < 0
    return P.branch(d.z() == z3.BitVecVal(-1, 8))


@model('std::slice::<impl [T]>::sort_by', 'std::slice::<impl [T]>::sort_unstable_by')
def sl_sort_by(P, c, args, dt):
    s = as_slice(args[0])
    lst = s._list()
    f = args[1]

    def less(a, b):
        return _ord_is_less(P, P.call_value(f, [Ref(Cell(a)), Ref(Cell(b))]))
    lst[s.a:s.b] = _insertion_sort(P, lst[s.a:s.b], less)
    return unit()


@model('std::slice::<impl [T]>::sort_by_key', 'std::slice::<impl [T]>::sort_unstable_by_key',
       'std::slice::<impl [T]>::sort_by_cached_key')
def sl_sort_by_key(P, c, args, dt):
    s = as_slice(args[0])
    lst = s._list()
    f = args[1]
    keyed = [(P.call_value(f, [Ref(Cell(x))]), x) for x in lst[s.a:s.b]]
    res = _insertion_sort(P, keyed, lambda a, b: is_less(P, a[0], b[0]))
    lst[s.a:s.b] = [x for _, x in res]
    return unit()


@model('std::slice::<impl [T]>::is_sorted')
def sl_is_sorted(P, c, args, dt):
    es = elems_of(args[0])
    r = TRUE
    for a, b in zip(es, es[1:]):
        o = ord_disc(P, val_cmp(P, a, b))
        r = b_and(r, sc_bool(o.sval() <= 0) if o.concrete else mk_bool(o.z() != z3.BitVecVal(1, 8)))
    return r


@model('std::slice::<impl [T]>::is_sorted_by', 'std::slice::<impl [T]>::is_sorted_by_key')
def sl_is_sorted_by(P, c, args, dt):
    es = elems_of(args[0])
    r = TRUE
    for a, b in zip(es, es[1:]):
        if c.method == 'is_sorted_by':
            r = b_and(r, P.call_value(args[1], [Ref(Cell(a)), Ref(Cell(b))]))
        else:
            ka = P.call_value(args[1], [Ref(Cell(a))])
            kb = P.call_value(args[1], [Ref(Cell(b))])
            o = ord_disc(P, val_cmp(P, ka, kb))
            r = b_and(r, sc_bool(o.sval() <= 0) if o.concrete else mk_bool(o.z() != z3.BitVecVal(1, 8)))
    return r


@model('std::vec::Vec::dedup')
def v_dedup(P, c, args, dt):
    v = _vec(args[0])
    out = []
    for x in v.e:
        if out and P.branch(val_eq(P, out[-1], x)):
            continue
        out.append(x)
    v.e[:] = out
    return unit()


@model('std::vec::Vec::dedup_by_key')
def v_dedup_by_key(P, c, args, dt):
    v = _vec(args[0])
    out = []
    for x in v.e:
        if out:
            ka = P.call_value(args[1], [Ref(Cell(out[-1]))])
            kb = P.call_value(args[1], [Ref(Cell(x))])
            if P.branch(val_eq(P, ka, kb)):
                continue
        out.append(x)
    v.e[:] = out
    return unit()


@model('std::vec::Vec::dedup_by')
def v_dedup_by(P, c, args, dt):
    v = _vec(args[0])
    out = []
    for x in v.e:
        if out and P.branch(P.call_value(args[1], [Ref(Cell(x)), Ref(Cell(out[-1]))])):
            continue
        out.append(x)
    v.e[:] = out
    return unit()


@model('std::vec::Vec::retain', 'std::vec::Vec::retain_mut', 'std::collections::VecDeque::retain')
def v_retain(P, c, args, dt):
    v = _vec(args[0])
    out = []
    for i, x in enumerate(list(v.e)):
        cell = Cell(x)
        if P.branch(P.call_value(args[1], [Ref(cell)])):
            out.append(cell.v)
    v.e[:] = out
    return unit()


@model('std::vec::Vec::drain', 'std::collections::VecDeque::drain')
def v_drain(P, c, args, dt):
    from .iters import ListIter
    from .strs import range_bounds
    v = _vec(args[0])
    a, b = range_bounds(P, args[1], len(v.e))
    if not (a <= b <= len(v.e)):
        raise Panic('drain range out of bounds')
    piece = v.e[a:b]
    del v.e[a:b]
    return ListIter(piece)


@model('std::vec::Vec::split_off')
def v_split_off(P, c, args, dt):
    v = _vec(args[0])
    k = expect_concrete(args[1])
    if k > len(v.e):
        raise Panic('split_off at > len')
    tail = v.e[k:]
    del v.e[k:]
    return VecV(tail)


@model('std::vec::Vec::splice')
def v_splice(P, c, args, dt):
    from .iters import ListIter, collect_list
    from .strs import range_bounds
    v = _vec(args[0])
    a, b = range_bounds(P, args[1], len(v.e))
    new = collect_list(P, args[2])
    old = v.e[a:b]
    v.e[a:b] = new
    return ListIter(old)


@model('std::slice::<impl [T]>::binary_search', 'std::slice::<impl [T]>::binary_search_by',
       'std::slice::<impl [T]>::binary_search_by_key')
def sl_binary_search(P, c, args, dt):
    """For a sorted slice the documented result is: Ok(i) with elem i equal (any such i),
    else Err(insertion point).  The model walks left to right with branching; when several
    elements are equal it returns the first – callers in this code base use the result only
    for membership or on de-duplicated data."""
    es = elems_of(args[0])

    def cmp_at(e):
        if c.method == 'binary_search':
            return val_cmp(P, e, args[1])
        if c.method == 'binary_search_by':
            return P.call_value(args[1], [Ref(Cell(e))])
        k = P.call_value(args[2], [Ref(Cell(e))])
        return val_cmp(P, k, args[1])
    for i, e in enumerate(es):
        d = ord_disc(P, cmp_at(e))
        if d.concrete:
            x = d.sval()
            if x == 0:
                return ok(usize(i))
            if x > 0:
                return err(usize(i))
            continue
        k = P.choose([d.z() == z3.BitVecVal(0, 8), d.z() == z3.BitVecVal(1, 8), d.z() == z3.BitVecVal(-1, 8)])
        if k == 0:
            return ok(usize(i))
        if k == 1:
            return err(usize(i))
    return err(usize(len(es)))


@model('std::slice::<impl [T]>::partition_point')
def sl_partition_point(P, c, args, dt):
    es = elems_of(args[0])
    for i, e in enumerate(es):
        if not P.branch(P.call_value(args[1], [Ref(Cell(e))])):
            return usize(i)
    return usize(len(es))


@model('std::slice::<impl [T]>::iter().rev')
def _unused(P, c, args, dt):
    raise Unsupported('unused')


@model('std::iter::IntoIterator::into_iter')
def m_into_iter(P, c, args, dt):
    from .iters import into_iter
    return into_iter(P, args[0])


@model('std::array::<impl [T; N]>::map')
def arr_map(P, c, args, dt):
    return Agg('[]', [P.call_value(args[1], [x]) for x in args[0].f])


@model('std::array::<impl [T; N]>::iter')
def arr_iter(P, c, args, dt):
    from .iters import SliceIter
    return SliceIter(as_slice(args[0]))


@model('std::collections::VecDeque::make_contiguous', 'std::collections::VecDeque::as_slices')
def vd_contig(P, c, args, dt):
    s = as_slice(args[0])
    if c.method == 'as_slices':
        return tup(s, SliceRef(s.vec, s.b, s.b))
    return s
